#!/bin/bash
# usage: tools_try_seed.sh <seed-name> [rule ids...]  - apply a seeded patch to a scratch copy and run the given rules (or all checks)
s=$1; shift
t=$(mktemp -d /tmp/tryseed.XXXX)
cp -r /repo/coco $t/coco; find $t -name __pycache__ -prune -exec rm -rf {} +
patch -p1 -s -d $t -i /verif/seeded/$s/patch.diff || { echo "patch failed"; rm -rf $t; exit 2; }
cd /verif
if [ $# -eq 0 ]; then
  SA_EVIDENCE_DIR=$t/ev PYTHONHASHSEED=0 timeout 900 /venv/bin/python -m sa.check all --repo $t 2>&1 | grep -E "^(VIOLATION|ANALYSIS-ERROR)|^coco/" | cut -c1-400
else
  for r in "$@"; do SA_EVIDENCE_DIR=$t/ev PYTHONHASHSEED=0 timeout 900 /venv/bin/python -m sa.check --rule $r -v --repo $t 2>&1 | grep -v '"verdict": "ok"' | grep -v '"verdict": "info"' | cut -c1-500; done
fi
rm -rf $t
