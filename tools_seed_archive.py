"""Archive confirmed seeded mutations under /verif/seeded/<id>-<k>/ (patch.diff, demo.py, meta.json)
and (re-)evaluate every archived one against the current checks.

usage: tools_seed_archive.py import C01 C02 ...   (from /tmp/seed/out_<id>)
       tools_seed_archive.py only <names>         (re-evaluate the named seeds)
       tools_seed_archive.py rerun                (re-evaluate everything under /verif/seeded)
"""
import json, os, shutil, subprocess, sys, tempfile

SEEDED = "/verif/seeded"

def sh(cmd, cwd=None, env=None, timeout=900):
    e = dict(os.environ); e.update(env or {})
    p = subprocess.run(cmd, shell=True, cwd=cwd, env=e, capture_output=True, text=True, timeout=timeout)
    return p.returncode, p.stdout + p.stderr

def evaluate(patch, demo):
    """Apply the patch to a scratch copy of /repo's working tree (outside /repo and /verif), run suite, demo, checks."""
    wt = tempfile.mkdtemp(prefix="seedwt_")
    res = {}
    try:
        sh(f"cd /repo && tar --exclude=.git --exclude=__pycache__ -cf - . | tar -xf - -C {wt}")
        rc, o = sh(f"patch -p1 -s -d {wt} -i {patch}")
        res["applies"] = rc == 0
        if rc != 0:
            res["apply_error"] = o[-300:]; return res
        rc, o = sh("/venv/bin/python -m pytest -q -p no:cacheprovider 2>&1 | tail -3", cwd=wt, env={"PYTHONPATH": wt})
        res["suite"] = [l for l in o.strip().splitlines() if "passed" in l or "failed" in l][-1:]
        res["suite_passes"] = "306 passed" in o
        rc0, _ = sh(f"/venv/bin/python {demo}", cwd="/tmp", env={"PYTHONPATH": "/repo"})
        rc1, o1 = sh(f"/venv/bin/python {demo}", cwd="/tmp", env={"PYTHONPATH": wt})
        res["demo_exit_on_original"] = rc0; res["demo_exit_with_change"] = rc1
        ev = tempfile.mkdtemp(prefix="seedev_")
        rc, o = sh(f"/venv/bin/python -m sa.check all --repo {wt}", cwd="/verif", env={"SA_EVIDENCE_DIR": ev, "PYTHONHASHSEED": "0"})
        shutil.rmtree(ev, ignore_errors=True)
        res["checks_reporting_violation"] = sorted({l.split("property=")[1].split()[0] for l in o.splitlines() if l.startswith("VIOLATION")})
        res["analysis_errors"] = [l for l in o.splitlines() if l.startswith("ANALYSIS-ERROR")][:5]
        reps = []
        for l in o.splitlines():
            if l.startswith(("KNOWN", "VIOLATION", "STALE", "SKIPPED", "ANALYSIS")) or not l.startswith("coco/"):
                continue
            key = l.split(": ", 1)[1][:240] if ": " in l else l[:240]
            if key not in reps:
                reps.append(key)
        res["reports"] = [r.replace(wt, "<tree>") for r in reps[:6]]
    finally:
        shutil.rmtree(wt, ignore_errors=True)
    return res


def _eval_named(name):
    d = f"{SEEDED}/{name}"
    return name, evaluate(f"{d}/patch.diff", f"{d}/demo.py")


def main():
    mode = sys.argv[1]
    os.makedirs(SEEDED, exist_ok=True)
    import re as _re

    mi = _re.fullmatch(r"import(\d*)", mode)
    rnd = int(mi.group(1) or 1) if mi else 0
    if mi:
        src_of = lambda pid: f"/tmp/seed/out_{pid}" if rnd == 1 else f"/tmp/seed/out{rnd}_{pid}"
        off = 2 * (rnd - 1)
        for pid in sys.argv[2:]:
            for k in ("1", "2", "3"):
                src = src_of(pid)
                if not os.path.exists(f"{src}/patch{k}.diff"):
                    continue
                d = f"{SEEDED}/{pid}-{int(k) + off}"
                os.makedirs(d, exist_ok=True)
                shutil.copy(f"{src}/patch{k}.diff", f"{d}/patch.diff")
                shutil.copy(f"{src}/demo{k}.py", f"{d}/demo.py")
                try:
                    m = json.load(open(f"{src}/meta{k}.json"))
                except Exception:
                    m = {}
                meta = {"property": pid, "breaks": m.get("summary", ""), "needs_to_manifest": m.get("needs", ""), "author": "independent sub-agent given only the property text and a scratch worktree"}
                json.dump(meta, open(f"{d}/meta.json", "w"), indent=1)
    ks = [str(2 * (rnd - 1) + j) for j in (1, 2, 3)] if mi else []
    if mode == "only":
        only = sys.argv[2:]
        mode = "rerun"
    else:
        only = None
    todo = only if only is not None else sorted(os.listdir(SEEDED)) if mode == "rerun" else [f"{p}-{k}" for p in sys.argv[2:] for k in ks if os.path.isdir(f"{SEEDED}/{p}-{k}")]
    from concurrent.futures import ProcessPoolExecutor

    todo = [n for n in todo if os.path.exists(f"{SEEDED}/{n}/patch.diff")]
    with ProcessPoolExecutor(max_workers=8) as ex:
        results = list(ex.map(_eval_named, todo))
    for name, r in results:
        d = f"{SEEDED}/{name}"
        meta = json.load(open(f"{d}/meta.json"))
        ok = r.get("suite_passes") and r.get("demo_exit_on_original") == 0 and r.get("demo_exit_with_change") not in (0, None)
        meta["confirmed"] = bool(ok)
        meta["what_i_ran"] = {
            "apply": "copy of /repo working tree in <scratch> (outside /repo and /verif); patch -p1 -d <scratch> -i patch.diff",
            "suite": "cd <scratch> && PYTHONPATH=<scratch> /venv/bin/python -m pytest -q -p no:cacheprovider -> " + " ".join(r.get("suite", [])),
            "demo_on_original": f"PYTHONPATH=/repo /venv/bin/python demo.py -> exit {r.get('demo_exit_on_original')}",
            "demo_with_change": f"PYTHONPATH=<scratch> /venv/bin/python demo.py -> exit {r.get('demo_exit_with_change')}",
            "checks": "cd /verif && SA_EVIDENCE_DIR=<tmp> /venv/bin/python -m sa.check all --repo <scratch>",
        }
        meta["detected_by_checks"] = r.get("checks_reporting_violation", [])
        meta["target_property_detected"] = meta["property"] in r.get("checks_reporting_violation", [])
        meta["reports"] = r.get("reports", [])
        if "first_contact" not in meta and mode != "rerun":
            meta["first_contact"] = {"checker_commit": os.popen("git -C /verif rev-parse --short HEAD").read().strip(), "detected_by_checks": meta["detected_by_checks"], "target_property_detected": meta["target_property_detected"]}
        meta["analysis_errors"] = r.get("analysis_errors", [])
        json.dump(meta, open(f"{d}/meta.json", "w"), indent=1)
        print(f"{name}: confirmed={ok} detected_in={meta['detected_by_checks']} target={meta['target_property_detected']} errs={len(meta['analysis_errors'])}")
        if not ok:
            print("   NOT CONFIRMED:", {k: r.get(k) for k in ("applies", "suite", "demo_exit_on_original", "demo_exit_with_change")})

main()
