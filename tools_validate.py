"""Validate MANIFEST.json and evidence/*.json against the schemas (run with python3-vt)."""
import json, sys, glob
import jsonschema
ok = True
m = json.load(open('/verif/MANIFEST.json'))
try:
    jsonschema.validate(m, json.load(open('/root/.vp/MANIFEST.schema.json')))
    print('MANIFEST ok', len(m['checks']))
except Exception as e:
    ok = False; print('MANIFEST INVALID', e)
es = json.load(open('/root/.vp/EVIDENCE.schema.json'))
for c in m['checks']:
    f = c['evidence_file']
    try:
        jsonschema.validate(json.load(open(f)), es)
    except Exception as e:
        ok = False; print('EVIDENCE INVALID', f, str(e)[:300])
print('evidence ok' if ok else 'FAILED')
sys.exit(0 if ok else 1)
