#!/usr/bin/env python3
"""Regenerate the generated tables of DESIGN.md (between <!-- X-BEGIN --> / <!-- X-END --> markers):
RULES (rule id, properties, title - from the rule registry) and SEEDS (from seeded/*/meta.json)."""
import json, os, re, sys

sys.path.insert(0, "/verif")
from sa.check import load_rules
from sa import core

load_rules()


def rules_table():
    out = ["| rule | properties | what it decides |", "|---|---|---|"]
    for rid, info in core.RULES.items():
        soft = " (soft idiom rule)" if info.soft else ""
        out.append(f"| {rid} | {','.join(info.props)} | {info.title}{soft} |")
    return "\n".join(out)


def seeds_table():
    out = ["| seed | change | first contact | now reported by checks | rules |", "|---|---|---|---|---|"]
    n = tgt = 0
    for d in sorted(os.listdir("/verif/seeded")):
        mf = f"/verif/seeded/{d}/meta.json"
        if not os.path.exists(mf):
            continue
        m = json.load(open(mf))
        rules = sorted({r.split(" ")[0] for r in m.get("reports", [])})
        fc = m.get("first_contact")
        fcs = "n/r" if fc is None else ("target" if fc["target_property_detected"] else ("other: " + ",".join(fc["detected_by_checks"]) if fc["detected_by_checks"] else "missed"))
        det = ",".join(m.get("detected_by_checks", [])) or "- (missed)"
        n += 1
        tgt += bool(m.get("target_property_detected"))
        out.append(f"| {d} | {m.get('breaks','')[:150].replace('|','/')} | {fcs} | {det} | {','.join(rules) or '-'} |")
    out.append("")
    out.append(f"{n} seeds, {tgt} reported by the check of the property they target.")
    return "\n".join(out)


def main():
    p = "/verif/DESIGN.md"
    s = open(p).read()
    for tag, fn in (("RULES", rules_table), ("SEEDS", seeds_table)):
        b, e = f"<!-- {tag}-BEGIN -->", f"<!-- {tag}-END -->"
        if b in s and e in s:
            s = s[: s.index(b) + len(b)] + "\n" + fn() + "\n" + s[s.index(e) :]
    open(p, "w").write(s)


main()
