#!/bin/bash
# usage: tools_seed_batch.sh C02 C03 ...   -> prints one line per candidate mutation
for pid in "$@"; do
  for k in 1 2; do
    [ -f /tmp/seed/out_$pid/patch$k.diff ] || continue
    /venv/bin/python /verif/tools_seed_eval.py /tmp/seed/out_$pid $k > /tmp/seed/out_$pid/eval$k.json 2>/dev/null
    /venv/bin/python - "$pid" "$k" <<'PY'
import json,sys
pid,k=sys.argv[1],sys.argv[2]
r=json.load(open(f'/tmp/seed/out_{pid}/eval{k}.json'))
ok = r.get('tests_pass') and r.get('demo_original_exit')==0 and r.get('demo_mutated_exit') not in (0,None)
print(f"{pid}#{k} valid={ok} caught_in={r.get('violations_in')} target_caught={pid in (r.get('violations_in') or [])} errs={len(r.get('analysis_errors') or [])}")
for x in (r.get('reports') or [])[:4]: print('     ', x[:200])
PY
  done
done
