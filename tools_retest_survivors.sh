#!/bin/bash
# Re-run the quick checks on the surviving mutants of a campaign directory (diffs against /repo).
# usage: tools_retest_survivors.sh <campaign dir>
dir=$1
one() {
  d=$1; t=$(mktemp -d /tmp/resurv.XXXX)
  cp -r /repo/coco $t/coco; find $t -name __pycache__ -prune -exec rm -rf {} +
  crlf=0
  if grep -q "ecb.b09" $d; then crlf=1; sed -i 's/\r$//' $t/coco/resources/ecb.b09; fi
  if ! patch -p0 -s -d $t -i $d >/dev/null 2>&1; then echo "$(basename $d) PATCH-FAILED"; rm -rf $t; return; fi
  [ $crlf = 1 ] && sed -i 's/$/\r/' $t/coco/resources/ecb.b09
  out=$(cd /verif && SA_EVIDENCE_DIR=$t/ev PYTHONHASHSEED=0 timeout 900 /venv/bin/python -m sa.check all --tier quick --repo $t 2>&1 | grep -E "^(VIOLATION|ANALYSIS-ERROR)" | head -3 | tr '\n' ' ')
  echo "$(basename $d) ${out:-SURVIVED}"
  rm -rf $t
}
export -f one
ls $dir/survivor_*.diff | xargs -P 8 -I{} bash -c 'one {}'
