"""Mutation campaign against the checkers (maintenance tool, not a registered check).

Generates small syntactic mutants of /repo (one change each), keeps those that still pass the 306 tests, runs
`sa.check all --repo <mutant>` and lists the survivors (tests pass AND no check reports a violation) for triage.

usage: tools_mutate.py [--ops a,b,c] [--limit N] [--jobs 16] [--out /tmp/mut]
"""
import argparse, ast, difflib, json, os, random, re, shutil, subprocess, sys, tempfile
from concurrent.futures import ProcessPoolExecutor

REPO = "/repo"


def read(rel):
    return open(os.path.join(REPO, rel)).read()


def seg(src, node):
    return ast.get_source_segment(src, node)


def replace_node(src, node, new):
    lines = src.split("\n")
    # compute absolute offsets
    def off(l, c):
        return sum(len(x) + 1 for x in lines[: l - 1]) + len(lines[l - 1].encode()[:c].decode())
    a, b = off(node.lineno, node.col_offset), off(node.end_lineno, node.end_col_offset)
    return src[:a] + new + src[b:]


def gen_python(rel, ops):
    src = read(rel)
    tree = ast.parse(src)
    out = []
    parents = {id(c): p for p in ast.walk(tree) for c in ast.iter_child_nodes(p)}
    for n in ast.walk(tree):
        # 1/2: delete visit / callback statements
        if "delstmt" in ops and isinstance(n, ast.Expr) and isinstance(n.value, ast.Call) and isinstance(n.value.func, ast.Attribute):
            a = n.value.func.attr
            if a == "visit" or a.startswith("visit_") or a in ("append", "add", "update", "set_is_referenced", "set_var", "transform_function_to_call", "insert_lines_at_beginning", "extend_prefix_lines", "append_lines"):
                out.append((rel, replace_node(src, n, "pass"), f"delete `{seg(src, n)[:60]}` @{n.lineno}"))
        # 3: swap adjacent elements of list displays with >= 2 elts inside calls
        if "swapargs" in ops and isinstance(n, (ast.List, ast.Tuple)) and 2 <= len(n.elts) <= 9 and isinstance(parents.get(id(n)), ast.Call):
            for i in range(len(n.elts) - 1):
                a, b = seg(src, n.elts[i]), seg(src, n.elts[i + 1])
                if a and b and a != b:
                    new = replace_node(src, n.elts[i + 1], a)
                    new = replace_node(new, n.elts[i], b) if len(a) == len(b) else None
                    if new is None:
                        s2 = replace_node(src, n.elts[i + 1], a)
                        # second replacement with fresh parse
                        try:
                            t2 = ast.parse(s2)
                        except SyntaxError:
                            continue
                        tgt = None
                        for m in ast.walk(t2):
                            if isinstance(m, type(n)) and m.lineno == n.lineno and m.col_offset == n.col_offset and len(m.elts) == len(n.elts):
                                tgt = m
                        if tgt is None:
                            continue
                        new = replace_node(s2, tgt.elts[i], b)
                    out.append((rel, new, f"swap list elements {i},{i+1} `{a[:25]}`<->`{b[:25]}` @{n.lineno}"))
        # swap positional call args of constructor calls
        if "swapcall" in ops and isinstance(n, ast.Call) and isinstance(n.func, ast.Name) and n.func.id[:1].isupper() and len(n.args) >= 2:
            for i in range(len(n.args) - 1):
                a, b = seg(src, n.args[i]), seg(src, n.args[i + 1])
                if a and b and a != b:
                    s2 = replace_node(src, n.args[i + 1], a)
                    try:
                        t2 = ast.parse(s2)
                    except SyntaxError:
                        continue
                    tgt = next((m for m in ast.walk(t2) if isinstance(m, ast.Call) and m.lineno == n.lineno and m.col_offset == n.col_offset), None)
                    if tgt is None:
                        continue
                    out.append((rel, replace_node(s2, tgt.args[i], b), f"swap call args {i},{i+1} of {n.func.id} @{n.lineno}"))
        # 6: constants
        if "const" in ops and isinstance(n, ast.Constant) and isinstance(n.value, int) and not isinstance(n.value, bool) and 0 <= n.value <= 65535:
            s0 = seg(src, n)
            if s0 and re.fullmatch(r"[0-9a-fx_]+", s0.lower()):
                for nv in {n.value + 1, max(0, n.value - 1)} - {n.value}:
                    out.append((rel, replace_node(src, n, str(nv)), f"constant {s0} -> {nv} @{n.lineno}"))
        # 10: comparisons
        if "cmp" in ops and isinstance(n, ast.Compare) and len(n.ops) == 1:
            s0 = seg(src, n)
            m = {ast.Lt: "<=", ast.LtE: "<", ast.Gt: ">=", ast.GtE: ">", ast.Eq: "!=", ast.NotEq: "=="}.get(type(n.ops[0]))
            if m and s0:
                l, r = seg(src, n.left), seg(src, n.comparators[0])
                out.append((rel, replace_node(src, n, f"{l} {m} {r}"), f"compare `{s0[:40]}` -> {m} @{n.lineno}"))
        # negate an if / while test
        if "ifneg" in ops and isinstance(n, (ast.If, ast.While)) and not (isinstance(n.test, ast.Constant)):
            s0 = seg(src, n.test)
            if s0:
                out.append((rel, replace_node(src, n.test, f"not ({s0})"), f"negate `{s0[:50]}` @{n.lineno}"))
        # arithmetic / bit operators
        if "arith" in ops and isinstance(n, ast.BinOp):
            m = {ast.Add: "-", ast.Sub: "+", ast.LShift: ">>", ast.RShift: "<<", ast.BitAnd: "|", ast.BitOr: "&", ast.Mult: "//", ast.FloorDiv: "*"}.get(type(n.op))
            l, r = seg(src, n.left), seg(src, n.right)
            if m and l and r and not isinstance(n.left, ast.Constant) or (m and l and r and isinstance(n.left, ast.Constant) and not isinstance(n.left.value, str)):
                out.append((rel, replace_node(src, n, f"({l}) {m} ({r})"), f"operator `{seg(src, n)[:40]}` -> {m} @{n.lineno}"))
        # slice bounds
        if "slice" in ops and isinstance(n, ast.Slice):
            for b in (n.lower, n.upper):
                if isinstance(b, ast.Constant) and isinstance(b.value, int) and not isinstance(b.value, bool):
                    out.append((rel, replace_node(src, b, str(b.value + 1)), f"slice bound {b.value} -> {b.value + 1} @{b.lineno}"))
        # 7: sorted
        if "sorted" in ops and isinstance(n, ast.Call) and isinstance(n.func, ast.Name) and n.func.id == "sorted" and len(n.args) == 1:
            out.append((rel, replace_node(src, n, f"list({seg(src, n.args[0])})"), f"remove sorted() @{n.lineno}"))
        # 9: drop super().basic09_text prefix
        if "prefix" in ops and isinstance(n, ast.Call) and isinstance(n.func, ast.Attribute) and n.func.attr == "basic09_text" and isinstance(n.func.value, ast.Call) and getattr(n.func.value.func, "id", "") == "super":
            out.append((rel, replace_node(src, n, "''"), f"drop super().basic09_text @{n.lineno}"))
        # boolean flips in keyword args
        if "bool" in ops and isinstance(n, ast.Constant) and isinstance(n.value, bool) and isinstance(parents.get(id(n)), ast.keyword):
            out.append((rel, replace_node(src, n, str(not n.value)), f"flip {n.value} @{n.lineno}"))
        # string constants with "RUN x" / "run x": change name
        if "names" in ops and isinstance(n, ast.Constant) and isinstance(n.value, str) and re.fullmatch(r"(?i)run \w+", n.value):
            out.append((rel, replace_node(src, n, repr(n.value + "x")), f"rename {n.value} @{n.lineno}"))
    return out


def gen_grammar(ops):
    rel = "coco/b09/grammar.py"
    src = read(rel)
    out = []
    if "space" in ops:
        for m in re.finditer(r" space\* ", src):
            out.append((rel, src[: m.start()] + " " + src[m.end():], f"delete space* at offset {m.start()} (line {src[:m.start()].count(chr(10))+1})"))
    if "spaceopt" in ops:
        for m in re.finditer(r" space\* ", src):
            out.append((rel, src[: m.start()] + " space? " + src[m.end():], f"space* -> space? (line {src[:m.start()].count(chr(10))+1})"))
    if "alt" in ops:
        # swap the first two alternatives of ( "A" / "B" ) groups
        for m in re.finditer(r'\("([A-Z<>=]+)" / "([A-Z<>=]+)"', src):
            out.append((rel, src[: m.start()] + f'("{m.group(2)}" / "{m.group(1)}"' + src[m.end():], f"swap alternatives {m.group(1)}/{m.group(2)} (line {src[:m.start()].count(chr(10))+1})"))
    return out


B09_SEMANTIC_PROCS = {"ecb_instr", "ecb_string", "ecb_read_filter", "ecb_str", "ecb_hex", "_ecb_input_prefix", "_ecb_input_suffix", "ecb_val", "ecb_mid", "ecb_left", "ecb_right", "_ecb_get_num", "_ecb_read_value"}


def gen_b09(ops):
    rel = "coco/resources/ecb.b09"
    src = read(rel)
    lines = re.split(r"(\r\n|\r|\n)", src)
    out = []
    cur_proc = ""
    for i in range(0, len(lines), 2):
        ln = lines[i]
        pm = re.match(r"(?i)^\s*procedure\s+(\w+)", ln)
        if pm:
            cur_proc = pm.group(1).lower()
        m = re.match(r"(?i)^(\s*param\s+)(\w+)\s*,\s*(\w+)(.*)$", ln)
        if "b09param" in ops and m:
            new = lines[:]
            new[i] = f"{m.group(1)}{m.group(3)}, {m.group(2)}{m.group(4)}"
            out.append((rel, "".join(new), f"swap params `{ln.strip()[:50]}` (line {i//2+1})"))
        m = re.match(r"(?i)^(\s*run\s+\w+\()(.*)\)\s*$", ln)
        if "b09arg" in ops and m and "," in m.group(2) and '"' not in m.group(2) and "(" not in m.group(2):
            args = [a.strip() for a in m.group(2).split(",")]
            new = lines[:]
            new[i] = f"{m.group(1)}{', '.join(args[:-1])})"
            out.append((rel, "".join(new), f"drop last arg `{ln.strip()[:50]}` (line {i//2+1})"))
        if "b09op" in ops and cur_proc in B09_SEMANTIC_PROCS and not re.match(r"(?i)^\s*(param|dim|type|procedure|rem|\(\*)", ln):
            for a_, b_ in (("<=", ">="), (">=", "<="), (" < ", " <= "), (" > ", " >= "), ("<>", "="), (" + ", " - "), (" - ", " + "), (" AND ", " OR "), (" and ", " or ")):
                if a_ in ln and '"' not in ln:
                    new = lines[:]
                    new[i] = ln.replace(a_, b_, 1)
                    out.append((rel, "".join(new), f"{cur_proc}: `{ln.strip()[:50]}` {a_.strip()} -> {b_.strip()} (line {i//2+1})"))
                    break
        if "b09del" in ops and cur_proc in B09_SEMANTIC_PROCS and re.match(r"(?i)^\s*[a-z_][\w.$()]*\s*:?=[^=]", ln):
            new = lines[:]
            new[i] = "REM " + ln.strip()
            out.append((rel, "".join(new), f"{cur_proc}: delete `{ln.strip()[:50]}` (line {i//2+1})"))
        if "b09type" in ops and re.search(r"(?i)^type display_t", ln) and i < 400:
            new = lines[:]
            new[i] = ln.replace("hbck, hfore", "hfore, hbck", 1)
            if new[i] != ln:
                out.append((rel, "".join(new), f"swap record fields (line {i//2+1})"))
    return out


def evaluate(args):
    idx, rel, content, desc, out = args
    tmp = tempfile.mkdtemp(prefix="mut_")
    try:
        shutil.copytree(os.path.join(REPO, "coco"), os.path.join(tmp, "coco"), ignore=shutil.ignore_patterns("__pycache__"))
        shutil.copytree(os.path.join(REPO, "tests"), os.path.join(tmp, "tests"), ignore=shutil.ignore_patterns("__pycache__"))
        open(os.path.join(tmp, rel), "w").write(content)
        env = dict(os.environ, PYTHONPATH=tmp, PYTHONDONTWRITEBYTECODE="1")
        try:
            p = subprocess.run(["/venv/bin/python", "-m", "pytest", "-q", "-x", "-p", "no:cacheprovider", "tests"], cwd=tmp, env=env, capture_output=True, text=True, timeout=240)
            tests_ok = "306 passed" in p.stdout
        except subprocess.TimeoutExpired:
            tests_ok = False
        if not tests_ok:
            return {"idx": idx, "desc": desc, "rel": rel, "status": "killed-by-tests"}
        ev = tempfile.mkdtemp(prefix="mutev_")
        env2 = dict(os.environ, SA_EVIDENCE_DIR=ev, PYTHONHASHSEED="0")
        p = subprocess.run(["/venv/bin/python", "-m", "sa.check", "all", "--repo", tmp], cwd="/verif", env=env2, capture_output=True, text=True, timeout=600)
        shutil.rmtree(ev, ignore_errors=True)
        viol = sorted({l.split("property=")[1].split()[0] for l in p.stdout.splitlines() if l.startswith("VIOLATION")})
        errs = [l for l in p.stdout.splitlines() if l.startswith("ANALYSIS-ERROR")]
        rules = sorted({l.split(": ", 1)[1].split(" ")[0] for l in p.stdout.splitlines() if l.startswith("coco/") and ": " in l})
        st = "detected" if viol else ("analysis-error" if errs else "SURVIVED")
        if st == "SURVIVED":
            orig = read(rel)
            diff = "".join(difflib.unified_diff(orig.splitlines(True), content.splitlines(True), rel, rel, n=1))
            open(os.path.join(out, f"survivor_{idx}.diff"), "w").write(diff)
        return {"idx": idx, "desc": desc, "rel": rel, "status": st, "violations": viol, "rules": rules, "errors": errs[:2]}
    finally:
        shutil.rmtree(tmp, ignore_errors=True)


def main():
    ap = argparse.ArgumentParser()
    ap.add_argument("--ops", default="delstmt,swapargs,swapcall,const,cmp,sorted,prefix,bool,names,space,alt,b09param,b09arg,b09type")
    ap.add_argument("--files", default="")
    ap.add_argument("--limit", type=int, default=0)
    ap.add_argument("--jobs", type=int, default=16)
    ap.add_argument("--out", default="/tmp/mut")
    ap.add_argument("--seed", type=int, default=1)
    a = ap.parse_args()
    ops = set(a.ops.split(","))
    os.makedirs(a.out, exist_ok=True)
    files = a.files.split(",") if a.files else [
        "coco/b09/elements.py", "coco/b09/parser.py", "coco/b09/visitors.py", "coco/b09/compiler.py", "coco/b09/procbank.py", "coco/b09/prog.py",
        "coco/b09/error_handler.py", "coco/decb_to_b09.py", "coco/hrstoppm.py", "coco/pixtopgm.py", "coco/maxtoppm.py", "coco/mgetoppm.py",
        "coco/cm3toppm.py", "coco/rattoppm.py", "coco/veftopng.py", "coco/util.py",
    ]
    muts = []
    for f in files:
        muts += gen_python(f, ops)
    muts += gen_grammar(ops) + gen_b09(ops)
    # drop mutants that do not parse
    ok = []
    for rel, content, desc in muts:
        if rel.endswith(".py"):
            try:
                ast.parse(content)
            except SyntaxError:
                continue
        ok.append((rel, content, desc))
    random.Random(a.seed).shuffle(ok)
    if a.limit:
        ok = ok[: a.limit]
    print(f"{len(ok)} mutants", flush=True)
    tasks = [(i, rel, content, desc, a.out) for i, (rel, content, desc) in enumerate(ok)]
    res = []
    with ProcessPoolExecutor(max_workers=a.jobs) as ex:
        for r in ex.map(evaluate, tasks, chunksize=1):
            res.append(r)
            if r["status"] in ("SURVIVED", "analysis-error"):
                print(f"{r['status']:15s} #{r['idx']} {r['rel']}: {r['desc']} {r.get('errors') or ''}", flush=True)
    json.dump(res, open(os.path.join(a.out, "results.json"), "w"), indent=1)
    from collections import Counter
    print(Counter(r["status"] for r in res))


if __name__ == "__main__":
    main()
