"""Evaluate candidate seeded mutations: confirm (tests pass, demo fails only with the change) and run the checks.

usage: tools_seed_eval.py <out_dir> <k> [--keep <name>]
"""
import json, os, shutil, subprocess, sys, tempfile

def sh(cmd, cwd=None, env=None, timeout=900):
    e = dict(os.environ); e.update(env or {})
    p = subprocess.run(cmd, shell=True, cwd=cwd, env=e, capture_output=True, text=True, timeout=timeout)
    return p.returncode, p.stdout + p.stderr

def main():
    out, k = sys.argv[1], sys.argv[2]
    patch = os.path.join(out, f"patch{k}.diff"); demo = os.path.join(out, f"demo{k}.py")
    wt = tempfile.mkdtemp(prefix="seedwt_")
    os.rmdir(wt)
    rc, o = sh(f"git -C /repo worktree add -q {wt} HEAD")
    res = {"patch": patch}
    try:
        rc, o = sh(f"git -C {wt} apply {patch}")
        res["applies"] = rc == 0
        if rc != 0:
            res["apply_error"] = o[-300:]
            return res
        rc, o = sh("/venv/bin/python -m pytest -q -p no:cacheprovider -x 2>&1 | tail -3", cwd=wt, env={"PYTHONPATH": wt})
        res["tests"] = o.strip().splitlines()[-1] if o.strip() else ""
        res["tests_pass"] = "306 passed" in o
        rc0, o0 = sh(f"/venv/bin/python {demo}", cwd="/tmp", env={"PYTHONPATH": "/repo"})
        rc1, o1 = sh(f"/venv/bin/python {demo}", cwd="/tmp", env={"PYTHONPATH": wt})
        res["demo_original_exit"] = rc0; res["demo_mutated_exit"] = rc1
        res["demo_mutated_output"] = o1[-400:]
        ev = tempfile.mkdtemp(prefix="seedev_")
        rc, o = sh(f"/venv/bin/python -m sa.check all --repo {wt}", cwd="/verif", env={"SA_EVIDENCE_DIR": ev})
        shutil.rmtree(ev, ignore_errors=True)
        viol = sorted({l.split("property=")[1].split()[0] for l in o.splitlines() if l.startswith("VIOLATION")})
        lines = [l for l in o.splitlines() if ": " in l and not l.startswith(("KNOWN", "VIOLATION", "C", "STALE", "SKIPPED")) ]
        res["check_exit"] = rc
        res["violations_in"] = viol
        res["analysis_errors"] = [l for l in o.splitlines() if l.startswith("ANALYSIS-ERROR")][:5]
        res["reports"] = sorted(set(lines))[:12]
    finally:
        sh(f"git -C /repo worktree remove --force {wt}")
        sh("git -C /repo worktree prune")
    return res

if __name__ == "__main__":
    r = main()
    print(json.dumps(r, indent=1))
