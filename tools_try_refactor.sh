#!/bin/bash
# usage: tools_try_refactor.sh <refactor-name> [rule ids...]
s=$1; shift
t=$(mktemp -d /tmp/tryref.XXXX)
cp -r /repo/coco $t/coco; find $t -name __pycache__ -prune -exec rm -rf {} +
patch -p1 -s -d $t -i /verif/refactors/$s/patch.diff || { echo "patch failed"; rm -rf $t; exit 2; }
cd /verif
if [ $# -eq 0 ]; then
  SA_EVIDENCE_DIR=$t/ev PYTHONHASHSEED=0 timeout 900 /venv/bin/python -m sa.check all --repo $t 2>&1 | grep -E "^(VIOLATION|ANALYSIS-ERROR|SKIPPED)|^coco/" | sort -u | cut -c1-400
else
  for r in "$@"; do SA_EVIDENCE_DIR=$t/ev PYTHONHASHSEED=0 timeout 900 /venv/bin/python -m sa.check --rule $r -v --repo $t 2>&1 | grep -v '"verdict": "ok"' | grep -v '"verdict": "info"' | cut -c1-600; done
fi
rm -rf $t
