"""Rules added after the second round of independently seeded faults:
G10 KEYWORD-EXCLUSION, G11 SYNONYM-AGREE, A2 FALSY-FILTER, E15 PRINT-SKELETON, E16 HOIST-UNCONDITIONAL, P11 SIZE-TEST-AGREE."""

from __future__ import annotations

import ast
import re
from typing import Dict, List, Optional, Set, Tuple

from .absint import Const, NumV, Obj, Operand, Seq, Tmpl, Union, alts_of, interp
from .core import AnalysisError, Ctx, IdiomNotFound, rule
from .peg import GRAMMAR_REL, peg
from .pyast import ast_contains, call_name, is_self_attr, names_loaded, pyfacts, unparse
from .rules_g import SYNONYM_ALTERNATIONS, member_class
from .visitormodel import PARSER_REL

ELEMENTS_REL = "coco/b09/elements.py"
VISITORS_REL = "coco/b09/visitors.py"


def _first_keywords(p, e, depth=0) -> Set[str]:
    if depth > 12:
        return set()
    k = p.kind(e)
    if k == "literal":
        return {e.literal} if re.fullmatch(r"[A-Z]{2,}\$?", e.literal) else set()
    if k == "oneof":
        out: Set[str] = set()
        for m in e.members:
            out |= _first_keywords(p, m, depth + 1)
        return out
    if k == "quant":
        return _first_keywords(p, e.members[0], depth + 1)
    if k == "seq":
        out = set()
        nullable = p.nullable()
        blank = p.blank_only()
        for m in e.members:
            if blank[id(m)] or p.kind(m) == "lookahead":
                continue
            out |= _first_keywords(p, m, depth + 1)
            if not nullable[id(m)]:
                break
        return out
    return set()


def _can_end_with_name(p, e, depth=0) -> bool:
    """Can a match of e end with a variable name / expression (so that a following keyword could be swallowed)?"""
    if depth > 14:
        return True
    k = p.kind(e)
    if k == "literal":
        return False
    if k == "regex":
        return e.name in ("var", "str_var")
    if e.name in ("exp", "str_exp", "var", "str_var", "num_exp", "statements", "print_args", "lhs", "rhs"):
        return True
    if k == "oneof":
        return any(_can_end_with_name(p, m, depth + 1) for m in e.members)
    if k == "quant":
        return _can_end_with_name(p, e.members[0], depth + 1)
    if k == "seq":
        blank = p.blank_only()
        nullable = p.nullable()
        for m in reversed(e.members):
            if blank[id(m)] or p.kind(m) == "lookahead":
                continue
            if _can_end_with_name(p, m, depth + 1):
                return True
            if not nullable[id(m)]:
                return False
        return False
    return False


@rule("G10", "KEYWORD-EXCLUSION: every keyword that can directly follow an expression or a statement is excluded from the variable terminals", ["C02", "C01", "C15"], floor=8)
def g10(ctx: Ctx):
    p = peg(ctx)
    var, svar = p.rule("var"), p.rule("str_var")
    ctx.need(p.kind(var) == "regex" and p.kind(svar) == "regex", "var", "variable terminals are not regexes")
    blank = p.blank_only()
    seen: Set[str] = set()
    for rname in sorted(p.rules):
        e = p.rules[rname]
        if (e.name or rname) != rname:
            continue
        stack = [e]
        vis = set()
        while stack:
            x = stack.pop()
            if id(x) in vis:
                continue
            vis.add(id(x))
            for m in getattr(x, "members", ()) or ():
                if not m.name:
                    stack.append(m)
            if p.kind(x) != "seq":
                continue
            ms = [m for m in x.members if not blank[id(m)] and p.kind(m) != "lookahead"]
            for a, b in zip(ms, ms[1:]):
                if not _can_end_with_name(p, a):
                    continue
                for kw in sorted(_first_keywords(p, b)):
                    if kw in seen:
                        continue
                    seen.add(kw)
                    hit = var.re.match(kw) is not None or svar.re.match(kw) is not None
                    ctx.ob(
                        f"keyword:{kw}",
                        not hit,
                        "" if not hit else f"keyword `{kw}` can follow an expression / statement (rule `{rname}`) but the variable terminal accepts it as (the start of) a name: `... {kw} ...` is swallowed as a variable, so the clause it introduces is lost or the program is rejected",
                        file=GRAMMAR_REL,
                        line=p.line("var"),
                        witness="" if not hit else f'20 IF A=1 THEN PRINT "ONE" {kw} 40' if kw == "ELSE" else "",
                    )


@rule("G10b", "KEYWORD-EXCLUSION (atoms): a keyword that starts an expression atom (function, ERNO, VARPTR ...) is never also a variable name", ["C09", "C01"], floor=2)
def g10b(ctx: Ctx):
    p = peg(ctx)
    var, svar = p.rule("var"), p.rule("str_var")
    seen: Set[str] = set()
    for top in ("val_exp", "str_simple_exp"):
        e = p.rule(top)
        ctx.need(p.kind(e) == "oneof", top, "atom rule is not an ordered choice")
        for m in e.members:
            for kw in sorted(_first_keywords(p, m)):
                if kw in seen:
                    continue
                seen.add(kw)
                # only atoms that are complete as the bare keyword compete with a variable of that name
                try:
                    m.parse(kw)
                    bare = True
                except Exception:
                    bare = False
                if not bare:
                    ctx.info(f"atom-keyword:{kw}", "atom needs an argument list; a variable of that name is told apart by the parenthesis", file=GRAMMAR_REL, line=p.line("var"))
                    continue
                hit = (var.re.match(kw) is not None) if not kw.endswith("$") else (svar.re.match(kw) is not None)
                ctx.ob(
                    f"atom-keyword:{kw}",
                    not hit,
                    "" if not hit else f"`{kw}` starts an expression atom (rule `{m.name or top}`) but is also accepted as a variable name: in expression position it means the built-in / generated identifier, as an assignment, FOR, READ, INPUT or DIM target it becomes the user variable `{kw[:2]}` - one source name, two BASIC09 identifiers",
                    file=GRAMMAR_REL,
                    line=p.line("var"),
                    witness="" if not hit else f"10 {kw}=5:PRINT {kw}",
                )


@rule("G11", "SYNONYM-AGREE: every rule that starts with PRINT accepts `?` as well (sibling rules agree on their keyword alternation)", ["C08"], floor=3)
def g11(ctx: Ctx):
    p = peg(ctx)
    for syn in SYNONYM_ALTERNATIONS:
        n = 0
        for e in p.all_exprs():
            ls = p.literal_set(e)
            if ls and p.kind(e) in ("oneof", "literal") and (ls & syn):
                # only maximal alternations (not the literals inside one)
                pass
        for rname in sorted(p.rules):
            r = p.rules[rname]
            if (r.name or rname) != rname or p.kind(r) != "seq":
                continue
            first = next((m for m in r.members if not p.blank_only()[id(m)]), None)
            if first is None:
                continue
            ls = p.literal_set(first)
            if ls and (ls & syn):
                n += 1
                ok = ls == syn
                ctx.ob(f"{rname}:{'/'.join(sorted(syn))}", ok, "" if ok else f"rule `{rname}` starts with {sorted(ls)} while its sibling rules accept {sorted(syn)}: the same statement spelled with the other synonym is rejected", file=GRAMMAR_REL, line=p.line(rname))
        ctx.need(n >= 3, "/".join(sorted(syn)), f"only {n} rules start with this keyword")


@rule("A2", "FALSY-FILTER: no parse-tree visitor filters by truthiness a list whose elements can be the number 0", ["C02", "C06"], floor=1)
def a2(ctx: Ctx):
    I = interp(ctx)
    py = pyfacts(ctx)
    vm = I.vm
    n = 0
    for name, m in sorted(vm.methods.items()):
        if m.rule not in I.peg.rules:
            continue
        for node in ast.walk(m.fn):
            filt: List[Tuple[ast.AST, ast.AST]] = []
            if isinstance(node, (ast.ListComp, ast.GeneratorExp)):
                for g in node.generators:
                    for c in g.ifs:
                        filt.append((c, g.iter))
            # the same filter written as a loop (`if not x: continue` / `if x: keep`) or as filter(None, xs)
            if isinstance(node, ast.For) and isinstance(node.target, ast.Name):
                for st_ in node.body:
                    if isinstance(st_, ast.If):
                        t_ = st_.test
                        if isinstance(t_, ast.Name) and t_.id == node.target.id:
                            filt.append((t_, node.iter))
                        elif isinstance(t_, ast.UnaryOp) and isinstance(t_.op, ast.Not) and isinstance(t_.operand, ast.Name) and t_.operand.id == node.target.id and st_.body and isinstance(st_.body[-1], ast.Continue):
                            filt.append((t_.operand, node.iter))
            if isinstance(node, ast.Call) and isinstance(node.func, ast.Name) and node.func.id == "filter" and len(node.args) == 2 and isinstance(node.args[0], ast.Constant) and node.args[0].value is None:
                filt.append((ast.Name(id="element", ctx=ast.Load()), node.args[1]))
            for cond, it in filt:
                if not isinstance(cond, ast.Name):
                    continue
                n += 1
                # element values of the iterated list for this rule
                e = I.peg.rules[m.rule]
                children = I.children_of(e, ())
                env = {m.children_param: children, m.node_param: None}
                # evaluate the unpack statements that precede the comprehension to bind locals
                val = None
                if isinstance(it, ast.Name) and it.id == m.children_param:
                    val = children
                else:
                    try:
                        loc: Dict[str, object] = {m.children_param: children}
                        for st in m.fn.body:
                            if getattr(st, "lineno", 0) >= node.lineno:
                                break
                            if isinstance(st, ast.Assign):
                                I.exec_stmt(st, loc, [], "BasicVisitor")
                        val = I.ev(it, loc, "BasicVisitor")
                    except Exception:
                        val = None
                r = I.iter_elems(val) if val is not None else None
                elems = (r[0] + ([r[1]] if r[1] is not None else [])) if r else []
                numeric = any(isinstance(a, NumV) or (isinstance(a, Const) and isinstance(a.value, (int, float)) and not isinstance(a.value, bool)) for x in elems for a in alts_of(x))
                ctx.ob(
                    f"{name}:if {cond.id}",
                    not numeric,
                    "" if not numeric else f"`{name}` keeps only the truthy elements of a list of numbers: the value 0 (line number 0) is silently dropped",
                    file=PARSER_REL,
                    line=node.lineno,
                    witness="" if not numeric else "20 ON A GOTO 40,0,50",
                )
    ctx.need(n >= 1, "visitors", "no truthiness-filtered comprehension found in the parse-tree visitors (anchor: visit_statements_elements)")


def _render_concrete(I, t) -> Optional[str]:
    if isinstance(t, Const):
        return str(t.value)
    if isinstance(t, Tmpl):
        s = ""
        for part in t.parts:
            if isinstance(part, str):
                s += part
            elif isinstance(part, Operand):
                s += "⟦item⟧"
            elif isinstance(part, Tmpl):
                r = _render_concrete(I, part)
                if r is None:
                    return None
                s += r
            else:
                return None
        return s
    return None


@rule("E15", "PRINT-SKELETON: in the emitted PRINT list every separator has something in front of it and juxtaposed items get `;` between them", ["C03", "C07"], floor=30)
def e15(ctx: Ctx):
    """The reconstruction loop of BasicPrintArgs.basic09_text is evaluated by the abstract interpreter on every
    argument shape of up to three entries (item / `;` / `,`): no repository code runs, the loop is unrolled."""
    I = interp(ctx)
    py = pyfacts(ctx)
    import itertools

    rm = py.resolve_method("BasicPrintArgs", "basic09_text")
    ctx.need(rm is not None, "BasicPrintArgs.basic09_text", "not found")

    def mk(kind: str, i: int):
        if kind == "item":
            return Operand("str_exp", (i,), src=(i,))
        return I.construct("BasicPrintControl", [Const(kind)], {}, 0, "BasicPrintControl")

    for n in (1, 2, 3):
        for shape in itertools.product(("item", ";", ","), repeat=n):
            args = Seq([mk(k, i) for i, k in enumerate(shape)])
            o = I.construct("BasicPrintArgs", [args], {}, 0, "BasicPrintArgs")
            t = I.call_function(rm[1], [o, Const(0)], self_obj=o, owner=rm[0].name)
            texts = {_render_concrete(I, a) for a in alts_of(t)}
            key = "PRINT " + " ".join(shape)
            if None in texts or len(texts) != 1:
                raise AnalysisError("E15", key, f"emitted text could not be derived: {t!r}")
            txt = next(iter(texts))
            toks = re.findall(r'⟦item⟧|""|;|,', txt)
            bad = None
            prev = None
            for tk in toks:
                if tk in (";", ","):
                    if prev is None or prev in (";", ","):
                        bad = f"separator `{tk}` has nothing in front of it"
                        break
                else:
                    if prev is not None and prev not in (";", ","):
                        bad = "two items without a separator between them"
                        break
                prev = tk
            n_items = toks.count("⟦item⟧")
            n_seps = len([x for x in toks if x in (";", ",")])
            if bad is None and n_items != shape.count("item"):
                bad = f"{shape.count('item')} items in the source, {n_items} in the output"
            if bad is None and n_seps < len([x for x in shape if x != "item"]):
                bad = "a separator of the source is missing in the output"
            ctx.ob(key, bad is None, "" if bad is None else f"`{key}` is emitted as `PRINT {txt}`: {bad}", file=rm[0].module, line=rm[1].lineno, facts={"emitted": txt})


@rule("E16", "HOIST-UNCONDITIONAL: every functional expression handed to a statement gets its own temporary and its own call, unconditionally", ["C05"], floor=2, soft=True)
def e16(ctx: Ctx):
    py = pyfacts(ctx)
    fn = py.cls("AbstractBasicStatement").methods.get("transform_function_to_call")
    if fn is None:
        raise IdiomNotFound("transform_function_to_call not found")
    body = [s for s in fn.body if not (isinstance(s, ast.Expr) and isinstance(s.value, ast.Constant))]
    param = fn.args.args[1].arg
    top_calls = [s.value for s in body if isinstance(s, ast.Expr) and isinstance(s.value, ast.Call)]
    set_var = [c for c in top_calls if call_name(c) == "set_var" and unparse(c.func.value) == param]
    append = [c for c in top_calls if call_name(c) == "append" and c.args and unparse(c.args[0]) == f"{param}.statement"]
    branching = [s for s in ast.walk(fn) if isinstance(s, (ast.If, ast.IfExp, ast.Return, ast.Try))]
    if not set_var and not append and not branching:
        raise IdiomNotFound("body shape not recognised")
    ok1 = len(set_var) == 1 and any(isinstance(c, ast.Call) and call_name(c) == "get_new_temp" for c in ast.walk(set_var[0]))
    ctx.ob("transform_function_to_call:fresh-temp", ok1, "" if ok1 else "a hoisted function does not always receive a new temporary (set_var(get_new_temp(..)) is missing or conditional): two calls share one result variable", file=ELEMENTS_REL, line=fn.lineno)
    ok2 = len(append) == 1 and not branching
    ctx.ob(
        "transform_function_to_call:always-emitted",
        ok2,
        "" if ok2 else "the call of a hoisted function is not appended unconditionally (branching / early return in transform_function_to_call): a function that looks like an earlier one is evaluated once and its result reused, although the source calls it twice",
        file=ELEMENTS_REL,
        line=fn.lineno,
        witness="" if ok2 else "10 A$=INKEY$+INKEY$",
    )


@rule("P11", "SIZE-TEST-AGREE: every place that decides whether a string needs an explicit size tests `size == DEFAULT_STR_STORAGE` (never an ordering)", ["C10", "C11"], floor=3)
def p11(ctx: Ctx):
    py = pyfacts(ctx)
    n = 0
    for rel in ("coco/b09/elements.py", "coco/b09/visitors.py", "coco/b09/procbank.py", "coco/b09/compiler.py"):
        m = py.mod(rel)
        for node in ast.walk(m.tree):
            if isinstance(node, ast.Compare) and "DEFAULT_STR_STORAGE" in unparse(node):
                n += 1
                ok = len(node.ops) == 1 and isinstance(node.ops[0], (ast.Eq, ast.NotEq))
                ctx.ob(
                    f"{rel.split('/')[-1]}:{_fn_at(m, node.lineno)}#{n}",
                    ok,
                    "" if ok else f"`{unparse(node)}` decides with an ordering whether a string gets an explicit size, the other sites with (in)equality: for a requested size on the other side of 32 (e.g. 16) some strings are declared with the size and others keep BASIC09's 32 bytes",
                    file=rel,
                    line=node.lineno,
                    witness="" if ok else "-s 16",
                )
    ctx.need(n >= 3, "DEFAULT_STR_STORAGE", f"only {n} size tests found")


def _fn_at(m, line: int) -> str:
    best = "<module>"
    for ci in m.classes.values():
        for fn in list(ci.methods.values()) + list(ci.properties.values()):
            if fn.lineno <= line <= getattr(fn, "end_lineno", fn.lineno):
                best = f"{ci.name}.{fn.name}"
    return best


# ---------------------------------------------------------------------------
# rules added after the syntactic mutation campaign (tools_mutate.py)


def _assigned_params(L, p) -> Set[str]:
    """Parameters the procedure assigns (directly, by READ, or by passing them on to a callee that assigns them)."""
    names = {x[0] for x in p.params}
    out: Set[str] = set()
    for s in L.all_stmts(p):
        if s.kind in ("assign", "read") and s.target in names:
            out.add(s.target)
    return out


@rule("L9", "RESULT-ARGUMENT: an argument bound to a parameter the callee assigns is a variable (BASIC09 passes expressions by value: an assigned result would be lost)", ["C14", "C20"], floor=30, default_props=["C14"])
def l9(ctx: Ctx):
    from .b09lib import LIB_REL, b09lib

    L = b09lib(ctx)
    assigned = {n: _assigned_params(L, p) for n, p in L.procs.items()}
    # propagate through calls: passing a parameter on in a result position makes it assigned
    changed = True
    while changed:
        changed = False
        for n, p in L.procs.items():
            names = [x[0] for x in p.params]
            for s in L.all_stmts(p):
                if s.kind == "run" and s.run_name in L.procs and len(s.run_args) == len(L.procs[s.run_name].params):
                    for a, (pn, _, _) in zip(s.run_args, L.procs[s.run_name].params):
                        if pn in assigned[s.run_name] and a.strip().lower() in names and a.strip().lower() not in assigned[n]:
                            assigned[n].add(a.strip().lower())
                            changed = True
    for n, p in sorted(L.procs.items()):
        for s in L.all_stmts(p):
            if s.kind != "run" or s.run_name not in L.procs:
                continue
            callee = L.procs[s.run_name]
            if len(s.run_args) != len(callee.params):
                continue
            bad = []
            for a, (pn, _, _) in zip(s.run_args, callee.params):
                if pn in assigned[s.run_name]:
                    is_var = re.fullmatch(r"[A-Za-z_][\w$]*((\.[A-Za-z_]\w*)|(\([^()]*\)))*", a.strip()) is not None and not re.match(r"(?i)(fix|float|int|len|asc|val|land|lor|lnot|peek|addr|mid\$|left\$|right\$|chr\$|str\$)\(", a.strip())
                    if not is_var:
                        bad.append(f"`{a.strip()}` is passed for `{pn}`, which {callee.name} assigns")
            # swapped-argument lint: a plain variable that carries the name of one of the callee's parameters
            # sits in that parameter's position (callers that use other names say nothing)
            pnames = [x[0] for x in callee.params]
            for i_, a in enumerate(s.run_args):
                an = a.strip().lower()
                if an in pnames and pnames[i_] != an and pnames[i_] not in [x.strip().lower() for x in s.run_args]:
                    bad.append(f"`{an}` is passed in the position of parameter `{pnames[i_]}` although {callee.name} has a parameter `{an}` (position {pnames.index(an) + 1})")
            k = f"{n}->{s.run_name}@{_ord_run(L, p, s)}"
            ctx.ob(k, not bad, "; ".join(bad) + (": the value computed by the callee is thrown away (or its parameter list no longer matches the callers)" if bad else ""), file=LIB_REL, line=s.line)
    # OS-9 `syscall` takes exactly (request code, register block)
    for n, p in sorted(L.procs.items()):
        for s in L.all_stmts(p):
            if s.kind == "run" and s.run_name.lower() == "syscall":
                ok = len(s.run_args) == 2
                ctx.ob(f"{n}->syscall@{_ord_run(L, p, s)}", ok, "" if ok else f"`{s.text.strip()}`: syscall takes the request code and the register block", file=LIB_REL, line=s.line)
    # tool -> library: result parameters of function procedures are in the last position (where the temporary goes)
    from .rules_l import functional_procedures

    for name in sorted(functional_procedures(ctx)):
        if name in L.procs and L.procs[name].params:
            names = [x[0] for x in L.procs[name].params]
            asg = assigned[name] & set(names)
            if name in ("ecb_joystk",):
                continue  # caches the four axis values in its middle parameters by design
            ok = asg <= {names[-1]}
            ctx.ob(
                f"tool->{name}:result-last",
                ok,
                "" if ok else f"procedure {name} assigns its parameter(s) {sorted(asg - {names[-1]})}, but the tool passes its operands (expressions) in every position but the last: operand and result positions are swapped",
                file=LIB_REL,
                line=L.procs[name].line,
                props=["C14", "C20"] if name in ("ecb_instr", "ecb_string", "ecb_read_filter") else ["C14"],
            )


def _ord_run(L, p, s) -> int:
    k = 0
    for x in L.all_stmts(p):
        if x.kind == "run" and x.run_name == s.run_name:
            k += 1
            if x is s:
                return k
    return k


@rule("A3", "LVALUE: the target of every assignment the parser builds is a variable or an array element", ["C02", "C07"], floor=5)
def a3(ctx: Ctx):
    from .rules_abs import rule_values

    I = interp(ctx)
    vals = rule_values(ctx)
    for r in ("num_assign", "str_assign", "arr_assign", "str_arr_assign", "partial_str_assign", "partial_str_arr_assign"):
        ctx.need(r in vals, r, "assignment rule not found")
        for a in alts_of(vals[r]):
            if isinstance(a, Obj) and a.cls == "BasicAssignment":
                tgt = a.fields.get("_var")
                cs = {c for c in I.classes_of(tgt)}
                ok = bool(cs) and cs <= {"BasicVar", "BasicArrayRef"}
                ctx.ob(r, ok, "" if ok else f"visit_{r} builds an assignment whose target can be {sorted(cs)}: target and value are exchanged", file=PARSER_REL, line=a.line)
                val = a.fields.get("_exp")
                vcs = I.classes_of(val)
                okv = "Node" not in vcs and "const:str:''" not in vcs
                ctx.ob(f"{r}:value", okv, "" if okv else f"visit_{r} stores {sorted(vcs)} as the assigned value", file=PARSER_REL, line=a.line)


@rule("E9b", "BUILDER-FORM: each expression builder puts operator and operands where its class prints them (sign before operand, operator between operands)", ["C01", "C07"], floor=6, default_props=["C01"])
def e9b(ctx: Ctx):
    from .rules_abs import _renderings, rule_values
    from .rules_expr import infix_level

    I = interp(ctx)
    py = pyfacts(ctx)
    p = peg(ctx)
    vals = rule_values(ctx)

    def forms(rule_name: str) -> Set[str]:
        out: Set[str] = set()
        for a in alts_of(vals[rule_name]):
            if not isinstance(a, Obj):
                continue
            rm = py.resolve_method(a.cls, "basic09_text")
            if rm is None:
                continue
            t = I.call_function(rm[1], [a, Const(0)], self_obj=a, owner=rm[0].name)
            for alt in alts_of(t):
                for parts in _renderings(alt, cap=16):
                    s_ = ""
                    for part in parts:
                        if isinstance(part, str):
                            s_ += part
                        elif isinstance(part, Operand):
                            s_ += "⟦e⟧"
                        elif isinstance(part, Tmpl) and all(isinstance(x, (str, Operand)) for x in part.parts):
                            s_ += "".join(x if isinstance(x, str) else "⟦e⟧" for x in part.parts)
                        elif alts_of(part) and all(getattr(x, "lits", None) for x in alts_of(part)):
                            s_ += "|".join(sorted({l for x in alts_of(part) for l in x.lits}))
                        else:
                            s_ += "⟦?⟧"
                    out.add(s_)
        return out

    ctx.need("unop_exp" in vals, "unop_exp", "rule not found")
    fs = forms("unop_exp")
    ok = bool(fs) and all(re.fullmatch(r"(\+|-|\+\|-|-\|\+) ?\(?⟦e⟧\)?", f) for f in fs)
    # (a hole the builder fills with something that is neither operator text nor the operand is an internal object in the text: C07)
    opaque = any("⟦?⟧" in f for f in fs)
    ctx.ob("unop_exp", ok, "" if ok else f"a signed operand is emitted as {sorted(fs)}: the sign does not precede its operand" + (" (what stands in its place is not text: an internal object is formatted into the program)" if opaque else ""), file=PARSER_REL, line=1, props=["C01", "C07"] if opaque else None)
    for rname in ("num_exp", "num_and_exp", "num_gtle_exp", "num_sum_exp", "num_prod_exp", "num_power_exp", "str_exp", "bool_or_exp", "bool_and_exp", "bool_bin_exp", "bool_str_exp"):
        if rname not in vals:
            continue
        fs = forms(rname)
        bad = []
        for f in fs:
            if "⟦?⟧" in f:
                continue
            if re.fullmatch(r"L(AND|OR)\(.*⟦e⟧.*, .*⟦e⟧.*\)", f):
                continue
            if re.fullmatch(r"[^⟦]*⟦e⟧.* (\S+) .*⟦e⟧[^⟧]*", f):
                continue
            bad.append(f)
        if fs:
            ctx.ob(rname, not bad, "" if not bad else f"`{rname}` builds an expression that is emitted as {bad[:2]}: operator and operands are not in `left op right` order", file=PARSER_REL, line=1)


_E17_POSITIVE = """
def fold(frags):
    cur = frags[-1]
    op = cur.op.text(0)
    i = len(frags) - 1
    while i >= 1:
        cur = Frag(frags[i - 1].op, Bin(frags[i - 1].e, op, cur.e))
        i -= 1
    return cur
"""


def _stale_projections(fn: ast.FunctionDef):
    """(T, V, loop, use) where T = <projection of V> is computed before a loop that re-binds V, is never re-computed
    inside it, and is handed to a constructor on every iteration."""
    out = []
    body = fn.body
    for i, st in enumerate(body):
        if not isinstance(st, (ast.While, ast.For)):
            continue
        assigned_in = {n.id for n in ast.walk(st) if isinstance(n, ast.Name) and isinstance(n.ctx, ast.Store)}
        for prev in body[:i]:
            if not (isinstance(prev, ast.Assign) and len(prev.targets) == 1 and isinstance(prev.targets[0], ast.Name)):
                continue
            T = prev.targets[0].id
            v = prev.value
            # a projection: attribute / method-call chain rooted at one name
            root = v
            depth = 0
            while isinstance(root, (ast.Attribute, ast.Call, ast.Subscript)):
                root = root.func if isinstance(root, ast.Call) else root.value
                depth += 1
            if not (isinstance(root, ast.Name) and depth >= 1 and any(isinstance(x, ast.Attribute) for x in ast.walk(v))):
                continue
            V = root.id
            if V not in assigned_in or T in assigned_in:
                continue
            for c in ast.walk(st):
                if isinstance(c, ast.Call) and isinstance(c.func, ast.Name) and c.func.id[:1].isupper() and any(isinstance(a, ast.Name) and a.id == T for a in c.args):
                    out.append((T, V, st, c))
                    break
    return out


@rule("E17", "FOLD-FRESH: a builder loop that re-binds its accumulator does not hand a value projected from the accumulator *before* the loop to every object it constructs", ["C01", "C03"], floor=1)
def e17(ctx: Ctx):
    py = pyfacts(ctx)
    ctl = ast.parse(_E17_POSITIVE).body[0]
    ctx.need(len(_stale_projections(ctl)) == 1, "positive-control", "the embedded example of a stale projection is no longer recognised")
    n = 0
    for rel, m in sorted(py.modules.items()):
        if not rel.startswith("coco/b09/"):
            continue
        for fn in [x for x in ast.walk(m.tree) if isinstance(x, ast.FunctionDef)]:
            loops = [s_ for s_ in fn.body if isinstance(s_, (ast.While, ast.For)) and any(isinstance(c, ast.Call) and isinstance(c.func, ast.Name) and c.func.id[:1].isupper() for c in ast.walk(s_))]
            if not loops:
                continue
            n += 1
            hits = _stale_projections(fn)
            ok = not hits
            msg = ""
            if hits:
                T, V, lp, use = hits[0]
                msg = f"`{T}` is computed from `{V}` before the loop at line {lp.lineno}, `{V}` is re-bound on every iteration, yet `{unparse(use.func)}(...)` receives the same `{T}` each time: in a chain such as A-B+C-D every operator but one is replaced by the operator of the last fragment"
            ctx.ob(f"{rel.split('/')[-1]}:{fn.name}", ok, msg, file=rel, line=fn.lineno, witness="" if ok else "10 Z=A-B+C-D")
    ctx.units["builder_loops"] = n


@rule("E18", "IMPLICIT-GOTO-CONTEXT: a jump that prints as a bare line number only ever stands directly after THEN of a one-line IF (anywhere else BASIC09 reads a bare number as a label)", ["C02", "C06", "C07"], floor=2)
def e18(ctx: Ctx):
    from .rules_abs import rule_values, walk

    py = pyfacts(ctx)
    vals = rule_values(ctx)
    # where does an implicit jump print a bare number, and which class prints it inline after THEN?
    g = py.resolve_method("BasicGoto", "basic09_text")
    ctx.need(g is not None, "BasicGoto.basic09_text", "not found")
    # an implicit jump prints as a bare number: as a conditional expression or as an early return under a test of the flag
    bare = ast_contains(g[1], "$$a if self._implicit else $$b") or any(
        isinstance(n, ast.If) and "_implicit" in unparse(n.test) and any(isinstance(r_, ast.Return) and isinstance(r_.value, ast.JoinedStr) and len(r_.value.values) == 1 and isinstance(r_.value.values[0], ast.FormattedValue) for r_ in n.body)
        for n in ast.walk(g[1])
    )
    if not bare:
        ctx.undecided("implicit-goto", "how BasicGoto prints an implicit jump is not recognised", file="coco/b09/elements.py", line=g[1].lineno)
        return
    inline = set()
    for cls in py.classes:
        r = py.resolve_method(cls, "basic09_text")
        # (the test may sit in basic09_text itself or in a helper method of the class that it calls)
        if r is not None and r[0].name == cls and any(ast_contains(m_, "isinstance(self._statements, BasicGoto) and self._statements.implicit") for m_ in [r[1]] + [mm for nn, mm in py.classes[cls].methods.items() if any(isinstance(c_, ast.Attribute) and c_.attr == nn for c_ in ast.walk(r[1]))]):
            inline.add(cls)
    ctx.need(inline, "BasicIf.basic09_text", "no class prints an implicit jump inline after THEN")
    seen: Set[str] = set()
    n = 0

    def gotos_of(fv, depth=0):
        """BasicGoto objects a field can hold, looking through opaque operands (one rule value deep, repeatedly)."""
        for a in alts_of(fv):
            if isinstance(a, Obj) and a.cls == "BasicGoto":
                yield a
            elif isinstance(a, Operand) and depth < 4 and a.rule in vals:
                yield from gotos_of(vals[a.rule], depth + 1)

    for r, v in sorted(vals.items()):
        for holder_obj, _w in walk(v):
            if not isinstance(holder_obj, Obj) or holder_obj.cls == "BasicGoto":
                continue
            for f, fv in holder_obj.fields.items():
                for x in gotos_of(fv):
                    imp = x.fields.get("_implicit")
                    gos = x.fields.get("_is_gosub")
                    implicit = any(isinstance(a, Const) and a.value is True for a in alts_of(imp)) and not any(isinstance(a, Const) and a.value is True for a in alts_of(gos))
                    n += implicit
                    holder = holder_obj.cls
                    where = f"{holder}.{f}"
                    key = f"{r}:{where}"
                    if key in seen:
                        continue
                    seen.add(key)
                    ok = not implicit or (f == "_statements" and holder in inline and not any(holder != c and py.is_subclass(holder, c) for c in inline))
                    ctx.ob(
                        key,
                        ok,
                        "" if ok else f"`visit_{r}` puts a jump built with implicit=True into `{where}`; only {sorted(inline)} print it after THEN on the same line - here it is printed on a line of its own as a bare number, which BASIC09 takes for a line label: the jump is not taken",
                        file=PARSER_REL,
                        line=getattr(holder_obj, "line", 1) or 1,
                        witness="" if ok else "10 IF A=1 THEN 100 ELSE IF A=2 THEN 200 ELSE 300",
                    )
    ctx.need(n >= 1, "implicit-goto", "the grammar builds no implicit jump at all (anchor lost)")


@rule("A4", "POP-GUARDED: every pop() from a stack a pass keeps is guarded by an emptiness test of that stack that is evaluated for that very pop (no loop between guard and pop)", ["C15", "C02"], floor=1)
def a4(ctx: Ctx):
    py = pyfacts(ctx)
    for rel, m in sorted(py.modules.items()):
        if not rel.startswith("coco/b09/"):
            continue
        parents = {id(c): p for p in ast.walk(m.tree) for c in ast.iter_child_nodes(p)}
        for fn in [x for x in ast.walk(m.tree) if isinstance(x, ast.FunctionDef)]:
            k = 0
            for c in ast.walk(fn):
                if not (isinstance(c, ast.Call) and isinstance(c.func, ast.Attribute) and c.func.attr == "pop" and len(c.args) <= 1 and not c.keywords):
                    continue
                if c.args and not (isinstance(c.args[0], ast.Constant) and isinstance(c.args[0].value, int)):
                    continue  # dict.pop(key)
                stack = unparse(c.func.value)
                k += 1
                guarded = False
                crossed_loop = None
                x = c
                while x is not fn:
                    p = parents.get(id(x))
                    if p is None:
                        break
                    if isinstance(p, (ast.For, ast.While)) and x in p.body:
                        if isinstance(p, ast.While) and stack in unparse(p.test):
                            guarded = True  # `while stack: stack.pop()`
                            break
                        crossed_loop = crossed_loop or p
                    if isinstance(p, ast.If) and x in p.body:
                        t = unparse(p.test).replace(" ", "")
                        if t in (stack, f"len({stack})>0", f"len({stack})!=0", f"len({stack})>=1", f"{stack}!=[]") or re.fullmatch(rf"(.+and)?{re.escape(stack)}(and.+)?", t):
                            guarded = crossed_loop is None
                            if guarded:
                                break
                    # counted: `[stack.pop() for _ in range(n)]` / `for _ in range(n): stack.pop()` with n capped by the
                    # stack's own length - `min(..., len(stack))`, directly or through a local bound once
                    rng = None
                    if isinstance(p, (ast.ListComp, ast.GeneratorExp)) and p.generators and x is p.elt:
                        rng = p.generators[0].iter
                    elif isinstance(p, ast.For) and x in p.body and crossed_loop is p:
                        rng = p.iter
                    if rng is not None and isinstance(rng, ast.Call) and call_name(rng) == "range" and len(rng.args) == 1:
                        from .pyast import resolve_alias as _ra4

                        n_ = _ra4(fn, rng.args[0])
                        if isinstance(n_, ast.Call) and call_name(n_) == "min" and any(unparse(a_).replace(" ", "") == f"len({stack})" for a_ in n_.args):
                            # nothing else pops / clears the stack inside the counted loop
                            others = [c2 for c2 in ast.walk(p) if isinstance(c2, ast.Call) and isinstance(c2.func, ast.Attribute) and c2.func.attr in ("pop", "clear", "remove") and unparse(c2.func.value) == stack and c2 is not c]
                            if not others:
                                guarded = True
                                break
                    if isinstance(p, ast.Try):
                        guarded = any(h.type is None or "IndexError" in unparse(h.type) or unparse(h.type) == "Exception" for h in p.handlers) and x in p.body
                        if guarded:
                            break
                    x = p
                cls = next((ci.name for ci in m.classes.values() if fn in ci.methods.values()), "")
                ctx.ob(
                    f"{cls}.{fn.name}:pop#{k}",
                    guarded,
                    "" if guarded else f"`{unparse(c)}` is not protected by a test of `{stack}` evaluated for this pop" + (f" (the test is outside the loop at line {crossed_loop.lineno}, so only the first pop is covered)" if crossed_loop is not None else "") + ": a NEXT that names more variables than there are open FOR loops ends in IndexError instead of a conversion or a refusal",
                    file=rel,
                    line=c.lineno,
                    witness="" if guarded else "10 FOR I=1 TO 3:NEXT I,J",
                )


# ---------------------------------------------------------------------------
# G15 NODE-MISUSE


@rule("G15", "NODE-MISUSE: no visitor reads a construct attribute (`.operator`, `.literal` ...) from a raw parse node - every token a visitor treats as a construct has been turned into one (generic_visit's token set covers the grammar's operator spellings)", ["C15", "C01"], floor=1, default_props=["C15"])
def g15(ctx: Ctx):
    from .rules_abs import rule_values

    I = interp(ctx)
    vals = rule_values(ctx)
    errs = list(getattr(I, "node_attr_errors", []))
    ctx.ob("visitors", not errs, "" if not errs else "; ".join(f"attribute `.{a}` is read from the parse node of `{d}`" + (f" (text {sorted(l)[:4]})" if l else "") for d, a, l in errs[:4]) + ": the node was not converted into a construct, conversion fails with an AttributeError inside parsimonious' VisitationError", file=PARSER_REL, line=1, facts={"rules_evaluated": len(vals)}, witness="" if not errs else "10 IF A=<B THEN 20")
    ctx.need(len(vals) >= 50, "rule values", f"only {len(vals)} grammar rules evaluated")


# ---------------------------------------------------------------------------
# P14 CONFIG-VALIDATION


@rule("P14", "CONFIG-VALIDATION: the configuration's own checks run on type-checked values (pydantic `after` validators): an ill-typed configuration ends in the documented validation error, not in a TypeError / AttributeError raised by the check itself", ["C15"], floor=1)
def p14(ctx: Ctx):
    py = pyfacts(ctx)
    m = py.modules.get("coco/b09/configs.py")
    ctx.need(m is not None, "configs.py", "module not found")
    n = 0
    for cn, ci in sorted(m.classes.items()):
        for mn, fn in sorted(ci.methods.items()) + sorted(getattr(ci, "classmethods", {}).items()):
            for d in fn.decorator_list:
                if isinstance(d, ast.Call) and call_name(d) in ("field_validator", "model_validator", "validator"):
                    n += 1
                    mode = next((k.value for k in d.keywords if k.arg in ("mode", "pre")), None)
                    early = (isinstance(mode, ast.Constant) and mode.value in ("before", "wrap", "plain", True))
                    # a `before` validator is acceptable when it does not touch the value with type-specific operations
                    uses_value = any(isinstance(x, (ast.Compare, ast.Subscript)) or (isinstance(x, ast.Call) and isinstance(x.func, ast.Attribute)) for x in ast.walk(fn))
                    ok = not (early and uses_value)
                    ctx.ob(f"{cn}.{mn}", ok, "" if ok else f"`{cn}.{mn}` is a `{unparse(mode)}` validator: it receives the raw, not yet type-checked value and applies comparisons / string methods to it, so `A$: big` or a numeric key fails inside the validator with TypeError / AttributeError instead of the configuration validation error", file="coco/b09/configs.py", line=fn.lineno, witness="" if ok else "strname_to_size: {A$: big}")
    ctx.need(n >= 1, "configs.py", "no validator found")
