"""M7: line parser for the BASIC09 runtime library coco/resources/ecb.b09 (never interpreted)."""

from __future__ import annotations

import re
from dataclasses import dataclass, field
from typing import Dict, List, Optional, Tuple

from .core import AnalysisError, Ctx

LIB_REL = "coco/resources/ecb.b09"

STR_FUNCS = {"mid$", "left$", "right$", "chr$", "str$", "date$", "trim$"}
NUM_FUNCS = {
    "fix", "float", "int", "len", "asc", "val", "land", "lor", "lnot", "lxor", "abs", "sgn", "sqr", "sqrt", "sin", "cos",
    "tan", "atn", "log", "exp", "peek", "addr", "size", "pos", "err", "mod", "rnd", "pi", "sq", "log10", "acs", "asn", "eof",
}
NUM_TYPES = {"real", "integer", "byte"}


@dataclass
class Stmt:
    text: str
    line: int
    kind: str = "other"  # if, else, endif, for, next, while, endwhile, loop, endloop, exitif, endexit, error, run, assign, other
    run_name: str = ""
    run_args: List[str] = field(default_factory=list)
    target: str = ""  # assignment target (lower-case base identifier)
    inline: Optional["Stmt"] = None  # statement after THEN on the same physical statement
    label: str = ""  # numeric line label in front of the statement


@dataclass
class Proc:
    name: str
    line: int
    lines: List[Tuple[int, str]] = field(default_factory=list)
    params: List[Tuple[str, str, str]] = field(default_factory=list)  # (name lower, coarse type, raw type)
    vars: Dict[str, str] = field(default_factory=dict)  # name lower -> coarse type
    types: Dict[str, str] = field(default_factory=dict)  # type name lower -> normalised declaration
    stmts: List[Stmt] = field(default_factory=list)
    placeholders: int = 0

    def coarse(self, name: str) -> Optional[str]:
        return self.vars.get(name.lower())


def split_outside_quotes(s: str, sep: str) -> List[str]:
    out, cur, q, depth = [], [], False, 0
    for ch in s:
        if ch == '"':
            q = not q
        if not q:
            if ch == "(":
                depth += 1
            elif ch == ")":
                depth -= 1
            if ch == sep and (depth == 0 or sep == "\\"):
                out.append("".join(cur))
                cur = []
                continue
        cur.append(ch)
    out.append("".join(cur))
    return out


def coarse_of_rawtype(raw: str) -> str:
    r = raw.strip().lower()
    if r.startswith("string"):
        return "str"
    if r in NUM_TYPES:
        return "num"
    if r == "boolean":
        return "bool"
    return "rec:" + r


def norm_type_decl(text: str) -> str:
    """`type display_t = a, b(16): byte; c: integer` -> canonical lower-case, blank-free form."""
    t = text.strip()
    t = re.sub(r"(?i)^type\s+", "", t)
    return re.sub(r"\s+", "", t).lower()


_DECL = re.compile(r"(?i)^\s*(param|dim)\s+(.*)$")
_TYPE = re.compile(r"(?i)^\s*type\s+(\w+)\s*=\s*(.*)$")
_PROC = re.compile(r"(?i)^\s*procedure\s+(\w+)\s*$")
_RUN = re.compile(r"(?i)^\s*run\s+(\w+)\s*(\((.*)\))?\s*$")
_ASSIGN = re.compile(r"(?i)^\s*(?:let\s+)?([a-z_][\w$]*)((?:\.[a-z_]\w*)|(?:\([^=]*\)))*\s*:?=\s*(.*)$")
_LABEL = re.compile(r"^\s*(\d+)\s+(.*)$")


class B09Lib:
    def __init__(self, ctx: Ctx):
        self.ctx = ctx
        self.path = ctx.path(LIB_REL)
        self.text = self.path.read_text()
        self.procs: Dict[str, Proc] = {}
        self.order: List[str] = []
        self.duplicates: List[Tuple[str, int, int]] = []
        self.malformed: List[Tuple[int, str, str]] = []
        cur: Optional[Proc] = None
        for i, raw in enumerate(re.split(r"\r\n|\r|\n", self.text), start=1):
            m = _PROC.match(raw)
            if m:
                cur = Proc(m.group(1), i)
                if cur.name in self.procs:
                    # the bank keeps the text it read last under a name: so does this model; the rule L4 reports it
                    self.duplicates.append((cur.name, self.procs[cur.name].line, i))
                    self.order.remove(cur.name)
                self.procs[cur.name] = cur
                self.order.append(cur.name)
                continue
            if cur is None:
                if raw.strip():
                    raise AnalysisError("M7", f"line {i}", "text before the first procedure header")
                continue
            cur.lines.append((i, raw))
        for p in self.procs.values():
            self._parse_proc(p)
        ctx.units["library_procedures"] = len(self.procs)
        ctx.units["library_run_statements"] = sum(1 for p in self.procs.values() for s in self.all_stmts(p) if s.kind == "run")

    def _parse_proc(self, p: Proc):
        for ln, raw in p.lines:
            p.placeholders += len(re.findall(r"(?i)string<<>>", raw))
            line = raw
            if line.strip().startswith("(*") or line.strip().lower().startswith("rem"):
                continue
            mt = _TYPE.match(line)
            if mt:
                p.types[mt.group(1).lower()] = norm_type_decl(line)
                continue
            md = _DECL.match(line)
            if md:
                kind = md.group(1).lower()
                body = md.group(2)
                for group in body.split(";"):
                    if ":" not in group:
                        raise AnalysisError("M7", f"{p.name}:{ln}", f"declaration without type: {line.strip()}")
                    names, typ = group.rsplit(":", 1) if not re.search(r"(?i)string\s*(<<>>|\[\d+\])", group) else group.split(":", 1)
                    ct = coarse_of_rawtype(typ)
                    for nm in split_outside_quotes(names, ","):
                        nm = nm.strip()
                        base = re.sub(r"\(.*\)$", "", nm).strip().lower()
                        if not base:
                            continue
                        p.vars[base] = ct
                        if kind == "param":
                            p.params.append((base, ct, typ.strip()))
                continue
            for part in split_outside_quotes(line, "\\"):
                part = part.strip()
                if not part:
                    continue
                ml = _LABEL.match(part)
                lab = ""
                if ml:
                    lab = ml.group(1)
                    part = ml.group(2)
                st_ = self._stmt(part, ln)
                st_.label = lab
                p.stmts.append(st_)

    def _stmt(self, text: str, ln: int) -> Stmt:
        low = text.lower()
        st = Stmt(text, ln)
        w = re.match(r"\s*([a-z_]+)", low)
        first = w.group(1) if w else ""
        if first == "if":
            st.kind = "if"
            m = re.match(r"(?i)^\s*if\s+(.*?)\s+then\s*(.*)$", text)
            if not m:
                raise AnalysisError("M7", f"line {ln}", f"IF without THEN: {text}")
            rest = m.group(2).strip()
            if rest:
                st.inline = self._stmt(rest, ln)
        elif first in ("else", "endif", "next", "endwhile", "loop", "endloop", "endexit", "for", "while", "repeat", "until"):
            st.kind = first
        elif first == "exitif":
            st.kind = "exitif"
            m = re.match(r"(?i)^\s*exitif\s+(.*?)\s+then\s*(.*)$", text)
            if m and m.group(2).strip():
                st.inline = self._stmt(m.group(2).strip(), ln)
        elif first == "error":
            st.kind = "error"
        elif first == "run":
            m = _RUN.match(text)
            if not m:
                # a RUN that does not read as `RUN name(args)` on one line: the library text itself is malformed (rule L11)
                self.malformed.append((ln, text.strip(), "not a complete RUN statement (BASIC09 has no line continuation)"))
                st.kind = "other"
                return st
            st.kind = "run"
            st.run_name = m.group(1)
            st.run_args = [a.strip() for a in split_outside_quotes(m.group(3), ",")] if m.group(3) is not None and m.group(3).strip() else []
        elif first in ("end", "return", "stop"):
            st.kind = "end"
        else:
            m = _ASSIGN.match(text)
            if m and first not in ("print", "put", "get", "poke", "open", "close", "shell", "read", "data", "on", "base", "seek", "input", "write", "goto", "gosub", "rem"):
                st.kind = "assign"
                st.target = m.group(1).lower()
            elif first == "read":
                st.kind = "read"
                st.target = low.split(None, 1)[1].split(",")[0].strip() if len(low.split(None, 1)) > 1 else ""
        return st

    # ------------------------------------------------------------------
    def all_stmts(self, p: Proc) -> List[Stmt]:
        out = []
        for s in p.stmts:
            out.append(s)
            x = s.inline
            while x is not None:
                out.append(x)
                x = x.inline
        return out

    def proc(self, name: str) -> Proc:
        if name not in self.procs:
            raise AnalysisError("M7", name, "procedure not found in ecb.b09")
        return self.procs[name]

    def arg_type(self, p: Proc, arg: str) -> str:
        """Coarse type of an argument expression inside procedure p: str | num | bool | rec:<t> | unknown."""
        a = arg.strip()
        if not a:
            return "unknown"
        # strip balanced outer parentheses
        while a.startswith("(") and a.endswith(")") and _balanced(a[1:-1]):
            a = a[1:-1].strip()
        if a.startswith('"'):
            parts = split_outside_quotes(a, "+")
            return "str"
        if re.fullmatch(r"[-+]?(\d+\.?\d*|\.\d+)([eE][-+]?\d+)?", a) or re.fullmatch(r"\$[0-9a-fA-F]+", a):
            return "num"
        low = a.lower()
        if low in ("true", "false"):
            return "bool"
        m = re.match(r"([a-z_][\w]*\$?)\s*\(", low)
        if m and _balanced_call(low):
            fn = m.group(1)
            if fn in STR_FUNCS:
                return "str"
            if fn in NUM_FUNCS:
                return "num"
            t = p.coarse(fn)
            if t:
                return t if not t.startswith("rec:") else "num"  # array element / record array field
        m = re.fullmatch(r"([a-z_]\w*)((\.[a-z_]\w*)+)(\(.*\))?", low)
        if m:
            base = p.coarse(m.group(1))
            if base and base.startswith("rec:"):
                return "num"  # every record field in this library is byte/integer
            return "unknown"
        if re.fullmatch(r"[a-z_]\w*\$?", low):
            t = p.coarse(low)
            if t:
                return t
            if low == "pi":
                return "num"
            return "unknown"
        # compound expression: decide from its top-level operands
        for op in ("+", "-", "*", "/"):
            parts = _split_top(a, op)
            if len(parts) > 1:
                ts = {self.arg_type(p, x) for x in parts if x.strip()}
                if ts == {"str"}:
                    return "str"
                if ts <= {"num"}:
                    return "num"
                return "unknown"
        return "unknown"


def _balanced(s: str) -> bool:
    d = 0
    q = False
    for ch in s:
        if ch == '"':
            q = not q
        if q:
            continue
        if ch == "(":
            d += 1
        elif ch == ")":
            d -= 1
            if d < 0:
                return False
    return d == 0 and not q


def _balanced_call(s: str) -> bool:
    i = s.find("(")
    return s.endswith(")") and _balanced(s[i + 1 : -1])


def _split_top(s: str, op: str) -> List[str]:
    out, cur, d, q = [], [], 0, False
    for i, ch in enumerate(s):
        if ch == '"':
            q = not q
        if not q:
            if ch == "(":
                d += 1
            elif ch == ")":
                d -= 1
            elif ch == op and d == 0 and i > 0:
                out.append("".join(cur))
                cur = []
                continue
        cur.append(ch)
    out.append("".join(cur))
    return out


def b09lib(ctx: Ctx) -> B09Lib:
    return ctx.engine("b09lib", B09Lib)
