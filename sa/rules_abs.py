"""Rules decided on the abstract constructs built per grammar rule (engine M4): A1, L1, R1, E10, E11, E12."""

from __future__ import annotations

import ast
import re
from typing import Any, Dict, Iterable, List, Optional, Set, Tuple

from .absint import (
    BoolV,
    Const,
    Interp,
    NodeV,
    NumV,
    Obj,
    Operand,
    Seq,
    StrV,
    Tmpl,
    Union,
    Unknown,
    V,
    alts_of,
    interp,
)
from .b09lib import LIB_REL, b09lib
from .core import AnalysisError, Ctx, rule
from .emit import emitmodel
from .pyast import call_name, ctor_field, pyfacts, unparse
from .rules_l import SYSTEM_MODULES
from .visitormodel import PARSER_REL

ELEMENTS_REL = "coco/b09/elements.py"
VISITORS_REL = "coco/b09/visitors.py"


def rule_values(ctx: Ctx) -> Dict[str, V]:
    def build(c):
        I = interp(c)
        out: Dict[str, V] = {}
        for r in sorted(I.peg.rules):
            e = I.peg.rules[r]
            if (e.name or r) != r:
                continue
            out[r] = I.eval_rule(r, (), top=True)
        c.units["rules_evaluated"] = len(out)
        c._cache["builder_unknowns"] = sorted(set(I.unknowns))
        return out

    return ctx.engine("rule_values", build)


def walk(v: V, seen: Optional[Set[int]] = None, where: str = "") -> Iterable[Tuple[V, str]]:
    seen = seen if seen is not None else set()
    if id(v) in seen:
        return
    seen.add(id(v))
    yield v, where
    if isinstance(v, Obj):
        for k, x in v.fields.items():
            yield from walk(x, seen, f"{v.cls}.{k}")
    elif isinstance(v, Seq):
        for x in v.items:
            yield from walk(x, seen, where)
        if v.tail is not None:
            yield from walk(v.tail, seen, where)
    elif isinstance(v, Union):
        for x in v.alts:
            yield from walk(x, seen, where)
    elif isinstance(v, Tmpl):
        for p in v.parts:
            if isinstance(p, V):
                yield from walk(p, seen, where)


def _shallow(v: V) -> Iterable[V]:
    """Values directly held by a field: through lists and unions, not into nested objects."""
    stack = [v]
    seen = set()
    while stack:
        x = stack.pop()
        if id(x) in seen:
            continue
        seen.add(id(x))
        yield x
        if isinstance(x, Seq):
            stack.extend(x.items)
            if x.tail is not None:
                stack.append(x.tail)
        elif isinstance(x, Union):
            stack.extend(x.alts)


def site_name(ctx: Ctx, o: Obj) -> str:
    """Name of the function that constructs abstract object o (from its file and line)."""
    py = pyfacts(ctx)
    m = py.modules.get(o.file)
    if m is None:
        return f"{o.file}:{o.line}"
    best = None
    for ci in m.classes.values():
        for fn in list(ci.methods.values()) + list(ci.properties.values()) + list(ci.classmethods.values()):
            if fn.lineno <= o.line <= getattr(fn, "end_lineno", fn.lineno):
                best = f"{ci.name}.{fn.name}" if ci.name != "BasicVisitor" else fn.name
    return best or f"{o.file}:{o.line}"


# ---------------------------------------------------------------------------
# A1 BUILD-TOTAL


@rule("A1", "BUILD-TOTAL: no raw parse node reaches a printed/visited field; table lookups and unpacking in the builders cannot fail", ["C07", "C15"], floor=150)
def a1(ctx: Ctx):
    I = interp(ctx)
    em = emitmodel(ctx)
    vals = rule_values(ctx)
    reported: Set[str] = set()
    for r, v in vals.items():
        problems: List[Tuple[str, str, int, str]] = []
        for x, where in walk(v):
            if isinstance(x, Obj):
                printed = set(em.printed_fields(x.cls)) | set(em.visited_fields(x.cls)) if x.cls in em.py.classes and em.py.is_subclass(x.cls, "AbstractBasicConstruct") else set()
                for f in printed:
                    fv = x.fields.get(f)
                    if fv is None:
                        continue
                    # ... and no element of a list field is None: the class calls .visit / .basic09_text on each element
                    for y in _shallow(fv):
                        if isinstance(y, Seq):
                            elems = list(y.items) + ([y.tail] if y.tail is not None else [])

                            def _alts2(e_, depth=0):
                                # an element that is the value of a child rule: what that rule's visitor can return
                                for z in alts_of(e_):
                                    if isinstance(z, Operand) and getattr(z, "rule", None) in vals and depth < 3:
                                        not_none = z.only is not None and "const:NoneType" not in z.only
                                        for w in _alts2(vals[z.rule], depth + 1):
                                            if not (not_none and isinstance(w, Const) and w.value is None):
                                                yield w
                                    else:
                                        yield z

                            if any(isinstance(z, Const) and z.value is None for e_ in elems for z in _alts2(e_)):
                                problems.append((f"none-in-list:{x.cls}.{f}", f"the list stored in `{x.cls}.{f}` can contain None (an element the builder did not filter out): the class calls a method on every element - AttributeError: 'NoneType' object has no attribute 'visit'", x.line, site_name(ctx, x)))
                                break
                    for y in _shallow(fv):
                        if isinstance(y, NodeV):
                            problems.append((f"node-leak:{x.cls}.{f}", f"a raw parse node ({y.desc}) is stored in `{x.cls}.{f}`, which is printed / visited as a construct: AttributeError on `.basic09_text` / `.visit`", x.line, site_name(ctx, x)))
                            break
            if isinstance(x, Unknown) and hasattr(x, "keyerror"):
                problems.append((f"keyerror:{x.keyerror[0]}", f"table `{x.keyerror[0]}` has no entry for `{x.keyerror[1]}` which the grammar admits here: KeyError", 0, r))
        uniq = {}
        for k, msg, line, site in problems:
            uniq.setdefault(k, (msg, line, site))
        if not uniq:
            ctx.ob(r, True, file=PARSER_REL, line=I.peg.line(r))
        for k, (msg, line, site) in uniq.items():
            key = f"{site}:{k}"
            if key in reported:
                continue
            reported.add(key)
            ctx.ob(key, False, msg + f" (reached from grammar rule `{r}`)", file=PARSER_REL, line=line or I.peg.line(r))
    bu = ctx._cache.get("builder_unknowns") or []
    if bu:
        raise AnalysisError("A1", "absint", f"unmodelled syntax in the construct builders: {bu[:5]}")


# ---------------------------------------------------------------------------
# typing of abstract argument values

_STR_RULES: Optional[Set[str]] = None


def _families(I: Interp) -> Tuple[Set[str], Set[str]]:
    """Rules that can only occur inside a string expression / a numeric expression (by grammar reachability)."""
    p = I.peg

    def reach(start: str, stop: Set[str]) -> Set[str]:
        seen: Set[str] = set()
        stack = [start]
        while stack:
            r = stack.pop()
            if r in seen or r in stop:
                continue
            seen.add(r)
            e = p.rules[r]
            st2 = list(getattr(e, "members", ()) or ())
            vis = set()
            while st2:
                m = st2.pop()
                if id(m) in vis:
                    continue
                vis.add(id(m))
                if m.name:
                    stack.append(m.name)
                else:
                    st2.extend(getattr(m, "members", ()) or ())
        return seen

    # string level: str_exp down to the first numeric argument; numeric level: exp down to the first string argument
    s = {"str_exp", "str_exp_elements", "str_exp_element", "str_simple_exp", "str_literal", "str_var", "str_array_ref_exp", "str2_func_exp", "str3_func_exp", "string_expr", "num_str_func_exp", "num_str_func_exp_statements", "str_func_exp_statements"}
    n = reach("exp", s | {"func_str_exp", "instr_expr", "varptr_expr"}) | {"func_str_exp", "instr_expr", "varptr_expr", "num_exp"}
    return {x for x in s if x in p.rules}, {x for x in n if x in p.rules} - s


def arg_types(ctx: Ctx, I: Interp, v: V) -> Set[str]:
    """Coarse types an abstract argument value can have: str / num / rec:<t> / any / unknown."""
    str_rules, num_rules = ctx.engine("families", lambda c: _families(I))
    out: Set[str] = set()
    for a in alts_of(v):
        if isinstance(a, Obj):
            if a.cls == "BasicVar":
                nm = a.fields.get("_name")
                if isinstance(nm, Const) and isinstance(nm.value, str):
                    n = nm.value
                    out.add({"display": "rec:display_t", "play": "rec:play_t"}.get(n, "str" if n.endswith("$") else "num"))
                else:
                    s = a.fields.get("_is_str_expr")
                    out.add("str" if isinstance(s, Const) and s.value else "num" if isinstance(s, Const) else "unknown")
            elif a.cls == "BasicLiteral":
                lit = a.fields.get("_literal")
                for l in alts_of(lit):
                    if isinstance(l, Const):
                        out.add("str" if isinstance(l.value, str) else "num")
                    elif isinstance(l, StrV):
                        out.add("str")
                    elif isinstance(l, NumV):
                        out.add("num")
                    else:
                        out.add("unknown")
            elif a.cls == "HexLiteral":
                out.add("num")
            else:
                s = I.getattr(a, "is_str_expr", a.cls)
                for y in alts_of(s):
                    if isinstance(y, Const) and isinstance(y.value, bool):
                        out.add("str" if y.value else "num")
                    elif isinstance(y, BoolV) and hasattr(y, "of") and isinstance(y.of[0], Operand):
                        out |= arg_types(ctx, I, y.of[0])
                    else:
                        out.add("unknown")
        elif isinstance(a, Operand):
            if a.rule in str_rules:
                out.add("str")
            elif a.rule in num_rules:
                out.add("num")
            else:
                vals = I.rule_is_str(a.rule)
                if vals == {True}:
                    out.add("str")
                elif vals == {False}:
                    out.add("num")
                else:
                    out.add("any")
        elif isinstance(a, Const) and a.value is None:
            out.add("none")
        elif isinstance(a, NodeV):
            out.add("node")
        else:
            out.add("unknown")
    return out


def lib_type_ok(actual: str, declared: str) -> bool:
    if actual in ("any", "unknown", "node", "none"):
        return True  # raw nodes / None in argument lists are reported by rule A1

    return actual == declared


def _names(v: V) -> List[str]:
    out = []
    for a in alts_of(v):
        if isinstance(a, Const) and isinstance(a.value, str):
            out.append(a.value)
        elif isinstance(a, StrV) and a.lits is not None:
            out.extend(sorted(a.lits))
        else:
            out.append("?")
    return out


INKEY_PARAMS = [("key", "str", "string")]


def _callee_params(L, name: str):
    if name in L.procs:
        return L.procs[name].params
    if name.lower() == "inkey":
        return INKEY_PARAMS
    return None


def _where(c: Ctx, I, r: str, x: Obj) -> str:
    """Name of the construction site of a statement object: the parse callback of the grammar rule it was built for
    (stable when the construction itself moves into a helper), else the enclosing function."""
    if x.file == PARSER_REL and ("visit_" + r) in I.vm.methods:
        return "visit_" + r
    return site_name(c, x)


_CUR_CTX: List[Any] = [None]  # the context of the rule that is running (slot matchers below have no ctx parameter)


def _fx(c, o, idx: int, default: str):
    """Field of the abstract object o that keeps its idx-th constructor argument."""
    _CUR_CTX[0] = c
    py = pyfacts(c)
    # the role is defined by the base class of the hierarchy (subclasses have constructors of their own)
    base = next((b for b in ("BasicRunCall", "BasicFunctionalExpression", "BasicFunctionCall", "BasicExpressionList") if b in py.classes and py.is_subclass(o.cls, b)), o.cls)
    return o.fields.get(ctor_field(py, base, idx, default))


def _el(c, argl):
    return _fx(c, argl, 0, "_exp_list") if isinstance(argl, Obj) else None


def run_sites(ctx: Ctx):
    """Every RUN the tool can emit: (where, callee, args:list[V] or None, result_is_str or None, line, file, kind)."""

    def build(c):
        I = interp(c)
        vals = rule_values(c)
        sites: Dict[Tuple[str, str, int], dict] = {}
        py = pyfacts(c)
        for r, v in vals.items():
            for x, _ in walk(v):
                if not isinstance(x, Obj):
                    continue
                if py.is_subclass(x.cls, "BasicRunCall"):
                    inv = _fx(c, x, 0, "_run_invocation")
                    argl = _fx(c, x, 1, "_arguments")
                    el = _el(c, argl)
                    for nm in _names(inv) if inv is not None else ["?"]:
                        k = (x.file, nm, x.line)
                        sites.setdefault(k, {"where": _where(c, I, r, x), "inv": nm, "args": el, "result": None, "line": x.line, "file": x.file, "kind": "call", "rule": r, "cls": x.cls})
                elif py.is_subclass(x.cls, "BasicFunctionalExpression"):
                    inv = _fx(c, x, 0, "_func")
                    argl = _fx(c, x, 1, "_args")
                    el = _el(c, argl)
                    res = x.fields.get("_is_str_expr")
                    for nm in _names(inv) if inv is not None else ["?"]:
                        k = (x.file, nm, x.line)
                        sites.setdefault(k, {"where": _where(c, I, r, x), "inv": nm, "args": el, "result": res, "line": x.line, "file": x.file, "kind": "function", "rule": r, "cls": x.cls})
        # construction sites outside the parser (passes, prologue)
        from .normalise import normalise_module

        for rel in (VISITORS_REL, "coco/b09/compiler.py", "coco/b09/error_handler.py"):
            m = py.mod(rel)
            # small module-level helpers (`_run_line(name, args)`) are inlined first, so that the name is a constant again
            tree_n = normalise_module(m.tree) if rel != VISITORS_REL else m.tree
            helper_params = {id(c) for f_ in tree_n.body if isinstance(f_, ast.FunctionDef) for c in ast.walk(f_) if isinstance(c, ast.Call) and isinstance(c.func, ast.Name) and c.func.id in ("BasicRunCall", "BasicFunctionalExpression") and c.args and isinstance(c.args[0], ast.Name) and c.args[0].id in [a.arg for a in f_.args.args]}
            for n in ast.walk(tree_n):
                if id(n) in helper_params:
                    continue  # the helper itself: judged at its (inlined) call sites
                if isinstance(n, ast.Call) and isinstance(n.func, ast.Name) and n.func.id in ("BasicRunCall", "BasicFunctionalExpression") and n.args:
                    owner = "BasicConstructVisitor"
                    o = I.ev(n, {}, owner)
                    if not isinstance(o, Obj):
                        continue
                    o.file = rel
                    if o.cls == "BasicRunCall":
                        inv, argl, res = _fx(c, o, 0, "_run_invocation"), _fx(c, o, 1, "_arguments"), None
                    else:
                        inv, argl, res = _fx(c, o, 0, "_func"), _fx(c, o, 1, "_args"), o.fields.get("_is_str_expr")
                    el = _el(c, argl)
                    fn = _enclosing(m, n.lineno)
                    for nm in _names(inv) if inv is not None else ["?"]:
                        sites[(rel, nm, n.lineno)] = {"where": fn, "inv": nm, "args": el, "result": res, "line": n.lineno, "file": rel, "kind": "function" if o.cls != "BasicRunCall" else "call", "rule": "", "cls": o.cls}
        return list(sites.values())

    return ctx.engine("run_sites", build)


def _enclosing(m, line: int) -> str:
    best = f"{m.rel}:{line}"
    for ci in m.classes.values():
        for fn in list(ci.methods.values()) + list(ci.properties.values()):
            if fn.lineno <= line <= getattr(fn, "end_lineno", fn.lineno):
                best = f"{ci.name}.{fn.name}"
    for fn in m.functions.values():
        if fn.lineno <= line <= getattr(fn, "end_lineno", fn.lineno):
            best = fn.name
    return best


def template_calls(ctx: Ctx):
    """RUN calls written inside emission templates: [(class, callee, [arg text or V], line)]."""

    def build(c):
        I = interp(c)
        vals = rule_values(c)
        py = pyfacts(c)
        out = []
        seen = set()
        for r, v in vals.items():
            for x, _ in walk(v):
                if not isinstance(x, Obj) or x.cls not in py.classes or not py.is_subclass(x.cls, "AbstractBasicStatement"):
                    continue
                if py.is_subclass(x.cls, "BasicRunCall"):
                    continue
                rm = py.resolve_method(x.cls, "basic09_text")
                if rm is None:
                    continue
                t = I.call_function(rm[1], [x, Const(0)], self_obj=x, owner=rm[0].name)
                for alt in alts_of(t):
                    for callee, args in _calls_in_template(alt):
                        k = (x.cls, callee, tuple(a if isinstance(a, str) else id(a) for a in args))
                        sig = (r, x.cls, callee, len(args), tuple(a if isinstance(a, str) else "hole" for a in args))
                        if sig in seen:
                            continue
                        seen.add(sig)
                        out.append({"cls": x.cls, "callee": callee, "args": args, "line": rm[1].lineno, "file": rm[0].module, "rule": r})
        return out

    return ctx.engine("template_calls", build)


def _flatten(t: V) -> List[Any]:
    if isinstance(t, Tmpl):
        out: List[Any] = []
        for p in t.parts:
            if isinstance(p, str):
                out.append(p)
            elif isinstance(p, Tmpl):
                out.extend(_flatten(p))
            else:
                out.append(p)
        return out
    if isinstance(t, Const) and isinstance(t.value, str):
        return [t.value]
    return [t]


def _renderings(t: V, cap: int = 32) -> List[List[Any]]:
    """Flat part lists of a template, alternatives (Union parts made of templates/constants) expanded."""
    outs: List[List[Any]] = [[]]
    for p in _flatten(t):
        if isinstance(p, Union) and all(isinstance(a, (Tmpl, Const)) for a in p.alts):
            subs: List[List[Any]] = []
            for a in p.alts:
                subs.extend(_renderings(a, cap))
            outs = [o + s2 for o in outs for s2 in subs][:cap]
        else:
            outs = [o + [p] for o in outs]
    return outs


def _calls_in_template(t: V) -> List[Tuple[str, List[Any]]]:
    res: List[Tuple[str, List[Any]]] = []
    for parts in _renderings(t):
        res.extend(_calls_in_parts(parts))
    return res


def _calls_in_parts(parts: List[Any]) -> List[Tuple[str, List[Any]]]:
    # build a string with placeholders
    holes: List[Any] = []
    text = ""
    for p in parts:
        if isinstance(p, str):
            text += p
        else:
            holes.append(p)
            text += f"\x00{len(holes) - 1}\x00"
    res = []
    for m in re.finditer(r"(?i)\brun\s+(\w+)\s*\(", text):
        i = m.end()
        depth = 1
        j = i
        q = False
        while j < len(text) and depth:
            ch = text[j]
            if ch == '"':
                q = not q
            elif not q and ch == "(":
                depth += 1
            elif not q and ch == ")":
                depth -= 1
            j += 1
        inner = text[i : j - 1]
        args: List[Any] = []
        cur = ""
        d = 0
        q = False
        for ch in inner:
            if ch == '"':
                q = not q
            if not q and ch == "(":
                d += 1
            if not q and ch == ")":
                d -= 1
            if not q and ch == "," and d == 0:
                args.append(cur.strip())
                cur = ""
            else:
                cur += ch
        if cur.strip() or args:
            args.append(cur.strip())
        real: List[Any] = []
        for a in args:
            mm = re.fullmatch(r"\x00(\d+)\x00", a)
            real.append(holes[int(mm.group(1))] if mm else a)
        res.append((m.group(1), real))
    return res


def _text_arg_type(a: str) -> str:
    a = a.strip()
    if a.startswith('"'):
        return "str"
    if re.fullmatch(r"[-+]?(\d+\.?\d*|\.\d+)", a) or re.fullmatch(r"\$[0-9A-Fa-f]+", a):
        return "num"
    if a == "display":
        return "rec:display_t"
    if a == "play":
        return "rec:play_t"
    if re.match(r"(?i)(fix|float|int|len|asc|val|land|lor|lnot)\(", a):
        return "num"
    if re.fullmatch(r"[A-Za-z_][\w.]*", a):
        return "num"
    return "unknown"


@rule("L1", "RUN-INTERFACE: every RUN the tool can emit names a library procedure and passes the declared number and coarse types of arguments", ["C14", "C13", "C04", "C07", "C05", "C15"], floor=40, default_props=["C14", "C13", "C04"])
def l1(ctx: Ctx):
    I = interp(ctx)
    L = b09lib(ctx)
    n_sites = 0
    # the mirror image of `not-a-run`: a RUN printed through an *expression* object (BasicFunctionCall("RUN x", ...)) has the
    # right text but never announces itself as a statement - calls hoisted out of its operands are attached to whatever
    # statement came before (or to none: AttributeError)
    py_ = pyfacts(ctx)
    seen_fc = set()
    for r_, v_ in sorted(rule_values(ctx).items()):
        for x_, _ in walk(v_):
            # (built by the parser: the call object that set_var builds inside elements.py is handed to a statement on purpose)
            if isinstance(x_, Obj) and x_.cls == "BasicFunctionCall" and x_.file == PARSER_REL:
                f_ = _fx(ctx, x_, 0, "_func")
                for nm_ in (_names(f_) if f_ is not None else []):
                    if re.match(r"(?i)\s*run\s+\w+", nm_) and (x_.line, nm_) not in seen_fc:
                        seen_fc.add((x_.line, nm_))
                        ctx.ob(
                            f"{r_}->{nm_.split()[-1]}:run-as-expression",
                            False,
                            f"`{nm_}` is emitted through BasicFunctionCall (an expression) by the visitor of `{r_}`: the text is that of a RUN statement, but the object never calls visit_statement - a function in its operands is hoisted onto the previous statement (conditionally executed, or before the label), and onto nothing if there is none (AttributeError)",
                            file=x_.file,
                            line=x_.line,
                            witness="10 REM STAR / 20 PRINT@INT(RND(0)*510),\"*\";",
                            props=["C05", "C15", "C04"],
                        )
    for s in sorted(run_sites(ctx), key=lambda d: (d["file"], d["line"], d["inv"])):
        inv = s["inv"]
        m = re.fullmatch(r"(?i)run\s+(\w+)", inv.strip())
        key = f"{s['where']}->{inv.split()[-1] if inv.split() else inv}"
        if m is None:
            if inv == "?":
                raise AnalysisError("L1", s["where"], "procedure name of an emitted RUN is not a constant")
            # BasicRunCall used for something that is not a RUN (e.g. a function name): interface of a statement
            ctx.ob(key + ":not-a-run", False, f"`{inv}` is emitted through {s['cls']} (a statement that prints `<text>(args)`) but is not a RUN call (a statement inside an argument list also takes over the hoisting pass: calls of the operands after it are printed inside the list)", file=s["file"], line=s["line"], props=["C14", "C07", "C05"])
            continue
        name = m.group(1)
        n_sites += 1
        params = _callee_params(L, name)
        if params is None:
            near = [n for n in L.procs if n.lower() == name.lower()]
            ctx.ob(key, False, f"`{inv}` names no procedure of ecb.b09 and no OS-9 system module" + (f" (case differs from {near[0]}; the bank is case-sensitive)" if near else ""), file=s["file"], line=s["line"], props=["C14", "C13"])
            continue
        el = s["args"]
        if not isinstance(el, Seq) or el.tail is not None:
            raise AnalysisError("L1", key, f"argument list is not a fixed-length list: {el!r}")
        args = list(el.items)
        n_given = len(args) + (1 if s["kind"] == "function" else 0)
        if n_given != len(params):
            ctx.ob(
                key,
                False,
                f"`{inv}` is emitted with {n_given} arguments" + (" (operands + result)" if s["kind"] == "function" else "") + f", procedure {name} declares {len(params)} parameters ({', '.join(p[0] for p in params)})",
                file=s["file"],
                line=s["line"],
                props=["C14", "C04"] if name != "ecb_joystk" else ["C14", "C04"],
                signature=f"{n_given} arguments for {len(params)} parameters",
            )
            continue
        bad = []
        for i, (a, (pn, pt, raw)) in enumerate(zip(args, params)):
            ts = arg_types(ctx, I, a)
            for t in sorted(ts):
                if not lib_type_ok(t, pt):
                    bad.append(f"argument {i + 1} can be {t} ({_brief(a)}), parameter `{pn}` is {raw}")
        if s["kind"] == "function":
            pn, pt, raw = params[-1]
            res = s["result"]
            rt = "str" if isinstance(res, Const) and res.value else "num" if isinstance(res, Const) else "unknown"
            if not lib_type_ok(rt, pt):
                bad.append(f"the result temporary is {'a string' if rt == 'str' else 'numeric'} (is_str_expr={res.value if isinstance(res, Const) else '?'}), result parameter `{pn}` is {raw}")
        # (a device function - INKEY$, BUTTON, JOYSTK, POINT - whose call does not fit its procedure does not reach the device: C04)
        ctx.ob(key, not bad, "; ".join(bad), file=s["file"], line=s["line"], facts={"args": [_brief(a) for a in args], "params": [p[0] + ":" + p[2] for p in params]}, props=["C14", "C04"] if name in ("inkey", "ecb_button", "ecb_joystk", "ecb_point") else ["C14"])
    # calls written inside emission templates
    seen_t: Set[Tuple[str, str, int, Tuple[str, ...]]] = set()
    for t in template_calls(ctx):
        name = t["callee"]
        key = f"{t['cls']}.template->{name}"
        sig = (t["cls"], name, len(t["args"]), tuple(a if isinstance(a, str) else "hole" for a in t["args"]))
        if sig in seen_t:
            continue
        seen_t.add(sig)
        n_sites += 1
        params = _callee_params(L, name)
        if params is None:
            ctx.ob(key, False, f"template of {t['cls']} emits `RUN {name}` which ecb.b09 does not define", file=t["file"], line=t["line"], props=["C14", "C13"])
            continue
        if len(t["args"]) != len(params):
            ctx.ob(key + f"#{len(t['args'])}", False, f"template of {t['cls']} emits RUN {name} with {len(t['args'])} arguments, the procedure declares {len(params)}", file=t["file"], line=t["line"], props=["C14", "C04"])
            continue
        bad = []
        for i, (a, (pn, pt, raw)) in enumerate(zip(t["args"], params)):
            ts = {_text_arg_type(a)} if isinstance(a, str) else arg_types(ctx, I, _hole_value(a))
            for ty in sorted(ts):
                if not lib_type_ok(ty, pt):
                    bad.append(f"argument {i + 1} (`{a if isinstance(a, str) else _brief(a)}`) is {ty}, parameter `{pn}` is {raw}")
            # an argument the template converts on purpose - FIX(..) is an INTEGER, float(..) a REAL - meets a parameter of that
            # kind: BASIC09 hands the value over by reference, without conversion
            if isinstance(a, str) and pt == "num":
                fine = "integer" if re.match(r"(?i)\s*fix\(", a) else "real" if re.match(r"(?i)\s*float\(", a) else None
                rawl = raw.strip().lower()
                if fine == "integer" and rawl == "real":
                    bad.append(f"argument {i + 1} (`{a}`) is an INTEGER, parameter `{pn}` is declared {raw}: the two bytes are read as a REAL")
                if fine == "real" and rawl in ("integer", "byte"):
                    bad.append(f"argument {i + 1} (`{a}`) is a REAL, parameter `{pn}` is declared {raw}")
        ctx.ob(key + f"#{len(t['args'])}", not bad, "; ".join(bad), file=t["file"], line=t["line"], props=["C14"])
    ctx.units["run_sites"] = n_sites


def _hole_value(a: V) -> V:
    """A template hole holds the text of a construct: the construct itself is what has a type."""
    if isinstance(a, Tmpl) and len(a.parts) == 1 and isinstance(a.parts[0], V):
        return _hole_value(a.parts[0])
    if isinstance(a, Union):
        from .absint import mk_union

        return mk_union([_hole_value(x) for x in a.alts])
    return a


def _brief(v: V) -> str:
    if isinstance(v, Obj):
        if v.cls == "BasicVar":
            return f"var {_brief(v.fields.get('_name'))}"
        if v.cls == "BasicLiteral":
            return f"literal {_brief(v.fields.get('_literal'))}"
        if v.cls in ("BasicFunctionalExpression", "BasicJoystkExpression"):
            return f"temporary of {_brief(v.fields.get('_func'))}"
        if v.cls == "BasicFunctionCall":
            return f"{_brief(v.fields.get('_func'))}(..)"
        return v.cls
    if isinstance(v, Const):
        return repr(v.value)
    if isinstance(v, Operand):
        return f"<{v.rule}#{'.'.join(map(str, v.path))}>"
    if isinstance(v, Union):
        return "(" + " | ".join(_brief(a) for a in v.alts) + ")"
    if isinstance(v, StrV):
        return "|".join(sorted(v.lits)) if v.lits is not None else "<text>"
    if v is None:
        return "-"
    return type(v).__name__


# ---------------------------------------------------------------------------
# R1 OPERAND-ROLE (C04)


def operand_paths(I: Interp, rule: str) -> List[Tuple[Tuple[int, ...], str]]:
    """Paths of the expression operands of `rule` in source order (from the grammar alone)."""
    p = I.peg
    out: Dict[Tuple[int, ...], str] = {}

    def rec(e, path, depth=0):
        if depth > 30:
            return
        k = p.kind(e)
        if k == "seq":
            for i, m in enumerate(e.members):
                ref(m, path + (i,), depth + 1)
        elif k == "oneof":
            for m in e.members:
                ref(m, path + (0,), depth + 1)
        elif k == "quant":
            ref(e.members[0], path + (0,), depth + 1)

    def ref(m, path, depth):
        if m.name:
            eff = m.name
            if eff in I.opaque:
                out.setdefault(path, eff)
                return
            rec(p.rules[eff], path, depth)
        else:
            rec(m, path, depth)

    rec(p.rule(rule), ())
    return sorted(out.items())


DISPLAY = ("var", "display")
PID = ("var", "pid")
FORE = ("call", "float", "display.hfore")

# grammar rule -> (procedure(s), expected argument pattern, library parameter names in that order)
#   int k            : the k-th operand of the statement, in source order
#   ("opt", k, d)    : operand k when present, otherwise default d
#   ("lit", {..})    : one of these literal values      ("var", n): generated variable n
#   ("call", f, a)   : BASIC09 function call f(a)        ("strof", k): operand k, through the number formatter if numeric
ROLE_TABLE: Dict[str, Tuple[Any, List[Any], List[str]]] = {
    "print_at_statement": ("ecb_at", [0], ["location"]),
    "print_at_statement0": ("ecb_at", [0], ["location"]),
    "statement2": ("ecb_reset", [0, 1], ["x", "y"]),
    "statement3": ("ecb_set", [0, 1, 2], ["x", "y", "c"]),
    "locate_statement": ("ecb_locate", [0, 1], ["x", "y"]),
    "attr_statement": ("ecb_attr", [0, 1, ("lit", {0.0, 1.0}), ("lit", {0.0, 1.0}), DISPLAY], ["f", "b", "bk", "undr", "display"]),
    "reset_colors_statement": ({"ecb_set_palette_cmp", "ecb_set_palette_rgb"}, [DISPLAY], ["display"]),
    "palette_reset_statement": ({"ecb_set_palette_cmp", "ecb_set_palette_rgb"}, [DISPLAY], ["display"]),
    "palette_statement": ("ecb_set_palette", [0, 1, DISPLAY], ["pr", "cc", "display"]),
    "hscreen_statement": ("ecb_hscreen", [("opt", 0, ("lit", {0})), DISPLAY], ["n", "display"]),
    "hcls_statement": ("ecb_hcls", [("opt", 0, ("lit", {-1})), DISPLAY], ["n", "display"]),
    "hcircle_statement": ("ecb_hcircle", [0, 1, 2, ("opt", 3, FORE), ("lit", {1.0}), DISPLAY], ["x", "y", "r", "c", "rt", "display"]),
    "hellipse_statement": ("ecb_hcircle", [0, 1, 2, ("opt", 3, FORE), 4, DISPLAY], ["x", "y", "r", "c", "rt", "display"]),
    "harc_statement": ("ecb_harc", [0, 1, 2, ("opt", 3, FORE), 4, 5, 6, DISPLAY], ["x", "y", "r", "c", "rt", "sp", "ep", "display"]),
    "hprint_statement": ("ecb_hprint", [0, 1, ("strof", 2), DISPLAY], ["x", "y", "txt", "display"]),
    "hcolor_statement": ("ecb_hcolor", [0, 1, DISPLAY], ["f", "b", "display"]),
    "hcolor1_statement": ("ecb_hcolor", [0, ("lit", {-1.0}), DISPLAY], ["f", "b", "display"]),
    "hline_relative_statement": ("ecb_hline", [("lit", {"r"}), ("lit", {0.0}), ("lit", {0.0}), 0, 1, ("lit", {"PSET", "PRESET"}), ("lit", {"L", "B", "BF"}), DISPLAY], ["rd", "x0", "y0", "x1", "y1", "m", "t", "display"]),
    "hline_statement": ("ecb_hline", [("lit", {"d"}), 0, 1, 2, 3, ("lit", {"PSET", "PRESET"}), ("lit", {"L", "B", "BF"}), DISPLAY], ["rd", "x0", "y0", "x1", "y1", "m", "t", "display"]),
    "hreset_statement": ("ecb_hreset", [0, 1, DISPLAY], ["x", "y", "display"]),
    "hset3_statement": ("ecb_hset3", [0, 1, 2, DISPLAY], ["x", "y", "c", "display"]),
    "hset_statement": ("ecb_hset", [0, 1, DISPLAY], ["x", "y", "display"]),
    "play_statement": ("ecb_play", [0, ("var", "play")], ["s", "p"]),
    "hdraw_statement": ("ecb_hdraw", [0, DISPLAY], ["s", "d"]),
    "hbuff_statement": ("_ecb_hbuff", [0, 1, PID, DISPLAY], ["b", "s", "pid", "d"]),
    "hget_statement": ("ecb_hget", [0, 1, 2, 3, 4, PID, DISPLAY], ["x0", "y0", "x1", "y1", "b", "p", "d"]),
    "hput_statement": ("ecb_hput", [0, 1, 2, 3, 4, ("lit", {"AND", "NOT", "OR", "PRESET", "PSET", "XOR"}), PID, DISPLAY], ["x0", "y0", "x1", "y1", "b", "a", "p", "d"]),
    "hpaint_statement": ("ecb_hpaint", [0, 1, ("opt", 2, ("call", "FLOAT", "display.hfore")), ("opt", 3, ("call", "FLOAT", "display.hfore")), DISPLAY], ["x", "y", "c", "c0", "d"]),
}

# functions that become procedure calls: rule -> (procedure(s), operand pattern, parameter names incl. result)
FUNC_ROLE_TABLE: Dict[str, Tuple[Any, List[Any], List[str]]] = {
    "func_to_statements": ({"ecb_button", "ecb_int"}, [0], []),  # parameter order of both: L9 result-last
    "func_to_statements2": ("ecb_point", [0, 1], ["x", "y", "c0"]),
    "joystk_to_statement": ("ecb_joystk", [0], []),
    "instr_expr": ("ecb_instr", [0, 1, 2], ["index", "str0", "str1", "outindex"]),
    "string_expr": ("ecb_string", [0, 1], ["count", "str", "strout"]),
    "num_str_func_exp_statements": ({"ecb_hex", "ecb_str"}, [0], []),
    "func_str_exp": ("ecb_val", [0], ["str", "valout"]),
    "str_func_exp_statements": ("inkey", [], []),
}

# statements whose RUN call is written in the emission template: rule -> (class, procedure, pattern)
TEMPLATE_ROLE_TABLE: Dict[str, Tuple[str, str, List[Any], List[str]]] = {
    "sound": ("BasicSound", "ecb_sound", [0, 1, ("text", "31.0"), ("text", "FIX(play.octo)")], ["f", "d", "v", "o"]),
    "cls": ("BasicCls", "ecb_cls", [("opt", 0, ("text", "1.0")), ("text", "display")], ["color", "display"]),
    "width_statement": ("BasicWidthStatement", "_ecb_width", [0, ("text", "display")], ["width", "display"]),
}


def _match_slot(I: Interp, slot: Any, v: V, ops: List[Tuple[Tuple[int, ...], str]]) -> Optional[str]:
    """None if abstract argument value v fits the expected slot, else a description of the mismatch."""

    def is_op(a: V, k: int) -> bool:
        return isinstance(a, Operand) and k < len(ops) and a.path == ops[k][0]

    def is_default(a: V, d: Any) -> bool:
        kind = d[0]
        if kind == "lit":
            if isinstance(a, Obj) and a.cls in ("BasicLiteral",):
                lit = a.fields.get("_literal")
                vals = set()
                for l in alts_of(lit):
                    if isinstance(l, Const):
                        vals.add(l.value)
                    elif isinstance(l, StrV) and l.lits is not None:
                        vals |= set(l.lits)
                    else:
                        return False
                return bool(vals) and vals <= d[1] and all(type(x) is type(y) or isinstance(x, (int, float)) for x in vals for y in list(d[1])[:1])
            return False
        if kind == "var":
            return isinstance(a, Obj) and a.cls == "BasicVar" and isinstance(a.fields.get("_name"), Const) and a.fields["_name"].value == d[1]
        if kind == "call":
            if not (isinstance(a, Obj) and a.cls == "BasicFunctionCall"):
                return False
            f = _fx(_CUR_CTX[0], a, 0, "_func")
            argl = _fx(_CUR_CTX[0], a, 1, "_args")
            el = _el(_CUR_CTX[0], argl)
            if not (isinstance(f, Const) and isinstance(f.value, str) and f.value.lower() == d[1].lower()):
                return False
            return isinstance(el, Seq) and len(el.items) == 1 and is_default(el.items[0], ("var", d[2]))
        return False

    alts = [a for a in alts_of(v) if not isinstance(a, NodeV)]  # raw nodes: rule A1
    unk = [a for a in alts if isinstance(a, Unknown) and not hasattr(a, "keyerror") and not hasattr(a, "indexerror")]
    if unk:
        # part of the value comes out of code the interpreter does not model: no verdict on this argument
        raise AnalysisError("R1", "argument", f"the value of an argument is not fully modelled ({unk[0]!r})")
    if isinstance(slot, int):
        if len(alts) == 1 and is_op(alts[0], slot):
            return None
        return f"expected operand #{slot + 1} of the statement, found {_brief(v)}"
    kind = slot[0]
    if kind == "opt":
        k, d = slot[1], slot[2]
        have_op = any(is_op(a, k) for a in alts)
        have_def = any(is_default(a, d) for a in alts)
        rest = [a for a in alts if not is_op(a, k) and not is_default(a, d)]
        if have_op and have_def and not rest:
            return None
        if not have_op:
            return f"optional operand #{k + 1} never reaches this position (found {_brief(v)})"
        if not have_def:
            return f"documented default {_slot_text(d)} is not used when operand #{k + 1} is omitted (found {_brief(v)})"
        return f"unexpected alternative {_brief(rest[0])}"
    if kind == "strof":
        k = slot[1]
        ok = True
        seen_plain = False
        for a in alts:
            if is_op(a, k):
                seen_plain = True
            elif isinstance(a, Obj) and a.cls == "BasicFunctionalExpression":
                argl = _fx(_CUR_CTX[0], a, 1, "_args")
                el = _el(_CUR_CTX[0], argl)
                f = _fx(_CUR_CTX[0], a, 0, "_func")
                if not (isinstance(el, Seq) and len(el.items) == 1 and all(is_op(x, k) for x in alts_of(el.items[0])) and isinstance(f, Const) and f.value.lower().endswith("ecb_str")):
                    ok = False
            else:
                ok = False
        return None if ok and seen_plain else f"expected operand #{k + 1} (through ecb_str when numeric), found {_brief(v)}"
    if all(is_default(a, slot) for a in alts):
        if kind == "lit" and len(slot[1]) > 1:
            # a choice the source syntax makes: every documented value must be able to arrive here
            seen_vals: Set[Any] = set()
            for a in alts:
                for l in alts_of(a.fields.get("_literal")):
                    if isinstance(l, Const):
                        seen_vals.add(l.value)
                    elif isinstance(l, StrV) and l.lits is not None:
                        seen_vals |= set(l.lits)
            missing = {x for x in slot[1] if not any(x == y for y in seen_vals)}
            if missing:
                return f"only {sorted(map(str, seen_vals))} can arrive here; the statement's options select among {sorted(map(str, slot[1]))}: {sorted(map(str, missing))} is never passed on"
        return None
    return f"expected {_slot_text(slot)}, found {_brief(v)}"


def _slot_text(s: Any) -> str:
    if isinstance(s, int):
        return f"operand #{s + 1}"
    if s[0] == "lit":
        return "literal " + "/".join(map(str, sorted(s[1], key=str)))
    if s[0] == "var":
        return f"variable {s[1]}"
    if s[0] == "call":
        return f"{s[1]}({s[2]})"
    if s[0] == "text":
        return f"`{s[1]}`"
    return str(s)


def _check_param_names(ctx: Ctx, L, proc: str, expected: List[str], where: str):
    """The library's parameter list for `proc` has the expected names in the expected order.
    A pure renaming is not an alarm (reported as information); the same names in another order is."""
    if not expected or proc not in L.procs:
        return
    have = [p[0] for p in L.procs[proc].params]
    exp = [e.lower() for e in expected]
    if have == exp:
        ctx.ob(f"{proc}:param-order", True, file=LIB_REL, line=L.procs[proc].line, rule="R1") if not any(o.construct == f"{proc}:param-order" for o in ctx.obligations.get("R1", [])) else None
        return
    if sorted(have) == sorted(exp):
        if not any(o.construct == f"{proc}:param-order" for o in ctx.obligations.get("R1", [])):
            ctx.ob(f"{proc}:param-order", False, f"procedure {proc} declares its parameters as ({', '.join(have)}); the tool passes the operands in the order ({', '.join(exp)}): values reach the wrong parameters", file=LIB_REL, line=L.procs[proc].line)
    else:
        if not any(o.construct == f"{proc}:param-names" for o in ctx.obligations.get("R1", [])):
            ctx.info(f"{proc}:param-names", f"parameter names of {proc} are ({', '.join(have)}), role table knows ({', '.join(exp)}): order not cross-checked", file=LIB_REL, line=L.procs[proc].line)


@rule("R1", "OPERAND-ROLE: each device statement passes every source operand / documented default in the parameter position the runtime declares for it", ["C04", "C20"], floor=35)
def r1(ctx: Ctx):
    I = interp(ctx)
    L = b09lib(ctx)
    vals = rule_values(ctx)
    py = pyfacts(ctx)
    for rname, (procs, pattern, pnames) in ROLE_TABLE.items():
        ctx.need(rname in vals, rname, "device statement rule no longer exists in the grammar")
        ops = operand_paths(I, rname)
        v = vals[rname]
        calls = [x for x, _ in walk(v) if isinstance(x, Obj) and py.is_subclass(x.cls, "BasicRunCall")]
        # the outermost call built for the rule: the object the rule returns
        tops = [a for a in alts_of(v) if isinstance(a, Obj) and py.is_subclass(a.cls, "BasicRunCall")]
        if not tops:
            # print_at_statement returns BasicStatements([at, print])
            tops = [c for c in calls if _names(_fx(ctx, c, 0, "_run_invocation"))[0].lower().startswith("run ")][:1]
        ctx.need(len(tops) >= 1, rname, f"no RUN call object built by visit_{rname}")
        all_names = {n.split()[-1] for top in tops for n in _names(_fx(ctx, top, 0, "_run_invocation"))}
        want = procs if isinstance(procs, set) else {procs}
        okn = all_names == want
        ctx.ob(f"{rname}:procedure", okn, "" if okn else f"`{rname}` is translated into RUN {sorted(all_names)}, the statement is implemented by {sorted(want)}", file=tops[0].file, line=tops[0].line, props=["C04"])
        done_slots: Set[str] = set()
        for top in tops:
            names = {n.split()[-1] for n in _names(_fx(ctx, top, 0, "_run_invocation"))}
            argl = _fx(ctx, top, 1, "_arguments")
            el = _el(ctx, argl)
            if not isinstance(el, Seq) or el.tail is not None:
                raise AnalysisError("R1", rname, f"argument list is not fixed-length: {el!r}")
            if len(el.items) != len(pattern):
                ctx.ob(f"{rname}:arity", False, f"`{rname}` passes {len(el.items)} arguments, the documented call has {len(pattern)}", file=top.file, line=top.line, props=["C04"])
                continue
            for i, (slot, a) in enumerate(zip(pattern, el.items)):
                why = _match_slot(I, slot, a, ops)
                pn = pnames[i] if i < len(pnames) else f"#{i + 1}"
                if why is None and f"{rname}:{pn}" in done_slots:
                    continue
                done_slots.add(f"{rname}:{pn}")
                ctx.ob(
                    f"{rname}:{pn}",
                    why is None,
                    "" if why is None else f"argument {i + 1} of RUN {sorted(names)[0]} (parameter `{pn}`): {why}",
                    file=top.file,
                    line=top.line,
                    facts={"expected": _slot_text(slot), "found": _brief(a)},
                    props=["C04"],
                )
            for pr in want:
                _check_param_names(ctx, L, pr, pnames, rname)
    # functions turned into procedure calls
    for rname, (procs, pattern, pnames) in FUNC_ROLE_TABLE.items():
        ctx.need(rname in vals, rname, "function rule no longer exists in the grammar")
        ops = operand_paths(I, rname)
        v = vals[rname]
        fes = [a for a in alts_of(v) if isinstance(a, Obj) and py.is_subclass(a.cls, "BasicFunctionalExpression")]
        ctx.need(fes, rname, "no functional expression built")
        for fe in fes:
            names = {n.split()[-1] for n in _names(_fx(ctx, fe, 0, "_func"))}
            want = procs if isinstance(procs, set) else {procs}
            okn = names <= want and bool(names)
            props = ["C04", "C20"] if rname in ("instr_expr", "string_expr") else ["C04"]
            ctx.ob(f"{rname}:procedure", okn, "" if okn else f"`{rname}` calls {sorted(names)}, expected {sorted(want)}", file=fe.file, line=fe.line, props=props)
            argl = _fx(ctx, fe, 1, "_args")
            el = _el(ctx, argl)
            if not isinstance(el, Seq) or el.tail is not None:
                raise AnalysisError("R1", rname, f"argument list is not fixed-length: {el!r}")
            if len(el.items) != len(pattern):
                ctx.ob(f"{rname}:arity", False, f"`{rname}` passes {len(el.items)} operands, the function has {len(pattern)}", file=fe.file, line=fe.line, props=props)
                continue
            for i, (slot, a) in enumerate(zip(pattern, el.items)):
                why = _match_slot(I, slot, a, ops)
                pn = pnames[i] if i < len(pnames) else f"#{i + 1}"
                ctx.ob(f"{rname}:{pn}", why is None, "" if why is None else f"operand position {i + 1} (parameter `{pn}`): {why}", file=fe.file, line=fe.line, props=props)
            for pr in want:
                _check_param_names(ctx, L, pr, pnames, rname)
    # table-driven function names: each BASIC function maps to the procedure of its own name
    env = I.peg.env
    for tname in sorted(env):
        tbl = env[tname]
        if not isinstance(tbl, dict):
            continue
        for k, val in tbl.items():
            if isinstance(val, str) and val.lower().startswith("run "):
                proc = val.split()[1]
                base = re.sub(r"\$$", "", k).lower()
                ok = proc.lower() in (f"ecb_{base}", base)
                ctx.ob(f"{tname}[{k}]", ok, "" if ok else f"BASIC keyword {k} is mapped to `{val}`", file="coco/b09/grammar.py", line=1, props=["C04", "C01"])
            elif isinstance(val, str) and tname in ("FUNCTIONS", "STR2_FUNCTIONS", "STR3_FUNCTIONS", "STR_NUM_FUNCTIONS", "NUM_STR_FUNCTIONS", "SINGLE_KEYWORD_STATEMENTS"):
                ok = val == k
                ctx.ob(f"{tname}[{k}]", ok, "" if ok else f"BASIC keyword {k} is emitted as `{val}`", file="coco/b09/grammar.py", line=1, props=["C01"] if tname != "SINGLE_KEYWORD_STATEMENTS" else ["C02"])
    # RUN calls written inside templates
    tcalls = template_calls(ctx)
    for rname, (cls, proc, pattern, pnames) in TEMPLATE_ROLE_TABLE.items():
        ops = operand_paths(I, rname)
        mine = [t for t in tcalls if t["cls"] == cls and t["callee"] == proc and t["rule"] == rname]
        ctx.need(mine, f"{cls}.template", f"no `RUN {proc}(` found in the emission template of {cls}")
        # alternatives of the same template position are merged per argument index
        width = {len(t["args"]) for t in mine}
        if width != {len(pattern)}:
            ctx.ob(f"{rname}:arity", False, f"{cls} emits RUN {proc} with {sorted(width)} arguments, documented call has {len(pattern)}", file=mine[0]["file"], line=mine[0]["line"], props=["C04"])
            continue
        for i, slot in enumerate(pattern):
            found = [t["args"][i] for t in mine]
            why = _match_template_slot(slot, found, ops)
            pn = pnames[i]
            ctx.ob(f"{rname}:{pn}", why is None, "" if why is None else f"argument {i + 1} of RUN {proc} (parameter `{pn}`): {why}", file=mine[0]["file"], line=mine[0]["line"], props=["C04"])
        _check_param_names(ctx, L, proc, pnames, rname)
    # POKE: the two speed-poke addresses switch the octave flag, everything else is a POKE of both operands
    v = vals.get("poke_statement")
    ctx.need(v is not None, "poke_statement", "rule not found")
    for a in alts_of(v):
        if isinstance(a, Obj):
            rm = py.resolve_method(a.cls, "basic09_text")
            t = I.call_function(rm[1], [a, Const(0)], self_obj=a, owner=rm[0].name)
            texts = []
            for alt in alts_of(t):
                parts = _flatten(alt)
                texts.append("".join(p if isinstance(p, str) else "{}" for p in parts))
            want = {"play.octo := 0", "play.octo := 1", "POKE {}, {}"}
            ok = set(texts) == want
            ctx.ob("poke_statement:forms", ok, "" if ok else f"POKE is emitted as {sorted(set(texts))}, documented forms are {sorted(want)}", file=rm[0].module, line=rm[1].lineno, props=["C04"])
            # decided by interpreting basic09_text on concrete first operands (decimal and hex spellings of the two addresses, and their neighbours)
            cases = [("BasicLiteral", 65496, "play.octo := 0"), ("BasicLiteral", 65497, "play.octo := 1"), ("HexLiteral", "FFD8", "play.octo := 0"), ("HexLiteral", "FFD9", "play.octo := 1"), ("BasicLiteral", 65495, None), ("BasicLiteral", 65498, None), ("HexLiteral", "FFD7", None), ("HexLiteral", "FFDA", None)]
            bad = []
            shape = True
            for lc, lit, want_ in cases:
                e1 = I.construct(lc, [Const(lit)], {}, rm[1].lineno, rm[0].name)
                e2 = I.construct("BasicLiteral", [Const(7)], {}, rm[1].lineno, rm[0].name)
                pk = I.construct(a.cls, [e1, e2], {}, rm[1].lineno, rm[0].name)
                tv = I.call_function(rm[1], [pk, Const(0)], self_obj=pk, owner=rm[0].name)
                got = set()
                for alt in alts_of(tv):
                    parts = _flatten(alt)
                    if not all(isinstance(p_, str) for p_ in parts):
                        shape = False
                    got.add("".join(p_ if isinstance(p_, str) else "{}" for p_ in parts))
                okc = got == {want_} if want_ is not None else (len(got) == 1 and next(iter(got)).startswith("POKE "))
                if not okc:
                    bad.append(f"POKE {'$' if lc == 'HexLiteral' else ''}{lit}, 7 -> {sorted(got)}")
            ctx.idiom("poke_statement:speed-addresses", shape, not bad, "" if not bad else "65496 -> play.octo := 0 and 65497 -> play.octo := 1 (decimal or hex), any other address a POKE: " + "; ".join(bad), file=rm[0].module, line=rm[1].lineno, props=["C04"])


def _match_template_slot(slot: Any, found: List[Any], ops) -> Optional[str]:
    def is_op(a: Any, k: int) -> bool:
        h = _hole_value(a) if isinstance(a, V) else None
        return isinstance(h, Operand) and k < len(ops) and h.path == ops[k][0]

    if isinstance(slot, int):
        return None if all(is_op(a, slot) for a in found) else f"expected operand #{slot + 1}, found {[a if isinstance(a, str) else _brief(_hole_value(a)) for a in found]}"
    if slot[0] == "text":
        return None if all(isinstance(a, str) and a.replace(" ", "").lower() == slot[1].replace(" ", "").lower() for a in found) else f"expected `{slot[1]}`, found {[a if isinstance(a, str) else _brief(_hole_value(a)) for a in found]}"
    if slot[0] == "opt":
        k, d = slot[1], slot[2]
        have_op = any(is_op(a, k) for a in found)
        have_def = any(isinstance(a, str) and a.replace(" ", "").lower() == d[1].lower() for a in found)
        rest = [a for a in found if not is_op(a, k) and not (isinstance(a, str) and a.replace(" ", "").lower() == d[1].lower())]
        if have_op and have_def and not rest:
            return None
        return f"expected operand #{k + 1} or default `{d[1]}`, found {[a if isinstance(a, str) else _brief(_hole_value(a)) for a in found]}"
    return "unsupported slot"


# ---------------------------------------------------------------------------
# E11 EXPRESSION-KIND


@rule("E11", "EXPRESSION-KIND: presence/kind tests on operands mean what they are used for; string/numeric kind follows the operands", ["C03", "C04", "C01", "C14"], floor=8)
def e11(ctx: Ctx):
    I = interp(ctx)
    py = pyfacts(ctx)
    vmod = I.vm
    expr_classes = {c for r in ("exp", "str_exp") for c in I.T.get(r, set()) if c in py.classes}
    # (a) isinstance(x, K) tests in the parse-tree visitors where x is a grammar operand
    for name, vm in sorted(vmod.methods.items()):
        if vm.rule not in I.peg.rules:
            continue
        e = I.peg.rules[vm.rule]
        if I.peg.kind(e) != "seq":
            continue
        ups, _, _ = vmod.effective_unpacks(vm)
        pos = {}
        for u in ups:
            if len(u.names) == len(e.members):
                for i, nm in enumerate(u.names):
                    if nm:
                        pos[nm] = i
        for n in ast.walk(vm.fn):
            if isinstance(n, ast.Call) and isinstance(n.func, ast.Name) and n.func.id == "isinstance" and len(n.args) == 2 and isinstance(n.args[0], ast.Name):
                var = n.args[0].id
                if var not in pos:
                    continue
                ks = [x.id for x in ([n.args[1]] if isinstance(n.args[1], ast.Name) else list(getattr(n.args[1], "elts", []))) if isinstance(x, ast.Name)]
                if not ks or not all(k in py.classes for k in ks):
                    continue
                member = e.members[pos[var]]
                v = I.eval_expr_member(member, (pos[var],))
                cs = {c for c in I.classes_of(v) if c in py.classes}
                if not cs:
                    continue
                # the test is used to tell "an expression is present / of that kind": every expression class
                # the operand can be must fall on one side consistently with its being an expression
                presence = ks == ["AbstractBasicExpression"]
                if not presence and all(py.is_subclass(k, "AbstractBasicExpression") for k in ks):
                    # `x if isinstance(x, K) else <default>` (either polarity): K decides presence of the operand
                    for ie in ast.walk(vm.fn):
                        if isinstance(ie, ast.IfExp) and any(c is n for c in ast.walk(ie.test)):
                            br = [ie.body, ie.orelse]
                            if any(isinstance(b, ast.Name) and b.id == var for b in br) and any(not any(isinstance(x, ast.Name) and x.id == var for x in ast.walk(b)) for b in br):
                                presence = True
                if all(py.is_subclass(k, "AbstractBasicConstruct") and any(py.is_subclass(c, k) for c in expr_classes) for k in ks) and presence:
                    bad = sorted(c for c in cs if c in expr_classes and not any(py.is_subclass(c, k) for k in ks))
                    ctx.ob(
                        f"{name}:{var}:isinstance({','.join(ks)})",
                        not bad,
                        "" if not bad else f"`isinstance({var}, {ks[0]})` decides whether the optional operand is present, but operand values of class {bad} are not {ks[0]}s: the operand is silently treated as absent",
                        file=PARSER_REL,
                        line=n.lineno,
                        facts={"operand_classes": sorted(cs)},
                        props=["C04", "C03"],
                    )
    # the PRINT patcher's test
    ppc = py.cls("BasicPrintStatementPatcherVisitor")
    pp = ppc.methods.get("visit_print_statement")
    ctx.need(pp is not None, "BasicPrintStatementPatcherVisitor.visit_print_statement", "not found")
    # the test may sit in a helper of the pass
    tests = [n for m_ in list(ppc.methods.values()) + list(ppc.classmethods.values()) for n in ast.walk(m_) if isinstance(n, ast.Call) and isinstance(n.func, ast.Name) and n.func.id == "isinstance"]
    ctx.need(tests, "BasicPrintStatementPatcherVisitor", "isinstance test not found")
    for n in tests:
        k = n.args[1].id if isinstance(n.args[1], ast.Name) else None
        if k and k in py.classes:
            pa = I.eval_rule("print_arg", (), top=True)
            cs = {c for c in I.classes_of(pa) if c in py.classes}
            bad = sorted(c for c in cs if not py.is_subclass(c, k))
            ctx.ob(f"PrintPatcher:isinstance({k})", not bad, "" if not bad else f"PRINT items of class {bad} are not {k}s: numeric items of that form bypass the number formatter", file=VISITORS_REL, line=n.lineno, props=["C03"])
    # (b) kind of compound expressions
    str_rules, num_rules = ctx.engine("families", lambda c: _families(I))
    culprits_num: Dict[str, int] = {}
    culprits_str: Dict[str, int] = {}
    vals = rule_values(ctx)
    for r in sorted(num_rules | str_rules):
        if r not in vals:
            continue
        want_str = r in str_rules
        for a in alts_of(vals[r]):
            if isinstance(a, Obj) and a.cls in py.classes and py.is_subclass(a.cls, "AbstractBasicConstruct"):
                s = I.getattr(a, "is_str_expr", a.cls)
                for y in alts_of(s):
                    yv = y.value if isinstance(y, Const) and isinstance(y.value, bool) else None
                    if yv is None and getattr(y, "desc", None):
                        # the kind is copied from an operand: the operand has the kind of its grammar family
                        mo = re.fullmatch(r"Operand\((\w+)@[^)]*\)\.is_str_expr", y.desc)
                        if mo and mo.group(1) in str_rules:
                            yv = True
                        elif mo and mo.group(1) in num_rules:
                            yv = False
                    if yv is not None and yv != want_str:
                        (culprits_str if want_str else culprits_num).setdefault(a.cls, a.line)
    all_cls = sorted({a.cls for r in (num_rules | str_rules) if r in vals for a in alts_of(vals[r]) if isinstance(a, Obj) and a.cls in py.classes})
    for c in all_cls:
        if c in culprits_num:
            ctx.ob(
                f"b:{c}",
                False,
                f"objects of class {c} built by the numeric expression rules report is_str_expr == True: `PRINT A+B` bypasses the number formatter and a numeric expression can be passed where the runtime declares a string",
                file=ELEMENTS_REL,
                line=py.cls(c).node.lineno,
                props=["C01", "C03", "C14"],
            )
        elif c in culprits_str:
            ctx.ob(f"b:{c}", False, f"objects of class {c} built by the string expression rules report is_str_expr == False", file=ELEMENTS_REL, line=py.cls(c).node.lineno, props=["C01", "C03", "C14"])
        else:
            ctx.ob(f"b:{c}", True, file=ELEMENTS_REL, line=py.cls(c).node.lineno, props=["C01", "C03", "C14"])


# ---------------------------------------------------------------------------
# E12 COND-KIND (sibling agreement of the three IF builders)


@rule("E12", "COND-KIND: every IF-family builder gives BASIC09 a boolean condition (a bare numeric condition becomes `<> 0`)", ["C01", "C02"], floor=3)
def e12(ctx: Ctx):
    I = interp(ctx)
    py = pyfacts(ctx)
    vals = rule_values(ctx)
    bool_classes = {"BasicBooleanBinaryExp", "BasicBooleanOpExp", "BasicBooleanParenExp"}
    str_rules, num_rules = ctx.engine("families", lambda c: _families(I))
    for rname in ("if_stmnt", "if_else_stmnt", "if_if_else_stmnt", "else_if_stmnt"):
        ctx.need(rname in vals, rname, "IF rule not found in the grammar")
        for a in alts_of(vals[rname]):
            if not (isinstance(a, Obj) and py.is_subclass(a.cls, "BasicIf")):
                continue
            cond = a.fields.get("_exp")
            bad = []
            for c in alts_of(cond):
                cs = I.classes_of(c)
                if isinstance(c, Operand) and c.rule in num_rules:
                    bad.append(c.rule)
                elif isinstance(c, Obj) and c.cls not in bool_classes:
                    bad.append(c.cls)
            ctx.ob(
                rname,
                not bad,
                "" if not bad else f"visit_{rname} stores a numeric condition ({sorted(set(bad))}) unchanged: `IF A THEN .. ELSE ..` is emitted as `IF A THEN`, which BASIC09 (boolean conditions only) does not accept; visit_if_stmnt wraps it as `A <> 0.0`",
                file=PARSER_REL,
                line=a.line,
                witness="" if not bad else "10 IF A THEN B=1 ELSE B=2",
            )


# ---------------------------------------------------------------------------
# E10 PROTOCOL (DATA items)


@rule("E10", "PROTOCOL: every attribute a pass reads or writes on DATA items is provided by every class the grammar can put there", ["C15", "C03"], floor=2)
def e10(ctx: Ctx):
    I = interp(ctx)
    py = pyfacts(ctx)
    de = I.eval_rule("data_element", (), top=True)
    item_classes = sorted(c for c in I.classes_of(de) if c in py.classes)
    ctx.need(item_classes, "data_element", "no element class inferred for DATA items")
    for cls in py.subclasses("BasicConstructVisitor"):
        fn = py.cls(cls).methods.get("visit_data_statement")
        if fn is None or cls == "BasicConstructVisitor":
            continue
        param = fn.args.args[1].arg
        # loop variables over <param>.exp_list.exp_list
        for loop in [n for n in ast.walk(fn) if isinstance(n, ast.For)]:
            if param not in {x.id for x in ast.walk(loop.iter) if isinstance(x, ast.Name)} or "exp_list" not in unparse(loop.iter):
                continue
            lvars = [t.id for t in ast.walk(loop.target) if isinstance(t, ast.Name)]
            for n in ast.walk(loop):
                if isinstance(n, ast.Attribute) and isinstance(n.value, ast.Name) and n.value.id in lvars:
                    store = isinstance(n.ctx, ast.Store)
                    guard = _isinstance_guard(loop, n, n.value.id)
                    for c in item_classes:
                        if guard is not None and not any(py.is_subclass(c, g) for g in guard):
                            continue
                        if store:
                            ok = py.resolve_setter(c, n.attr) is not None or (py.resolve_property(c, n.attr) is None)
                        else:
                            ok = py.resolve_property(c, n.attr) is not None or py.resolve_method(c, n.attr) is not None
                        key = f"{cls}:{c}.{n.attr}{'=' if store else ''}"
                        if any(o.construct == key for o in ctx.obligations.get("E10", [])):
                            continue
                        ctx.ob(
                            key,
                            ok,
                            "" if ok else f"`{cls}.visit_data_statement` {'assigns' if store else 'reads'} `.{n.attr}` on every DATA item, but {c} (which the grammar can put there) has no {'setter' if store else 'such attribute'}: AttributeError",
                            file=VISITORS_REL,
                            line=n.lineno,
                        )


def _isinstance_guard(scope: ast.AST, node: ast.AST, var: str) -> Optional[List[str]]:
    """Classes K such that `node` is dominated by `if isinstance(var, K)` inside scope (innermost)."""
    res: Optional[List[str]] = None

    def rec(n, guard):
        nonlocal res
        if n is node:
            res = guard
            return True
        for f, val in ast.iter_fields(n):
            items = val if isinstance(val, list) else [val]
            for c in items:
                if not isinstance(c, ast.AST):
                    continue
                g = guard
                if isinstance(n, ast.If) and f == "body":
                    t = n.test
                    if isinstance(t, ast.Call) and isinstance(t.func, ast.Name) and t.func.id == "isinstance" and isinstance(t.args[0], ast.Name) and t.args[0].id == var:
                        g = [x.id for x in ([t.args[1]] if isinstance(t.args[1], ast.Name) else getattr(t.args[1], "elts", [])) if isinstance(x, ast.Name)]
                if rec(c, g):
                    return True
        return False

    rec(scope, None)
    return res
