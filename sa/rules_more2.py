"""Rules added after the first round of independently seeded faults:
E10b LIST-PROTOCOL, E10c DATA-REWRITE, D10 COMPLEMENTARY-GUARDS, D11 CARRIED-CONTEXT, D2b COUNT-BYTE, L8 HELPER-GUARDS."""

from __future__ import annotations

import ast
import re
from typing import Dict, FrozenSet, List, Optional, Set, Tuple

from .absint import Obj, Seq, Union, alts_of, interp
from .b09lib import LIB_REL, b09lib
from .core import AnalysisError, Ctx, IdiomNotFound, rule
from .decoders import DECODERS, decoderfacts
from .pyast import resolve_alias, ast_contains, call_name, names_loaded, pyfacts, unparse, walk_no_nested
from .rules_abs import rule_values, walk

VISITORS_REL = "coco/b09/visitors.py"

CALLBACK_CLASS = {
    "visit_data_statement": "BasicDataStatement",
    "visit_next_statement": "BasicNextStatement",
    "visit_read_statement": "BasicReadStatement",
    "visit_input_statement": "BasicInputStatement",
    "visit_print_statement": "BasicPrintStatement",
    "visit_for_statement": "BasicForStatement",
}


def _attr_chain(n: ast.AST) -> Optional[List[str]]:
    out: List[str] = []
    while isinstance(n, ast.Attribute):
        out.append(n.attr)
        n = n.value
    if isinstance(n, ast.Name):
        out.append(n.id)
        return list(reversed(out))
    return None


@rule("E10b", "LIST-PROTOCOL: every list a pass patches in place is built as a list (not a tuple / generator) by the parser", ["C15", "C03"], floor=2)
def e10b(ctx: Ctx):
    I = interp(ctx)
    py = pyfacts(ctx)
    vals = rule_values(ctx)
    seen: Set[str] = set()
    for cls in sorted(py.subclasses("BasicConstructVisitor")):
        ci = py.cls(cls)
        for mname, fn in ci.methods.items():
            target_cls = CALLBACK_CLASS.get(mname)
            if target_cls is None:
                continue
            param = fn.args.args[1].arg
            sites: List[Tuple[List[str], int, str]] = []
            for n in ast.walk(fn):
                if isinstance(n, (ast.Assign, ast.AugAssign)):
                    for t in n.targets if isinstance(n, ast.Assign) else [n.target]:
                        if isinstance(t, ast.Subscript):
                            ch = _attr_chain(resolve_alias(fn, t.value))
                            if ch and ch[0] == param:
                                sites.append((ch[1:], n.lineno, "item assignment"))
                if isinstance(n, ast.Call) and isinstance(n.func, ast.Attribute) and n.func.attr in ("append", "extend", "insert", "pop", "remove"):
                    ch = _attr_chain(resolve_alias(fn, n.func.value))
                    if ch and ch[0] == param:
                        sites.append((ch[1:], n.lineno, f".{n.func.attr}()"))
            for chain, line, how in sites:
                key = f"{cls}.{mname}:{'.'.join(chain)}"
                if key in seen:
                    continue
                seen.add(key)
                kinds: Set[str] = set()
                for r, v in vals.items():
                    for x, _ in walk(v):
                        if isinstance(x, Obj) and x.cls == target_cls:
                            cur = [x]
                            for a in chain:
                                nxt = []
                                for c in cur:
                                    for alt in alts_of(c):
                                        if isinstance(alt, Obj):
                                            nxt.extend(alts_of(I.getattr(alt, a, alt.cls)))
                                cur = nxt
                            for c in cur:
                                if isinstance(c, Seq):
                                    kinds.add(c.kind)
                if not kinds:
                    raise AnalysisError("E10b", key, f"no {target_cls} object with a list at `.{'.'.join(chain)}` is built by the grammar")
                bad = sorted(kinds - {"list"})
                ctx.ob(
                    key,
                    not bad,
                    "" if not bad else f"`{cls}.{mname}` patches `{param}.{'.'.join(chain)}` in place ({how}) but the parser builds it as a {bad[0]}: TypeError / AttributeError (an internal error) as soon as the pass has something to patch",
                    file=VISITORS_REL,
                    line=line,
                )


@rule("E10c", "DATA-REWRITE: when DATA items are turned into strings they carry the number's decimal text (what VAL can read back)", ["C03", "C20", "C15", "C12", "C07"], floor=1, default_props=["C03", "C20", "C15"])
def e10c(ctx: Ctx):
    py = pyfacts(ctx)
    fn = py.cls("BasicReadStatementPatcherVisitor").methods.get("visit_data_statement")
    ctx.need(fn is not None, "BasicReadStatementPatcherVisitor.visit_data_statement", "not found")
    sources = []
    for n in ast.walk(fn):
        if isinstance(n, ast.Assign) and any(isinstance(t, ast.Attribute) and t.attr == "literal" for t in n.targets):
            sources.append((n.value, n.lineno))
        if isinstance(n, ast.Call) and call_name(n) == "BasicLiteral" and n.args:
            sources.append((n.args[0], n.lineno))
    ctx.need(sources, "visit_data_statement", "no rewrite of a DATA item found")
    for i, (src, line) in enumerate(sources):
        src = resolve_alias(fn, src)
        inner = resolve_alias(fn, src.args[0]) if isinstance(src, ast.Call) and call_name(src) == "str" and len(src.args) == 1 else None
        ok = isinstance(inner, ast.Attribute) and inner.attr == "literal"
        ctx.ob(
            f"rewrite#{i + 1}",
            ok,
            "" if ok else f"a numeric DATA item is rewritten to the string `{unparse(src)}` instead of str(<item>.literal): the run-time filter applies VAL to it, and BASIC09 source text such as `float($FF)` is not a number VAL can read",
            file=VISITORS_REL,
            line=line,
            witness="" if ok else "10 DATA &HFF,,3",
            # str() of the item object itself is its default repr: it contains a memory address
            # ... and the item object passed as it is (no str()) is written through its repr, unquoted: an internal object in the text
            props=["C03", "C20", "C15", "C12", "C07"] if ((isinstance(src, ast.Call) and call_name(src) in ("str", "repr") and src.args and isinstance(inner, ast.Name)) or isinstance(src, ast.Name)) else None,
        )


# ---------------------------------------------------------------------------
# decoders


@rule("D10", "COMPLEMENTARY-GUARDS: two tests of one control value against one threshold leave no value unhandled", ["C16", "C17", "C19", "C18"], floor=1)
def d10(ctx: Ctx):
    """Decided on values: each test that mentions only one byte-valued variable is evaluated for 0..255; two tests of the
    same variable that are meant as complements (disjoint and covering all but at most two values, or covering everything
    and overlapping in at most two) must be exact complements."""
    from .decoders import IntEvalError, int_eval

    D = decoderfacts(ctx)
    n = 0
    for dec, rel in DECODERS.items():
        m = D.mods[dec]
        for fn in [x for x in ast.walk(m.tree) if isinstance(x, ast.FunctionDef)]:
            tests: Dict[str, List[Tuple[FrozenSet[int], ast.AST, int]]] = {}
            for node in walk_no_nested(fn):
                if isinstance(node, (ast.If, ast.IfExp, ast.While)):
                    t = node.test
                    vs = names_loaded(t)
                    if len(vs) != 1 or not any(isinstance(c, ast.Compare) for c in ast.walk(t)) or any(isinstance(c, ast.Call) for c in ast.walk(t)):
                        continue
                    var = next(iter(vs))
                    try:
                        sat = frozenset(v for v in range(256) if bool(int_eval(t, {var: v})))
                    except IntEvalError:
                        continue
                    if 0 < len(sat) < 256:
                        tests.setdefault(var, []).append((sat, t, node.lineno))
            for var, lst in sorted(tests.items()):
                for i in range(len(lst)):
                    for j in range(i + 1, len(lst)):
                        (s1, t1, l1), (s2, t2, l2) = lst[i], lst[j]
                        if s1 == s2:
                            continue
                        inter, miss = s1 & s2, frozenset(range(256)) - (s1 | s2)
                        near_complement = (not inter and len(miss) <= 2) or (not miss and len(inter) <= 2)
                        if not near_complement or min(len(s1), len(s2)) < 3:
                            continue
                        n += 1
                        ok = not inter and not miss
                        why = f"the value(s) {sorted(miss)} are handled by neither" if miss else f"the value(s) {sorted(inter)} are handled by both"
                        ctx.ob(
                            f"{dec}.{fn.name}:{var}~{min(max(s1), max(s2)) if ok else (sorted(miss or inter)[0])}",
                            ok,
                            "" if ok else f"`{var}` is tested with `{unparse(t1)}` (line {l1}) and `{unparse(t2)}` (line {l2}): {why}, so a control byte with that value desynchronises the decoder from the stream",
                            file=rel,
                            line=l1,
                        )
    ctx.need(n >= 1, "decoders", "no pair of complementary tests on one control value found (expected CM3's line-control byte)")


@rule("D11", "CARRIED-CONTEXT: a buffer whose previous contents the decompressor reads is not re-initialised inside the loops that carry it", ["C17"], floor=1)
def d11(ctx: Ctx):
    D = decoderfacts(ctx)
    n = 0
    for dec in ("cm3toppm", "mgetoppm", "rattoppm", "veftopng"):
        rel = DECODERS[dec]
        m = D.mods[dec]
        for fn in [x for x in ast.walk(m.tree) if isinstance(x, ast.FunctionDef)]:
            parents = {id(c): p for p in ast.walk(fn) for c in ast.iter_child_nodes(p)}

            def loops_of(node):
                out = []
                x = parents.get(id(node))
                while x is not None and x is not fn:
                    if isinstance(x, (ast.For, ast.While)):
                        out.append(x)
                    x = parents.get(id(x))
                return out

            inits = [s for s in ast.walk(fn) if isinstance(s, ast.Assign) and isinstance(s.targets[0], ast.Name) and isinstance(s.value, ast.BinOp) and isinstance(s.value.op, ast.Mult) and isinstance(s.value.left, ast.List)]
            for init in inits:
                var = init.targets[0].id
                reads = [s for s in ast.walk(fn) if isinstance(s, ast.Subscript) and isinstance(s.value, ast.Name) and s.value.id == var and isinstance(s.ctx, ast.Load)]
                writes = [s for s in ast.walk(fn) if isinstance(s, ast.Subscript) and isinstance(s.value, ast.Name) and s.value.id == var and isinstance(s.ctx, ast.Store)]
                if not reads or not writes:
                    continue
                # carried: some read precedes (textually) the element write inside a common loop
                carried_loops = []
                for r in reads:
                    for w in writes:
                        common = [l for l in loops_of(r) if l in loops_of(w)]
                        if common and (r.lineno, r.col_offset) < (w.lineno, w.col_offset):
                            carried_loops.extend(loops_of(r))
                if not carried_loops:
                    continue
                n += 1
                inside = [l for l in loops_of(init)]
                ok = not inside
                ctx.ob(
                    f"{dec}.{fn.name}:{var}",
                    ok,
                    "" if ok else f"`{var}` carries the previous line's bytes from one iteration to the next (it is read before it is written), but it is re-initialised inside the loop at line {inside[-1].lineno}: the context is lost at every page boundary and `same as the byte above/before` codes decode to 0 there",
                    file=rel,
                    line=init.lineno,
                )
                # the context is refreshed for every byte decoded, whatever its coding
                w0 = writes[0]
                wl = loops_of(w0)
                if wl:
                    inner = wl[0]

                    def must_store(stmts) -> bool:
                        for st in stmts:
                            if isinstance(st, ast.Assign) and any(t is w for t in st.targets for w in writes):
                                return True
                            if isinstance(st, ast.If) and st.orelse and must_store(st.body) and must_store(st.orelse):
                                return True
                        return False

                    oku = must_store(inner.body)
                    ctx.ob(
                        f"{dec}.{fn.name}:{var}:updated",
                        oku,
                        "" if oku else f"`{var}[...]` is not stored on every path through the loop at line {inner.lineno}: bytes decoded on the other path (e.g. a raw line) never reach the context, so a later `same as above / before` code copies stale data",
                        file=rel,
                        line=w0.lineno,
                    )
                    widx = unparse(w0.slice)
                    from .decoders import IntEvalError as _IEE, int_eval as _ie

                    modc: Dict[str, int] = {}
                    for _round in range(3):  # constants defined from earlier constants (`BYTES_PER_LINE = COLS // 2`)
                        for k_, v_ in m.assigns.items():
                            if k_ not in modc:
                                try:
                                    x_ = _ie(v_, modc)
                                except (_IEE, Exception):
                                    continue
                                if isinstance(x_, int) and not isinstance(x_, bool):
                                    modc[k_] = x_

                    def cval(e_):
                        """integer value of a constant expression (named module-level constants included), else None"""
                        try:
                            v_ = _ie(e_, modc)
                        except _IEE:
                            return None
                        return v_ if isinstance(v_, int) and not isinstance(v_, bool) else None

                    size = cval(init.value.right)
                    for r in reads:
                        if unparse(r.slice) == widx or inner not in loops_of(r):
                            continue
                        sl = r.slice
                        okw = (
                            isinstance(sl, ast.BinOp)
                            and isinstance(sl.op, ast.Mod)
                            and size is not None
                            and cval(sl.right) == size
                            and isinstance(sl.left, ast.BinOp)
                            and isinstance(sl.left.op, ast.Sub)
                            and unparse(sl.left.left) == widx
                            and isinstance(sl.left.right, ast.Constant)
                            and sl.left.right.value == 1
                        )
                        if not okw and isinstance(sl, ast.BinOp) and isinstance(sl.op, ast.Sub) and unparse(sl.left) == widx and isinstance(sl.right, ast.Constant) and sl.right.value == 1:
                            # `buf[x - 1]`: at x = 0 Python's index -1 is the last element - the same cyclic neighbour,
                            # provided x runs over exactly the buffer (0 .. size-1)
                            lp_ = next((l for l in loops_of(r) if isinstance(l, ast.For) and isinstance(l.target, ast.Name) and l.target.id == widx), None)
                            okw = lp_ is not None and size is not None and isinstance(lp_.iter, ast.Call) and call_name(lp_.iter) == "range" and len(lp_.iter.args) == 1 and cval(lp_.iter.args[0]) == size
                            if not okw and size is not None:
                                # ... or a hand-kept counter: set to 0 in front of a loop of exactly `size` rounds, stepped by one once per round
                                for l in loops_of(r):
                                    if not (isinstance(l, ast.For) and isinstance(l.iter, ast.Call) and call_name(l.iter) == "range" and len(l.iter.args) == 1 and cval(l.iter.args[0]) == size):
                                        continue
                                    steps = [b_ for b_ in l.body if (isinstance(b_, ast.AugAssign) and isinstance(b_.target, ast.Name) and b_.target.id == widx and isinstance(b_.op, ast.Add) and cval(b_.value) == 1) or (isinstance(b_, ast.Assign) and isinstance(b_.targets[0], ast.Name) and b_.targets[0].id == widx and isinstance(b_.value, ast.BinOp) and isinstance(b_.value.op, ast.Add) and unparse(b_.value.left) == widx and cval(b_.value.right) == 1)]
                                    other = [b_ for b_ in ast.walk(l) if isinstance(b_, (ast.Assign, ast.AugAssign)) and any(isinstance(t_, ast.Name) and t_.id == widx for t_ in (b_.targets if isinstance(b_, ast.Assign) else [b_.target])) and b_ not in steps]
                                    holder = next((p_ for p_ in ast.walk(fn) if any(l is c_ for c_ in getattr(p_, "body", []) if isinstance(getattr(p_, "body", None), list))), None)
                                    init0 = False
                                    if holder is not None:
                                        before = holder.body[: holder.body.index(l)]
                                        for b_ in reversed(before):
                                            if isinstance(b_, ast.Assign) and any(isinstance(t_, ast.Name) and t_.id == widx for t_ in b_.targets):
                                                init0 = cval(b_.value) == 0
                                                break
                                            if any(isinstance(t_, ast.Name) and t_.id == widx and isinstance(t_.ctx, ast.Store) for t_ in ast.walk(b_)):
                                                break
                                    if len(steps) == 1 and not other and init0:
                                        okw = True
                        ctx.ob(
                            f"{dec}.{fn.name}:{var}:previous",
                            okw,
                            "" if okw else f"the `previous byte` of the context is read as `{var}[{unparse(sl)}]`; the format copies the byte before the current one *cyclically* (`({widx} - 1) % {size}`): in column 0 it is the last byte of the line above",
                            file=rel,
                            line=r.lineno,
                        )
    ctx.need(n >= 1, "decoders", "no loop-carried decompression buffer found (expected CM3's line buffer)")


@rule("D2b", "COUNT-BYTE: a run/repeat count read from the file keeps all eight bits", ["C17", "C19"], floor=2)
def d2b(ctx: Ctx):
    D = decoderfacts(ctx)
    n = 0
    for dec in ("mgetoppm", "rattoppm", "cm3toppm", "veftopng"):
        rel = DECODERS[dec]
        m = D.mods[dec]
        for fn in [x for x in ast.walk(m.tree) if isinstance(x, ast.FunctionDef)]:
            # variables used as a trip count: range(v) / while v > 0
            counts: Set[str] = set()
            for node in ast.walk(fn):
                if isinstance(node, ast.For) and isinstance(node.iter, ast.Call) and call_name(node.iter) == "range" and len(node.iter.args) == 1 and isinstance(node.iter.args[0], ast.Name):
                    counts.add(node.iter.args[0].id)
            for node in ast.walk(fn):
                if isinstance(node, ast.Assign) and isinstance(node.targets[0], ast.Name) and node.targets[0].id in counts:
                    v = node.value
                    from_file = any(isinstance(c, ast.Call) and call_name(c) == "read" for c in ast.walk(v)) or (isinstance(v, ast.Subscript) and isinstance(v.value, ast.Name) and v.value.id == "data")
                    if not from_file:
                        continue
                    n += 1
                    masks = [b for b in ast.walk(v) if isinstance(b, ast.BinOp) and isinstance(b.op, (ast.BitAnd, ast.RShift, ast.Mod))]
                    bad = None
                    for b in masks:
                        if isinstance(b.op, ast.BitAnd) and isinstance(b.right, ast.Constant) and b.right.value == 0xFF:
                            continue
                        bad = unparse(b)
                    ctx.ob(
                        f"{dec}.{fn.name}:{node.targets[0].id}",
                        bad is None,
                        "" if bad is None else f"the repeat count `{node.targets[0].id}` is read as `{unparse(v)}`: bits of the count byte are discarded, so runs of 128 bytes or more decode short (and a count of 128 reads as the terminator)",
                        file=rel,
                        line=node.lineno,
                    )
    ctx.need(n >= 2, "decoders", f"only {n} file-driven repeat counts found")


# ---------------------------------------------------------------------------
# L8 HELPER-GUARDS (C20, idiom rule)


def _norm(s: str) -> str:
    return re.sub(r"\s+", "", s.lower())


def _unparen(t: str) -> str:
    """Drop parentheses that enclose the whole expression (a propagated temporary is substituted in parentheses)."""
    while t.startswith("(") and t.endswith(")"):
        depth = 0
        for i, ch in enumerate(t):
            depth += ch == "("
            depth -= ch == ")"
            if depth == 0 and i < len(t) - 1:
                return t
        t = t[1:-1]
    return t


def _propagated(L, p) -> List[str]:
    """Normalised statement texts with single-assignment locals replaced by their defining expression
    (`istart = fix(index)` ... `to istart` reads as `to fix(index)`): the shape rules below look through temporaries."""
    stmts = list(L.all_stmts(p))
    params = {x[0] for x in p.params}
    counts: Dict[str, int] = {}
    for s_ in stmts:
        if s_.kind in ("assign", "read") and s_.target:
            counts[s_.target] = counts.get(s_.target, 0) + 1
        if s_.kind == "for":
            m_ = re.match(r"(?i)\s*for\s+(\w+)", s_.text)
            if m_:
                counts[m_.group(1).lower()] = counts.get(m_.group(1).lower(), 0) + 2
        if s_.kind == "run":
            for a_ in s_.run_args:
                if re.fullmatch(r"\s*[A-Za-z_]\w*\$?\s*", a_):
                    counts[a_.strip().lower()] = counts.get(a_.strip().lower(), 0) + 2  # may be written by the callee
    defs: Dict[str, str] = {}
    out: List[str] = []
    top = set(id(s_) for s_ in p.stmts)

    def subst(text: str) -> str:
        for name, rhs in defs.items():
            text = re.sub(rf"(?i)(?<![\w$.]){re.escape(name)}(?![\w$(])", lambda _m: rhs, text)
        return text

    for s_ in stmts:
        out.append(_norm(subst(s_.text)))
        if s_.kind == "assign" and id(s_) in top and s_.target not in params and counts.get(s_.target) == 1 and s_.target in p.vars:
            m_ = re.match(r"(?is)^[^=]*?:?=(.*)$", s_.text)
            if m_:
                rhs = subst(m_.group(1).strip())
                simple = re.fullmatch(r"[\w$.]+|[\w$]+\([^()]*(\([^()]*\)[^()]*)*\)", rhs) is not None
                defs[s_.target] = rhs if simple else f"({rhs})"
    return out


@rule("L8", "HELPER-GUARDS: ecb_string rejects only negative counts / an empty pattern, starts from the empty string and appends `count` times the first character", ["C20", "C03", "C01"], floor=3, soft=True)
def l8(ctx: Ctx):
    L = b09lib(ctx)
    if "ecb_string" not in L.procs:
        raise IdiomNotFound("ecb_string not found")
    p = L.procs["ecb_string"]
    if len(p.params) != 3:
        raise IdiomNotFound("ecb_string(count, str, strout) signature not recognised")
    count, src, out = (x[0] for x in p.params)
    stmts = [s for s in L.all_stmts(p)]
    texts = _propagated(L, p)
    # guard
    g = next((s for s in stmts if s.kind == "if" and "error" in " ".join(_norm(x.text) for x in stmts[stmts.index(s) : stmts.index(s) + 3])), None)
    if g is None:
        raise IdiomNotFound("error guard not recognised")
    m = re.match(rf"if{re.escape(count)}(<=|<|=<)(-?\d+)orlen\({re.escape(src)}\)=0then", _norm(g.text))
    if m is None:
        raise IdiomNotFound(f"guard `{g.text.strip()}` not of the form `if <count> < k or len(<str>) = 0 then`")
    op, k = m.group(1), int(m.group(2))
    rejected = {c for c in (-1, 0, 1) if (c < k if op == "<" else c <= k)}
    ok = rejected == {-1}
    ctx.ob(
        "ecb_string:guard",
        ok,
        "" if ok else f"`{g.text.strip()}` rejects the counts {sorted(rejected)} of (-1, 0, 1): Color BASIC's STRING$ accepts every count from 0 to 255 (STRING$(0, x) is the empty string) and refuses only negative ones",
        file=LIB_REL,
        line=g.line,
        witness="" if ok else "STRING$(0,\"A\")",
    )
    # result starts empty, loop runs 1..count, appends the first character of the pattern
    init = f'{out}=""' in texts or f'{out}:=""' in texts
    ctx.ob("ecb_string:starts-empty", init, "" if init else f"`{out}` is not reset to the empty string before the loop: the caller's previous value is prepended", file=LIB_REL, line=p.line)
    lp = next((t for t in texts if re.match(rf"for\w+=(\d+)to(.+)$", t)), None)
    if lp is None:
        raise IdiomNotFound("FOR loop not recognised")
    mm = re.match(rf"for(\w+)=(\d+)to(.+)$", lp)
    okl = mm.group(2) == "1" and mm.group(3) in (count, f"fix({count})", f"int({count})")
    ctx.ob("ecb_string:loop-bounds", okl, "" if okl else f"the repeat loop runs `{lp}`: not exactly `count` iterations", file=LIB_REL, line=p.line)
    app = any(re.fullmatch(rf"{re.escape(out)}:?={re.escape(out)}\+mid\$\({re.escape(src)},1,1\)", t) or re.fullmatch(rf"{re.escape(out)}:?={re.escape(out)}\+left\$\({re.escape(src)},1\)", t) for t in texts)
    ctx.ob("ecb_string:appends-first-char", app, "" if app else "the loop body does not append the first character of the pattern string", file=LIB_REL, line=p.line)
    # ecb_instr / read filter shape facts that are decidable from text: covered by L7


@rule("L8b", "INSTR-SHAPE: ecb_instr starts from 0, scans every position from the start index to the last possible one, compares LEN(pattern) characters and keeps the first match", ["C20", "C03", "C01"], floor=4, soft=True)
def l8b(ctx: Ctx):
    L = b09lib(ctx)
    if "ecb_instr" not in L.procs:
        raise IdiomNotFound("ecb_instr not found")
    p = L.procs["ecb_instr"]
    if len(p.params) != 4:
        raise IdiomNotFound("ecb_instr(index, str0, str1, outindex) signature not recognised")
    idx, hay, pat, out = (re.escape(x[0]) for x in p.params)
    stmts = list(L.all_stmts(p))
    texts = _propagated(L, p)
    fi = next((i for i, t in enumerate(texts) if t.startswith("for")), None)
    if fi is None:
        raise IdiomNotFound("FOR loop not recognised")
    m = re.fullmatch(r"for(\w+)=(.+?)to(.+?)(?:step(-?\d+))?", texts[fi])
    if m is None:
        raise IdiomNotFound(f"`{stmts[fi].text.strip()}` not of the form FOR v = a TO b [STEP k]")
    v, a, b, step = m.group(1), _unparen(m.group(2)), _unparen(m.group(3)), int(m.group(4) or 1)
    init = any(re.fullmatch(rf"{out}:?=0(\.0*)?", t) for t in texts[:fi])
    ctx.ob("ecb_instr:starts-at-0", init, "" if init else f"the result is not set to 0 before the scan: when the pattern does not occur the caller's temporary keeps its previous value (Color BASIC returns 0)", file=LIB_REL, line=p.line, witness="" if init else 'INSTR(1,"ABC","Z")')
    first = rf"(fix|int)\({idx}\)|{idx}"
    last = rf"len\({hay}\)-len\({pat}\)\+1|len\({hay}\)\+1-len\({pat}\)|1\+len\({hay}\)-len\({pat}\)"
    asc = step > 0 and re.fullmatch(first, a) and re.fullmatch(last, b)
    desc = step == -1 and re.fullmatch(last, a) and re.fullmatch(first, b)
    okb = bool(asc or desc)
    ctx.ob("ecb_instr:bounds", okb, "" if okb else f"the scan `{stmts[fi].text.strip()}` does not cover exactly the positions start .. LEN(str0) - LEN(str1) + 1: a match at the very end is missed (or positions before the start index are searched)", file=LIB_REL, line=stmts[fi].line, witness="" if okb else 'INSTR(1,"ABC","C")')
    ci = next((i for i, t in enumerate(texts) if i > fi and t.startswith("if") and "mid$" in t), None)
    if ci is None:
        raise IdiomNotFound("comparison with MID$ not recognised")
    win = rf"mid\$\({hay},{v},len\({pat}\)\)"
    okw = re.fullmatch(rf"if(?:{pat}={win}|{win}={pat})then", texts[ci]) is not None
    ctx.ob("ecb_instr:window", okw, "" if okw else f"`{stmts[ci].text.strip()}` does not compare the pattern with exactly LEN(pattern) characters at the candidate position", file=LIB_REL, line=stmts[ci].line, witness="" if okw else 'INSTR(1,"ABCD","BC")')
    # the result is only ever 0 (no match) or a scanned position: any other store short-cuts the scan
    others = [(stmts[i].line, stmts[i].text.strip()) for i, t in enumerate(texts) if re.match(rf"{out}:?=", t) and not re.fullmatch(rf"{out}:?=0(\.0*)?", t) and not re.fullmatch(rf"{out}:?={v}", t)]
    ctx.ob("ecb_instr:result-is-position", not others, "" if not others else f"`{others[0][1]}` (line {others[0][0]}) gives INSTR a result that is neither 0 nor a position found by the scan: the start index / the comparison is bypassed for some operands", file=LIB_REL, line=others[0][0] if others else p.line, witness="" if not others else 'INSTR(2,"AB","AB")')
    asg = next((i for i, t in enumerate(texts) if i > ci and re.fullmatch(rf"{out}:?={v}", t)), None)
    oka = asg is not None
    ctx.ob("ecb_instr:records-position", oka, "" if oka else "a match does not store the candidate position in the result", file=LIB_REL, line=stmts[ci].line)
    # first match: scanning downwards the smallest position is stored last; scanning upwards the scan must stop at a match
    stops = any(re.fullmatch(r"end|exitif.*|goto\d+", t) for t in texts[ci : (texts.index("endif", ci) if "endif" in texts[ci:] else len(texts))])
    okf = bool(desc) or (bool(asc) and stops) or not okb
    ctx.ob("ecb_instr:first-match", okf, "" if okf else "the scan runs upwards and goes on after a match: the last occurrence is returned, not the first", file=LIB_REL, line=stmts[fi].line, witness="" if okf else 'INSTR(1,"ABAB","AB")')


@rule("L8c", "INT-SHAPE: ecb_int truncates non-negative arguments and, for negative ones, truncates after subtracting a constant just below 1 (floor, as Color BASIC's INT)", ["C01", "C03"], floor=3, soft=True)
def l8c(ctx: Ctx):
    L = b09lib(ctx)
    if "ecb_int" not in L.procs:
        raise IdiomNotFound("ecb_int not found")
    p = L.procs["ecb_int"]
    if len(p.params) != 2:
        raise IdiomNotFound("ecb_int(v, retval) signature not recognised")
    v, out = (re.escape(x[0]) for x in p.params)
    stmts = list(L.all_stmts(p))
    texts = _propagated(L, p)
    gi = next((i for i, t in enumerate(texts) if re.fullmatch(rf"if{v}(>=|>)0(\.0*)?then", t)), None)
    if gi is None or "else" not in texts[gi:]:
        raise IdiomNotFound("`if v >= 0 then ... else ...` not recognised")
    ei = texts.index("else", gi)
    pos = [t for t in texts[gi + 1 : ei] if t.startswith(p.params[1][0])]
    neg = [t for t in texts[ei + 1 :] if t.startswith(p.params[1][0])]
    okp = len(pos) == 1 and re.fullmatch(rf"{out}:?=(int|fix)\({v}\)", pos[0]) is not None
    ctx.ob("ecb_int:non-negative", okp, "" if okp else f"for v >= 0 the result is `{pos}`, not INT(v)", file=LIB_REL, line=stmts[gi].line)
    m = re.fullmatch(rf"{out}:?=(?:int|fix)\({v}-(\d*\.?\d+)\)", neg[0]) if len(neg) == 1 else None
    if m is None:
        raise IdiomNotFound(f"negative branch `{neg}` not of the form retval = int(v - c)")
    c = float(m.group(1))
    okn = 0.9 <= c < 1.0
    ctx.ob(
        "ecb_int:negative",
        okn,
        "" if okn else f"for v < 0 the result is INT(v - {m.group(1)}): BASIC09's INT truncates toward zero, so the constant has to stay below 1 (and close to it) - with {m.group(1)} a negative whole number comes out one too small (INT(-3) = -4), respectively negative fractions are not rounded down",
        file=LIB_REL,
        line=stmts[ei].line,
        witness="" if okn else "10 A=INT(-3)",
    )
    okg = re.fullmatch(rf"if{v}>=0(\.0*)?then", texts[gi]) is not None
    ctx.ob("ecb_int:guard", okg, "" if okg else "zero is sent down the negative branch", file=LIB_REL, line=stmts[gi].line)


@rule("E10d", "READ-FILTER-TOTAL: once DATA items are turned into strings, every numeric READ target - variable or array element alike - goes through the run-time filter", ["C20", "C03", "C14"], floor=2, soft=True)
def e10d(ctx: Ctx):
    py = pyfacts(ctx)
    ci = py.cls("BasicReadStatementPatcherVisitor")
    rd = ci.methods.get("visit_read_statement")
    dt = ci.methods.get("visit_data_statement")
    if rd is None or dt is None:
        raise IdiomNotFound("READ patcher methods not found")
    comps = [c for c in ast.walk(rd) if isinstance(c, (ast.DictComp, ast.ListComp, ast.SetComp, ast.GeneratorExp)) and any(isinstance(x, ast.Call) and call_name(x) == "get_new_temp" for x in ast.walk(c))]
    if len(comps) != 1 or len(comps[0].generators) != 1:
        raise IdiomNotFound("the comprehension that gives numeric READ targets a string temporary was not recognised")
    g = comps[0].generators[0]
    tv = g.target.id if isinstance(g.target, ast.Name) else None
    if tv is None:
        raise IdiomNotFound("comprehension target not a name")
    conds = [unparse(t).replace(" ", "") for t in g.ifs]
    ok = conds in ([f"not{tv}.is_str_expr"], [f"{tv}.is_str_expr==False"], [f"{tv}.is_str_expr!=True"], [f"{tv}.is_str_expr is False".replace(" ", "")])
    ctx.ob(
        "read-targets:selection",
        ok,
        "" if ok else f"READ targets are filtered under `{' and '.join(unparse(t) for t in g.ifs)}`; visit_data_statement turns every numeric DATA item into a string, so *every* target that is not a string (scalar or array element) has to read into a string temporary and go through ecb_read_filter - the others read a string item straight into a REAL and an empty item is no longer 0",
        file=VISITORS_REL,
        line=comps[0].lineno,
        witness="" if ok else "10 DIM A(3):READ A(1),B:DATA ,5",
    )
    it_ = resolve_alias(rd, g.iter)
    oki = unparse(it_).endswith(".rhs_list")
    ctx.ob("read-targets:all", oki, "" if oki else f"the selection runs over `{unparse(it_)}`, not over all targets of the READ", file=VISITORS_REL, line=comps[0].lineno)
    # the DATA side is unconditional on the item's class: both kinds of non-string item are rewritten
    tests = [n for n in ast.walk(dt) if isinstance(n, ast.If)]
    outer = next((t for t in tests if "isinstance" in unparse(t.test) and "literal" in unparse(t.test) and "str" in unparse(t.test)), None)
    okd = outer is not None and bool(outer.body) and all(any(isinstance(x, (ast.Assign,)) for x in ast.walk(s_)) for s_ in outer.body)
    ctx.ob("data-items:all-rewritten", okd, "" if okd else "visit_data_statement no longer rewrites every non-string DATA item", file=VISITORS_REL, line=dt.lineno)
    # ... in every DATA statement: the switch is per program (one empty item anywhere turns every numeric READ into a
    # filtered string READ), so no DATA statement may be left as it is because of what *it* contains
    loops = [n for n in dt.body if isinstance(n, ast.For)] or [n for n in ast.walk(dt) if isinstance(n, ast.For)]
    if loops:
        lp = loops[0]
        par = dt.args.args[1].arg if len(dt.args.args) > 1 else None
        early = [n for n in ast.walk(dt) if isinstance(n, (ast.Return, ast.Raise)) and n.lineno < lp.lineno]
        guards = []
        parents_ = {id(c): p_ for p_ in ast.walk(dt) for c in ast.iter_child_nodes(p_)}
        g_ = parents_.get(id(lp))
        while g_ is not None and g_ is not dt:
            if isinstance(g_, ast.If) and par in names_loaded(g_.test):
                guards.append(g_)
            g_ = parents_.get(id(g_))
        oke = not early and not guards
        what = f"returns early at line {early[0].lineno}" if early else (f"rewrites only when `{unparse(guards[0].test)}`" if guards else "")
        ctx.ob(
            "data-items:every-statement",
            oke,
            "" if oke else f"visit_data_statement {what}: a DATA statement that is left numeric is still read through string temporaries and the run-time filter (the READ side is switched per program), so its numbers never arrive",
            file=VISITORS_REL,
            line=(early[0].lineno if early else guards[0].lineno) if not oke else dt.lineno,
            witness="" if oke else "10 READ A,B$,C / 20 DATA 1,,3 / 30 READ D / 40 DATA 4.5",
            props=["C20", "C03"],
        )
