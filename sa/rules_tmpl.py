"""Template rules on the emitted text of every statement built by the grammar: E3 SKELETON, E4 EMIT-ALL, E7 DIM-ARITHMETIC."""

from __future__ import annotations

import ast
import re
from typing import Any, Dict, List, Optional, Set, Tuple

from .absint import Const, NumV, Obj, Operand, Seq, StrV, Tmpl, Union, Unknown, V, alts_of, interp
from .core import AnalysisError, Ctx, rule
from .pyast import ast_contains, call_name, names_loaded, pyfacts, unparse, walk_no_nested
from .rules_abs import _renderings, rule_values, walk

ELEMENTS_REL = "coco/b09/elements.py"


def statement_templates(ctx: Ctx):
    """[(rule, Obj, [rendering parts lists])] for every statement object a grammar rule builds at top level."""

    def build(c):
        I = interp(c)
        py = pyfacts(c)
        vals = rule_values(c)
        out = []
        for r, v in sorted(vals.items()):
            for a in alts_of(v):
                if isinstance(a, Obj) and a.cls in py.classes and py.is_subclass(a.cls, "AbstractBasicConstruct"):
                    rm = py.resolve_method(a.cls, "basic09_text")
                    if rm is None:
                        continue
                    target = a
                    if py.is_subclass(a.cls, "BasicFunctionalExpression"):
                        # its operands are printed by the hoisted call: model the hoisting entry point
                        sv = py.resolve_method(a.cls, "set_var")
                        if sv is not None:
                            tmp = I.construct("BasicVar", [Const("tmp_1")], {}, 0, "BasicVar")
                            I.call_function(sv[1], [a, tmp], self_obj=a, owner=sv[0].name)
                            # the call it built: through the `statement` property (however the class stores it)
                            st = I.getattr(a, "statement", a.cls) if py.resolve_property(a.cls, "statement") is not None else a.fields.get("_statement")
                            if isinstance(st, Obj):
                                target = st
                                rm = py.resolve_method(st.cls, "basic09_text")
                    t = I.call_function(rm[1], [target, Const(0)], self_obj=target, owner=rm[0].name)
                    rends: List[List[Any]] = []
                    for alt in alts_of(t):
                        rends.extend(_renderings(alt, cap=64))
                    out.append((r, a, rends, rm))
        return out

    return ctx.engine("statement_templates", build)


def _lit_text(parts: List[Any]) -> str:
    """Literal skeleton of a rendering: holes become ␣⟦⟧␣ markers."""
    s = ""
    for p in parts:
        if isinstance(p, str):
            s += p
        elif isinstance(p, tuple) and p and p[0] == "join":
            s += " ⟦*⟧ "
        else:
            s += " ⟦⟧ "
    return s


TOKEN = re.compile(r"(?i)\b(ENDIF|ENDLOOP|ENDEXIT|EXITIF|LOOP|IF|THEN|ELSE)\b|\(\*|\*\)|\n")


def _check_skeleton(text: str) -> Optional[str]:
    """Block structure of one rendering; None if well formed."""
    stack: List[str] = []
    toks = [(m.group(0).upper(), m.start()) for m in TOKEN.finditer(text)]
    i = 0
    in_comment = False
    while i < len(toks):
        t, pos = toks[i]
        if t == "(*":
            in_comment = True
        elif t == "*)":
            if not in_comment:
                return "`*)` without `(*`"
            in_comment = False
        elif in_comment:
            pass
        elif t == "IF":
            # find its THEN; block form iff THEN is followed by a newline before anything else
            j = i + 1
            while j < len(toks) and toks[j][0] != "THEN":
                if toks[j][0] in ("IF", "ENDIF", "ELSE", "LOOP", "ENDLOOP", "\n"):
                    return "IF without THEN on the same line"
                j += 1
            if j >= len(toks):
                return "IF without THEN"
            after = text[toks[j][1] + 4 :]
            if re.match(r"[ \t]*\n", after):
                stack.append("IF")
            i = j
        elif t == "EXITIF":
            j = i + 1
            while j < len(toks) and toks[j][0] != "THEN":
                j += 1
            if j >= len(toks):
                return "EXITIF without THEN"
            if not stack or stack[-1] != "LOOP":
                return "EXITIF outside LOOP"
            stack.append("EXITIF")
            i = j
        elif t == "LOOP":
            stack.append("LOOP")
        elif t == "ELSE":
            if not stack or stack[-1] != "IF":
                return "ELSE without an open block IF"
        elif t == "ENDIF":
            if not stack or stack.pop() != "IF":
                return "ENDIF without an open IF"
        elif t == "ENDEXIT":
            if not stack or stack.pop() != "EXITIF":
                return "ENDEXIT without EXITIF"
        elif t == "ENDLOOP":
            if not stack or stack.pop() != "LOOP":
                return "ENDLOOP without LOOP"
        i += 1
    if in_comment:
        return "unclosed `(*`"
    if stack:
        return f"unclosed {stack[-1]}"
    return None


@rule("E3", "TEMPLATE-SKELETON: block keywords of every emitted statement are balanced; every emitted LOOP has an unconditional exit", ["C07", "C02"], floor=40)
def e3(ctx: Ctx):
    seen: Set[str] = set()
    for r, obj, rends, rm in statement_templates(ctx):
        key = f"{obj.cls}@{r}"
        if key in seen:
            continue
        seen.add(key)
        if not rends:
            raise AnalysisError("E3", key, "no template could be derived")
        bad = None
        loop_no_exit = False
        for parts in rends:
            text = _lit_text(parts)
            why = _check_skeleton(text)
            if why and bad is None:
                bad = (why, text)
            if re.search(r"(?i)\bLOOP\b", text) and not re.search(r"(?i)\bEXITIF\s+TRUE\s+THEN\b", text):
                loop_no_exit = True
        ctx.ob(
            key,
            bad is None,
            "" if bad is None else f"emitted text of {obj.cls} (rule `{r}`) is not block-balanced: {bad[0]} in `{bad[1][:160]!r}`",
            file=rm[0].module,
            line=rm[1].lineno,
            props=["C07", "C02"],
        )
        if any(re.search(r"(?i)\bLOOP\b", _lit_text(p)) for p in rends):
            k2 = f"{obj.cls}.loop-no-exit"
            if k2 not in seen:
                seen.add(k2)
                ctx.ob(
                    k2,
                    not loop_no_exit,
                    "" if not loop_no_exit else f"{obj.cls} emits LOOP/EXITIF../ENDLOOP without an `EXITIF TRUE THEN` arm when there is no final ELSE: if no arm matches the emitted loop never ends, while Color BASIC falls through to the next line",
                    file=rm[0].module,
                    line=rm[1].lineno,
                    props=["C02", "C07"],
                    witness="" if not loop_no_exit else "10 IF A=1 THEN B=1 ELSE IF A=2 THEN B=2  (with A=3)",
                )


def _holes(parts: List[Any]) -> List[Tuple[int, ...]]:
    out: List[Tuple[int, ...]] = []

    def rec(x):
        if isinstance(x, Operand):
            out.append(x.path)
        elif isinstance(x, Tmpl):
            for p in x.parts:
                rec(p)
        elif isinstance(x, Union):
            for a in x.alts:
                rec(a)
        elif isinstance(x, tuple) and x and x[0] == "join":
            rec(x[2])
        elif isinstance(x, list):
            for p in x:
                rec(p)

    rec(parts)
    return out


# operands a class may hold without printing them: (class) -> reason
E4_EXCEPTIONS = {
    "BasicPoke": "the two speed-poke forms print `play.octo := 0/1` and drop the value operand by design",
}


@rule("E4", "EMIT-ALL: every source operand a statement object holds appears in its emitted text, in source order", ["C02", "C07", "C05"], floor=40)
def e4(ctx: Ctx):
    I = interp(ctx)
    py = pyfacts(ctx)
    seen: Set[str] = set()
    for r, obj, rends, rm in statement_templates(ctx):
        key = f"{obj.cls}@{r}"
        if key in seen:
            continue
        seen.add(key)
        held: List[Tuple[int, ...]] = []
        for x, _ in walk(obj):
            if isinstance(x, Operand) and x.path not in held:
                held.append(x.path)
        if not held:
            continue
        printed: Set[Tuple[int, ...]] = set()
        order_bad = None
        for parts in rends:
            hs = _holes(parts)
            printed |= set(hs)
            firsts: List[Tuple[int, ...]] = []
            for h in hs:
                if h not in firsts:
                    firsts.append(h)
            if firsts != sorted(firsts) and order_bad is None:
                order_bad = firsts
        missing = [h for h in held if not any(q[: len(h)] == h for q in printed)]
        if missing and obj.cls in E4_EXCEPTIONS:
            missing = []
        if missing:
            # is part of the text produced by code the interpreter does not model (generator, unknown call)?  then the
            # operand may well be printed there: no verdict
            from .absint import Unknown as _Unk

            from .absint import StrV as _StrV

            def _opaque(p_) -> bool:
                return isinstance(p_, _Unk) or (isinstance(p_, _StrV) and p_.lits is None and getattr(p_, "node", None) is None) or (isinstance(p_, tuple) and any(_opaque(q_) for q_ in p_))

            opaque = [p_ for parts in rends for p_ in parts if _opaque(p_)]
            if opaque or not rends or I.unknowns:
                ctx.errors.append(AnalysisError("E4", key, f"part of the emitted text comes out of code the interpreter does not model ({opaque[0] if opaque else 'no rendering'})"))
                continue
        ctx.ob(
            key,
            not missing,
            "" if not missing else f"{obj.cls} built by `{r}` holds the source operand(s) at grammar position(s) {['.'.join(map(str, m)) for m in missing]} but no form of its emitted text prints them: the operand is silently dropped",
            file=rm[0].module,
            line=rm[1].lineno,
            facts={"operands": len(held)},
        )
        if order_bad is not None and obj.cls not in ("BasicPrintStatement", "BasicProg"):
            ctx.ob(
                key + ":order",
                False,
                f"{obj.cls} built by `{r}` prints its operands in the order {['.'.join(map(str, m)) for m in order_bad]}, not in source order",
                file=rm[0].module,
                line=rm[1].lineno,
            )


# ---------------------------------------------------------------------------
# E7 DIM-ARITHMETIC


@rule("E7", "DIM-ARITHMETIC: a source bound n is declared as n+1 elements, filled 0..n; undeclared arrays get bound 10; prologue has base 0", ["C03", "C10", "C09", "C02"], floor=5, default_props=["C03", "C10"])
def e7(ctx: Ctx):
    py = pyfacts(ctx)
    ci = py.cls("BasicDimStatement")
    init = ci.methods.get("__init__")
    ctx.need(init is not None, "BasicDimStatement.__init__", "not found")
    fill_r = py.resolve_method("BasicDimStatement", "init_text_for_var")
    ctx.need(fill_r is not None, "BasicDimStatement.init_text_for_var", "not found")
    # decided by interpreting the constructor and the fill-text builder on concrete DIM statements:
    # DIM A(n) / DIM A(&Hn), one and two dimensions, with n = 10, 0 and 255
    from .absint import Const as _C, Obj as _O, Seq as _S, Unknown as _U, alts_of as _alts, interp as _interp
    from .rules_abs import _flatten

    I = _interp(ctx)

    def mk(cls, *a_, **k_):
        return I.construct(cls, list(a_), k_, init.lineno, "BasicDimStatement")

    def lit(kind: str, n: int):
        return mk("BasicLiteral", _C(n)) if kind == "dec" else mk("HexLiteral", _C(format(n, "X")))

    def to_int(txt: str) -> Optional[int]:
        txt = txt.strip()
        try:
            return int(txt[1:], 16) if txt.startswith("$") else int(float(txt))
        except ValueError:
            return None

    for kind in ("dec", "hex"):
        for bounds in ((10,), (0,), (255,), (3, 4)):
            key = f"{kind}{list(bounds)}"
            ref = mk("BasicArrayRef", mk("BasicVar", _C("arr_A")), mk("BasicExpressionList", _S([lit(kind, n_) for n_ in bounds], None)))
            stmt = mk("BasicDimStatement", _S([ref], None))
            dvs = I.iter_elems(I.getattr(stmt, "_dim_vars", "BasicDimStatement"))
            x = dvs[0][0] if dvs and len(dvs[0]) == 1 and dvs[1] is None else None
            idx = I.iter_elems(I.getattr(I.getattr(x, "indices", "x"), "exp_list", "x")) if isinstance(x, _O) else None
            vals = [I.getattr(e_, "literal", "x") for e_ in idx[0]] if idx and idx[1] is None else None
            if vals is None or not all(isinstance(v_, _C) and isinstance(v_.value, int) for v_ in vals):
                ctx.undecided(f"declared-size:{key}", f"the declared sizes of `DIM A{bounds}` could not be evaluated ({vals})", file=ELEMENTS_REL, line=init.lineno)
                continue
            got = tuple(v_.value for v_ in vals)
            want = tuple(n_ + 1 for n_ in bounds)
            ok = got == want
            ctx.ob(f"declared-size:{key}", ok, "" if ok else f"`DIM A({', '.join(('&H%X' % n_) if kind == 'hex' else str(n_) for n_ in bounds)})` is declared with {got} elements; Color BASIC's DIM A(n) has n+1 elements (0..n) per dimension: {want}", file=ELEMENTS_REL, line=init.lineno, witness="" if ok else "10 DIM A(10):A(10)=1")
            # the declared name: prefix stripped and re-added exactly once
            nm = I.call_function(py.resolve_method("BasicArrayRef", "basic09_text")[1], [x, _C(0)], self_obj=x, owner="BasicArrayRef") if py.resolve_method("BasicArrayRef", "basic09_text") else None
            # the fill loops: FOR tmp_k = 0 TO n_k, outermost first
            t = I.call_function(fill_r[1], [stmt, x], self_obj=stmt, owner=fill_r[0].name)
            texts = ["".join(p_ if isinstance(p_, str) else "{}" for p_ in _flatten(a_)) for a_ in _alts(t)]
            loops = [re.findall(r"FOR\s+(\w+)\s*=\s*(\S+)\s+TO\s+(\S+)", tx) for tx in texts]
            if len(texts) != 1 or len(loops[0]) != len(bounds) or any("{" in lo or "{" in hi for _, lo, hi in loops[0]):
                ctx.undecided(f"fill-bounds:{key}", f"the fill text of `DIM A{bounds}` could not be evaluated ({texts})", file=ELEMENTS_REL, line=fill_r[1].lineno)
                continue
            lows = tuple(to_int(lo) for _, lo, _ in loops[0])
            highs = tuple(to_int(hi) for _, _, hi in loops[0])
            okl = lows == tuple(0 for _ in bounds)
            ctx.ob(f"fill-lower-bound:{key}", okl, "" if okl else f"the fill loops of `DIM A{bounds}` start at {lows}: element 0 is not initialised", file=ELEMENTS_REL, line=fill_r[1].lineno)
            okh = highs == tuple(bounds)
            ctx.ob(f"fill-upper-bound:{key}", okh, "" if okh else f"the fill loops of `DIM A{bounds}` run to {highs} (declared {got}): the last element(s) stay uninitialised / the loop runs out of bounds", file=ELEMENTS_REL, line=fill_r[1].lineno)
            vars_ = [v_ for v_, _, _ in loops[0]]
            okv = len(set(vars_)) == len(vars_)
            ctx.ob(f"fill-loop-vars:{key}", okv, "" if okv else f"the fill loops of `DIM A{bounds}` reuse a loop variable ({vars_})", file=ELEMENTS_REL, line=fill_r[1].lineno)
    # implicit arrays: source bound 10
    dv = py.cls("DeclareImplicitArraysVisitor").properties.get("dim_statements")
    ctx.need(dv is not None, "DeclareImplicitArraysVisitor.dim_statements", "not found")
    lits = [n.args[0].value for n in ast.walk(dv) if isinstance(n, ast.Call) and getattr(n.func, "id", "") == "BasicLiteral" and n.args and isinstance(n.args[0], ast.Constant)]
    ok10 = lits == [10]
    ctx.ob("implicit-bound", ok10, "" if ok10 else f"undeclared arrays are created with source bound {lits}; Color BASIC gives them 0..10", file="coco/b09/visitors.py", line=dv.lineno)
    src = unparse(dv)
    okp = ast_contains(dv, "BasicVar($v[4:], is_str_expr=$v.endswith('$'))")
    ctx.ob("implicit-name", okp, "" if okp else "implicit DIM does not rebuild the variable from the emitted name (`arr_` stripped, `$` kept)", file="coco/b09/visitors.py", line=dv.lineno)
    okiv = "initialize_vars=self._initialize_vars" in src
    ctx.ob("implicit-initialise", okiv, "" if okiv else "implicit DIM statements do not receive the initialise-variables option", file="coco/b09/visitors.py", line=dv.lineno)
    # prologue: base 0 first
    from .pipeline import pipeline

    P = pipeline(ctx)
    pro = P.prologue()
    ctx.need(pro is not None, "convert.prefix_lines", "prologue list not found")
    first = unparse(pro.elts[0]) if pro.elts else ""
    okb = "Basic09CodeStatement('base 0')" in first
    ctx.ob("prologue:base-0", okb, "" if okb else f"first prologue line is `{first}`, not `base 0`: BASIC09 arrays would start at 1 and element 0 would not exist", file="coco/b09/compiler.py", line=pro.lineno)
    # scalars are initialised with the right kind of zero
    vi = py.cls("VarInitializerVisitor").properties.get("assignment_lines")
    ctx.need(vi is not None, "VarInitializerVisitor.assignment_lines", "not found")
    # slots, not a frozen fragment: the constants handed to BasicLiteral(...) (directly or through `a if c else b`), and
    # the lengths names are compared with, wherever in the property or in a helper it calls they are written
    scope = [vi] + [m_ for n_, m_ in py.cls("VarInitializerVisitor").methods.items() if any(isinstance(c, ast.Attribute) and c.attr == n_ for c in ast.walk(vi))]
    init_consts = []
    for fn_ in scope:
        for c in ast.walk(fn_):
            if isinstance(c, ast.Call) and getattr(c.func, "id", "") == "BasicLiteral" and c.args:
                a0 = c.args[0]
                for x in ([a0.body, a0.orelse] if isinstance(a0, ast.IfExp) else [a0]):
                    if isinstance(x, ast.Constant):
                        init_consts.append(repr(x.value))
    okz = sorted(set(init_consts)) == ["''", "0.0"]
    ctx.idiom("scalar-init-values", bool(init_consts), okz, "" if okz else f"pre-initialisation assigns {sorted(set(init_consts))}; Color BASIC starts strings as \"\" and numbers as 0 (a REAL 0.0 in BASIC09)", file="coco/b09/visitors.py", line=vi.lineno, props=["C03"])
    # which names are pre-initialised: the filter predicate is evaluated on names (user scalars of every spelling, generated identifiers)
    preds: List[Tuple[ast.AST, str]] = []
    for fn_ in scope:
        for c in ast.walk(fn_):
            if isinstance(c, (ast.ListComp, ast.GeneratorExp, ast.SetComp)) and len(c.generators) == 1 and isinstance(c.generators[0].target, ast.Name) and c.generators[0].ifs and any(isinstance(x, ast.Call) and getattr(x.func, "id", "") in ("BasicAssignment", "BasicVar") for x in ast.walk(c.elt)):
                g_ = c.generators[0]
                preds.append((ast.BoolOp(op=ast.And(), values=list(g_.ifs)) if len(g_.ifs) > 1 else g_.ifs[0], g_.target.id))
            if isinstance(c, ast.For) and isinstance(c.target, ast.Name) and any(isinstance(x, ast.Call) and getattr(x.func, "id", "") in ("BasicAssignment", "BasicVar") for x in ast.walk(c)):
                for st_ in c.body:
                    if isinstance(st_, ast.If) and c.target.id in names_loaded(st_.test):
                        if st_.body and isinstance(st_.body[-1], ast.Continue) and not st_.orelse:
                            preds.append((ast.UnaryOp(op=ast.Not(), operand=st_.test), c.target.id))
                        elif any(isinstance(x, ast.Call) and getattr(x.func, "id", "") in ("BasicAssignment", "BasicVar") for x in ast.walk(st_)):
                            preds.append((st_.test, c.target.id))
    users = ["A", "Z", "AB", "A1", "C1", "Z9", "A$", "AB$", "A1$", "S1$"]
    generated = ["arr_A", "arr_A$", "arr_AB", "tmp_1", "tmp_1$", "tmp_12", "pid", "erno", "errnum", "display", "play", "joy0x"]
    mconsts_ = dict(py.mod("coco/b09/visitors.py").assigns)
    if len(preds) != 1:
        ctx.undecided("scalar-init-filter", f"{len(preds)} filters on the names to pre-initialise found", file="coco/b09/visitors.py", line=vi.lineno, props=["C03", "C09", "C10"])
    else:
        pe, pv = preds[0]
        try:
            missed = [n_ for n_ in users if not _str_pred(pe, {pv: n_}, mconsts_)]
            claimed = [n_ for n_ in generated if _str_pred(pe, {pv: n_}, mconsts_)]
        except _PredUnknown as ex:
            ctx.undecided("scalar-init-filter", f"the filter `{unparse(pe)}` is not evaluable ({ex})", file="coco/b09/visitors.py", line=vi.lineno, props=["C03", "C09", "C10"])
        else:
            okf = not missed and not claimed
            ctx.ob("scalar-init-filter", okf, "" if okf else f"names are pre-initialised when `{unparse(pe)}`: user scalars {missed} are left out (read before they have a value)" + (f"; generated identifiers {claimed} are claimed as user variables and assigned in the prologue" if claimed else ""), file="coco/b09/visitors.py", line=vi.lineno, props=["C03", "C09", "C10", "C02"])


class _PredUnknown(Exception):
    pass


def _str_pred(e: ast.AST, env: Dict[str, str], consts: Dict[str, ast.AST]):
    """Value of a predicate over strings: endswith / startswith / len / slices / comparisons / membership / str tests / regular expressions (decided with the checker's own regular-language engine)."""
    from .relang import Lang

    def ev(x):
        if isinstance(x, ast.Constant):
            return x.value
        if isinstance(x, ast.Name):
            if x.id in env:
                return env[x.id]
            raise _PredUnknown(f"name {x.id}")
        if isinstance(x, ast.BoolOp):
            r = None
            for v in x.values:
                r = ev(v)
                if isinstance(x.op, ast.And) and not r:
                    return r
                if isinstance(x.op, ast.Or) and r:
                    return r
            return r
        if isinstance(x, ast.UnaryOp) and isinstance(x.op, ast.Not):
            return not ev(x.operand)
        if isinstance(x, ast.Compare):
            left = ev(x.left)
            for op, c in zip(x.ops, x.comparators):
                right = ev(c)
                try:
                    r = {ast.Eq: lambda a, b: a == b, ast.NotEq: lambda a, b: a != b, ast.Lt: lambda a, b: a < b, ast.LtE: lambda a, b: a <= b, ast.Gt: lambda a, b: a > b, ast.GtE: lambda a, b: a >= b, ast.In: lambda a, b: a in b, ast.NotIn: lambda a, b: a not in b, ast.Is: lambda a, b: a is b, ast.IsNot: lambda a, b: a is not b}[type(op)](left, right)
                except (TypeError, KeyError) as ex:
                    raise _PredUnknown(str(ex))
                if not r:
                    return False
                left = right
            return True
        if isinstance(x, (ast.Tuple, ast.List, ast.Set)):
            return [ev(y) for y in x.elts]
        if isinstance(x, ast.Subscript):
            base = ev(x.value)
            try:
                if isinstance(x.slice, ast.Slice):
                    lo = ev(x.slice.lower) if x.slice.lower is not None else None
                    hi = ev(x.slice.upper) if x.slice.upper is not None else None
                    st = ev(x.slice.step) if x.slice.step is not None else None
                    return base[lo:hi:st]
                return base[ev(x.slice)]
            except (TypeError, IndexError) as ex:
                raise _PredUnknown(str(ex))
        if isinstance(x, ast.Call):
            f = x.func
            if isinstance(f, ast.Name) and f.id in ("len", "bool") and len(x.args) == 1:
                return {"len": len, "bool": bool}[f.id](ev(x.args[0]))
            if isinstance(f, ast.Attribute) and f.attr in ("endswith", "startswith", "isalpha", "isdigit", "isupper", "islower", "isalnum", "upper", "lower", "rstrip", "lstrip", "strip") and not x.keywords:
                recv = ev(f.value)
                if not isinstance(recv, str):
                    raise _PredUnknown("method on a non-string")
                args = [ev(a) for a in x.args]
                if f.attr in ("endswith", "startswith") and args and isinstance(args[0], list):
                    args[0] = tuple(args[0])
                return getattr(recv, f.attr)(*args)
            if isinstance(f, ast.Attribute) and f.attr in ("fullmatch", "match", "search") and x.args:
                # re.fullmatch(pattern, s) / COMPILED.fullmatch(s)
                pat, subj, flags = None, None, 0
                if isinstance(f.value, ast.Name) and f.value.id == "re" and len(x.args) >= 2:
                    p0 = x.args[0]
                    p0 = consts.get(p0.id, p0) if isinstance(p0, ast.Name) else p0
                    pat, subj = (p0.value if isinstance(p0, ast.Constant) else None), ev(x.args[1])
                elif isinstance(f.value, ast.Name) and f.value.id in consts:
                    c0 = consts[f.value.id]
                    if isinstance(c0, ast.Call) and getattr(c0.func, "attr", "") == "compile" and c0.args and isinstance(c0.args[0], ast.Constant):
                        pat, subj = c0.args[0].value, ev(x.args[0])
                if pat is None or not isinstance(subj, str):
                    raise _PredUnknown("regular expression not constant")
                try:
                    if f.attr == "fullmatch":
                        return Lang.from_regex(pat).accepts(subj)
                    if f.attr == "match":
                        return Lang.from_regex(f"(?:{pat})(?s:.*)").accepts(subj)
                    return Lang.from_regex(f"(?s:.*)(?:{pat})(?s:.*)").accepts(subj)
                except Exception as ex:
                    raise _PredUnknown(f"pattern {pat!r}: {ex}")
        raise _PredUnknown(f"expression `{unparse(x)[:40]}`")

    return ev(e)


# ---------------------------------------------------------------------------
# E19 DIM-EMISSION


def _depends_on(fn: ast.FunctionDef, e: ast.AST, name: str, before: Optional[int] = None, depth: int = 0) -> bool:
    """Does expression `e` (in `fn`) load `name`, directly or through locals assigned from it?"""
    if depth > 6:
        return False
    for n in ast.walk(e):
        if isinstance(n, ast.Name) and isinstance(n.ctx, ast.Load):
            if n.id == name:
                return True
            for a in ast.walk(fn):
                tgt = None
                if isinstance(a, ast.Assign) and len(a.targets) == 1 and isinstance(a.targets[0], ast.Name):
                    tgt, val = a.targets[0].id, a.value
                elif isinstance(a, ast.AnnAssign) and isinstance(a.target, ast.Name) and a.value is not None:
                    tgt, val = a.target.id, a.value
                elif isinstance(a, ast.AugAssign) and isinstance(a.target, ast.Name):
                    tgt, val = a.target.id, a.value
                if tgt == n.id and tgt != name and a.lineno <= getattr(n, "lineno", 10**9) and _depends_on(fn, val, name, None, depth + 1):
                    return True
    return False


@rule("E19", "DIM-EMISSION: every text a DIM statement returns carries the type declaration it was given; names are grouped by size without losing any (no grouping of unsorted data by adjacency)", ["C10", "C11"], floor=1, default_props=["C10"])
def e19(ctx: Ctx):
    py = pyfacts(ctx)
    ci = py.cls("BasicDimStatement")
    n_sites = 0
    for mn, fn in sorted(ci.methods.items()):
        params = [a.arg for a in fn.args.args[1:]]
        rets = [r for r in walk_no_nested(fn) if isinstance(r, ast.Return) and r.value is not None]
        if len(params) < 2 or not rets:
            continue
        for p_ in params:
            users = [r for r in rets if _depends_on(fn, r.value, p_)]
            if not users or len(users) == len(rets):
                if users:
                    n_sites += 1
                    ctx.ob(f"BasicDimStatement.{mn}:{p_}", True, file=ELEMENTS_REL, line=fn.lineno)
                continue
            n_sites += 1
            lost = [r for r in rets if r not in users]
            # a return under a test of the parameter itself (nothing to add) is not a loss
            real = []
            for r in lost:
                guards = [g for g in ast.walk(fn) if isinstance(g, ast.If) and any(x is r for b in g.body + g.orelse for x in ast.walk(b))]
                if not any(p_ in names_loaded(g.test) for g in guards):
                    real.append(r)
            ok = not real
            ctx.ob(
                f"BasicDimStatement.{mn}:{p_}",
                ok,
                "" if ok else f"`{mn}` returns text without its parameter `{p_}` on the path ending at line {real[0].lineno} while its other returns include it: the declaration loses that part (e.g. the `: STRING[n]` size) for some option values",
                file=ELEMENTS_REL,
                line=real[0].lineno if real else fn.lineno,
                props=["C10", "C11"],
            )
    ctx.need(n_sites >= 1, "BasicDimStatement", "no emitting helper with a text parameter found")
    # grouping by adjacency: itertools.groupby over data that was not sorted by the same key drops all but the last run of a key when the result is made a mapping
    for rel, m in sorted(py.modules.items()):
        if not rel.startswith("coco/b09/"):
            continue
        for n in ast.walk(m.tree):
            if isinstance(n, ast.Call) and call_name(n) == "groupby" and n.args:
                src = n.args[0]
                key = next((k.value for k in n.keywords if k.arg == "key"), n.args[1] if len(n.args) > 1 else None)
                srt = src if isinstance(src, ast.Call) and call_name(src) == "sorted" else None
                skey = next((k.value for k in srt.keywords if k.arg == "key"), None) if srt is not None else None
                ok = srt is not None and (unparse(skey) if skey is not None else None) == (unparse(key) if key is not None else None)
                ctx.ob(f"{rel}:groupby@{_enclosing(m.tree, n)}", ok, "" if ok else f"`{unparse(n)[:80]}` groups neighbouring items only and its input is not sorted by the same key: items with an equal key that are not adjacent form separate groups (a mapping built from them keeps only the last)", file=rel, line=n.lineno)


def _enclosing(tree: ast.AST, node: ast.AST) -> str:
    best = "<module>"
    for f in ast.walk(tree):
        if isinstance(f, (ast.FunctionDef, ast.ClassDef)) and any(x is node for x in ast.walk(f)):
            best = f.name if isinstance(f, ast.FunctionDef) else best
    return best
