"""Sibling cross-checks on the PEG (added after seed round 7):
G18 BRANCH-OPERAND: what may follow THEN / ELSE is the same in every IF form: a line number or the rest of the line.
G19 LIST-UNIFORM: the first element of a separated list is the same rule as the following ones."""

from __future__ import annotations

from typing import Any, Dict, List, Optional, Set, Tuple

from .core import Ctx, rule
from .peg import GRAMMAR_REL, peg

INF = float("inf")


def _content(p, e) -> List[Any]:
    bo = p.blank_only()
    return [m for m in e.members if not bo[id(m)] and p.kind(m) != "lookahead"]


def _deref(p, e, depth=0):
    """Follow single-member wrappers: `a = b`, `( b )`, one-member sequences (blanks aside)."""
    while depth < 12:
        k = p.kind(e)
        if k == "ref":
            e = p.rule(e.name) if e.name in p.rules else e
            depth += 1
            continue
        if k == "seq":
            c = _content(p, e)
            if len(c) == 1 and not e.name:
                e = c[0]
                depth += 1
                continue
        break
    return e


def _sep_list(p, r, bounded: bool = False) -> Optional[Tuple[Any, Any, Any, Any]]:
    """(head, separator, tail element, member before head) if r is `... head ( sep tail )* ...`
    (bounded=True: the same shape with `?` instead of `*` - a list cut off after its second element)."""
    ms = _content(p, r)
    for i, m in enumerate(ms):
        q = _deref(p, m)
        if p.kind(q) != "quant" or (p.quant(q)[1] != INF if not bounded else p.quant(q) != (0, 1)):
            continue
        body = _deref(p, q.members[0])
        if p.kind(body) != "seq":
            continue
        inner = _content(p, body)
        if len(inner) != 2 or p.literal_set(inner[0]) is None or i == 0:
            continue
        return ms[i - 1], inner[0], inner[1], (ms[i - 2] if i >= 2 else None)
    return None


def _elem_id(p, e) -> str:
    """A comparable identity for a list element: rule name (+ quantifier)."""
    k = p.kind(e)
    if k == "quant" and not e.name:
        mn, mx = p.quant(e)
        return _elem_id(p, e.members[0]) + ("?" if (mn, mx) == (0, 1) else "*" if mn == 0 else "+")
    return e.name or p.describe(e)


# which behaviour a non-uniform list of that rule changes (default: the statement keeps its meaning, C03)
_LIST_PROPS = {
    "exp_list": ["C09", "C03"],
    "statements": ["C02"],
    "linenum_list": ["C06", "C02"],
    "var_list": ["C02"],
    "dim_array_var_list": ["C10"],
    "attr_statement": ["C04"],
}


@rule("G19", "LIST-UNIFORM: in every separated list `head (sep elem)*` of the PEG, head and elem are the same rule - what is accepted in second place is accepted in first place (otherwise `A(I AND 7)` stops being an array reference while `A(1, I AND 7)` still is one)", ["C09", "C03", "C02", "C06", "C10", "C01", "C04"], floor=15, default_props=["C03"])
def g19(ctx: Ctx):
    p = peg(ctx)
    n = 0
    for rname in sorted(p.rules):
        r = p.rules[rname]
        if (r.name or rname) != rname or p.kind(r) != "seq":
            continue
        sl = _sep_list(p, r)
        if sl is None:
            continue
        head, sep, tail, before = sl
        seps = p.literal_set(sep) or set()
        # `X , a , b (, opt)*`: the member in front of the repetition is itself preceded by the separator - it is a
        # positional operand, the repetition is a list of something else that starts empty (ATTR f, b, B, U)
        if before is not None and (p.literal_set(before) or set()) & seps:
            continue
        n += 1
        h, t = _elem_id(p, head), _elem_id(p, tail)
        ok = h == t
        ladder = bool(seps & {"AND", "OR", "+", "-", "*", "/", "^"})
        ctx.ob(
            f"{rname}:{'/'.join(sorted(seps))}",
            ok,
            "" if ok else f"rule `{rname}` is a list separated by {sorted(seps)} whose first element is `{h}` while every further element is `{t}`: a construct accepted in second place is rejected (or read as something else) in first place",
            file=GRAMMAR_REL,
            line=p.line(rname),
            witness="" if ok else ("10 DIM A(7):PRINT A(I AND 7)" if rname == "exp_list" else ""),
            props=["C01"] if ladder else _LIST_PROPS.get(rname),
        )
    # the same shape with `?` where a list has `*`: head and element are one rule, the separator is a list separator -
    # a list that takes two elements and refuses the third
    for rname in sorted(p.rules):
        r = p.rules[rname]
        if (r.name or rname) != rname or p.kind(r) != "seq":
            continue
        sl = _sep_list(p, r, bounded=True)
        if sl is None:
            continue
        head, sep, tail, before = sl
        seps = p.literal_set(sep) or set()
        if _elem_id(p, head) == _elem_id(p, tail) and seps & {","}:
            ctx.ob(
                f"{rname}:{'/'.join(sorted(seps))}:unbounded",
                False,
                f"rule `{rname}` is `{_elem_id(p, head)} ({'/'.join(sorted(seps))} {_elem_id(p, tail)})?`: a list that accepts two elements and refuses a third (`NEXT K,J,I`)",
                file=GRAMMAR_REL,
                line=p.line(rname),
                props=_LIST_PROPS.get(rname),
            )
    ctx.need(n >= 15, "separated lists", f"only {n} separated lists recognised in the grammar")


@rule("G18", "BRANCH-OPERAND: in every IF form the operand of THEN and of ELSE is a line number or the whole rest of the line (the `:`-separated statement list), never a single statement", ["C02"], floor=5)
def g18(ctx: Ctx):
    p = peg(ctx)
    # the `:`-separated statement list, found by shape
    stmt_lists: Set[str] = set()
    for rname in sorted(p.rules):
        r = p.rules[rname]
        if (r.name or rname) != rname or p.kind(r) != "seq":
            continue
        sl = _sep_list(p, r)
        if sl is not None and (p.literal_set(sl[1]) or set()) == {":"}:
            stmt_lists.add(rname)
    ctx.need(stmt_lists, "statement list", "no `:`-separated statement list rule found in the grammar")

    def alts(e, depth=0) -> Set[str]:
        """Names of the rules e can stand for through alternation / aliases."""
        e = _deref(p, e)
        if p.kind(e) == "oneof" and depth < 6:
            out: Set[str] = set()
            for m in e.members:
                out |= alts(m, depth + 1)
            return out
        return {e.name or p.describe(e)}

    n = 0
    sets: Dict[str, Set[str]] = {}
    where: Dict[str, int] = {}
    for rname in sorted(p.rules):
        r = p.rules[rname]
        if (r.name or rname) != rname:
            continue
        stack = [r]
        seqs = []
        seen = set()
        while stack:
            e = stack.pop()
            if id(e) in seen:
                continue
            seen.add(id(e))
            if p.kind(e) == "seq":
                seqs.append(e)
            for m in getattr(e, "members", ()):
                if not m.name:  # anonymous sub-expressions belong to this rule
                    stack.append(m)
        for s in seqs:
            ms = _content(p, s)
            for i, m in enumerate(ms[:-1]):
                if p.kind(m) == "literal" and m.literal in ("THEN", "ELSE"):
                    nxt = ms[i + 1]
                    if p.kind(nxt) == "literal":  # ELSE IF
                        continue
                    a = alts(nxt)
                    key = f"{rname}:{m.literal}"
                    sets[key] = a
                    where[key] = p.line(rname)
                    n += 1
                    has_list = bool(a & stmt_lists)
                    has_line = any(x == "linenum" or "linenum" in x for x in a)
                    ok = has_list and has_line
                    ctx.ob(
                        key,
                        ok,
                        "" if ok else f"after {m.literal} rule `{rname}` accepts {sorted(a)}" + ("" if has_list else f", not the statement list {sorted(stmt_lists)}: only the first statement of `IF c THEN a:b ELSE d` belongs to the branch, the rest runs unconditionally (or the line is refused)") + ("" if has_line else ", not a line number"),
                        file=GRAMMAR_REL,
                        line=p.line(rname),
                        witness="" if ok else "10 IF A=1 THEN B=1:C=2 ELSE D=1",
                    )
    ctx.need(n >= 5, "IF forms", f"only {n} THEN/ELSE operands found in the grammar")


# ---------------------------------------------------------------------------
# G9b NAME-WHOLE

import ast  # noqa: E402

from .pyast import pyfacts, unparse  # noqa: E402

_SUBSTR_METHODS = ("endswith", "startswith", "find", "rfind", "index", "rindex", "count", "partition", "rpartition", "removeprefix", "removesuffix")
_NAME_MODULES = ("coco/b09/visitors.py", "coco/b09/elements.py", "coco/b09/compiler.py", "coco/b09/prog.py")


def _mentions_name(e: ast.AST) -> bool:
    return any(isinstance(c, ast.Call) and isinstance(c.func, ast.Attribute) and c.func.attr == "name" and not c.args for c in ast.walk(e))


def _name_whole_sites(tree: ast.AST):
    """(node, subject, pattern) for every partial-string test in the module."""
    for n in ast.walk(tree):
        if isinstance(n, ast.Call) and isinstance(n.func, ast.Attribute) and n.func.attr in _SUBSTR_METHODS and n.args:
            yield n, n.func.value, n.args[0]
        elif isinstance(n, ast.Compare) and len(n.ops) == 1 and isinstance(n.ops[0], (ast.In, ast.NotIn)):
            # `a in b` is a substring test only when b is text: a `.name()` value or string constant
            r = n.comparators[0]
            if (isinstance(r, ast.Constant) and isinstance(r.value, str)) or (isinstance(r, ast.Call) and isinstance(r.func, ast.Attribute) and r.func.attr == "name" and not r.args):
                yield n, r, n.left


def _const_pattern(e: ast.AST) -> bool:
    return (isinstance(e, ast.Constant) and isinstance(e.value, str)) or (isinstance(e, ast.Tuple) and all(isinstance(x, ast.Constant) for x in e.elts))


@rule("G9b", "NAME-WHOLE: variable names are compared as wholes (`==`, membership in a set / dict); a prefix / suffix / substring test on a name only ever asks for a constant marker (`$`, `arr_`) - never whether one variable's name is part of another's", ["C09", "C10"], floor=8)
def g9b(ctx: Ctx):
    py = pyfacts(ctx)
    # the rule's own positive example must match on every run
    probe = ast.parse("ok = any(d.endswith(var.name()) for d in names)")
    ctx.need(any(not _const_pattern(pat) and (_mentions_name(subj) or _mentions_name(pat)) for _, subj, pat in _name_whole_sites(probe)), "self-test", "the built-in positive example is no longer recognised")
    n = 0
    seen: Dict[str, int] = {}
    for rel in _NAME_MODULES:
        mod = py.mod(rel)
        for node, subj, pat in _name_whole_sites(mod.tree):
            n += 1
            bad = not _const_pattern(pat) and (_mentions_name(subj) or _mentions_name(pat))
            key = f"{rel.split('/')[-1]}:{unparse(node)[:60]}"
            seen[key] = seen.get(key, 0) + 1
            if seen[key] > 1:
                key += f"#{seen[key]}"
            ctx.ob(
                key,
                not bad,
                "" if not bad else f"`{unparse(node)}` tests whether one variable name is a part of another: two different variables whose identifiers merely share an ending / beginning (A$ and arr_A$, B$ and AB$) are taken for the same variable",
                file=rel,
                line=node.lineno,
                witness="" if not bad else "10 DIM AB$(3)\n20 B$=\"X\"",
            )
    ctx.need(n >= 8, "sites", f"only {n} prefix / suffix / substring tests found in the transpiler modules")


# ---------------------------------------------------------------------------
# P15 PROCESS-STATE

_PROCESS_SETTERS = {
    "sys.setrecursionlimit": "the interpreter's recursion limit",
    "sys.setswitchinterval": "the thread switch interval",
    "os.chdir": "the working directory",
    "os.umask": "the umask",
    "os.putenv": "the environment",
    "os.unsetenv": "the environment",
    "locale.setlocale": "the locale",
    "random.seed": "the shared random generator",
    "decimal.setcontext": "the decimal context",
    "warnings.simplefilter": "the warning filters",
    "warnings.filterwarnings": "the warning filters",
}


def _dotted(e: ast.AST) -> str:
    if isinstance(e, ast.Attribute):
        b = _dotted(e.value)
        return f"{b}.{e.attr}" if b else ""
    if isinstance(e, ast.Name):
        return e.id
    return ""


def _setter_calls(stmt: ast.AST, aliases: Dict[str, str]):
    for c in ast.walk(stmt):
        if isinstance(c, ast.Call):
            d = _dotted(c.func)
            d = aliases.get(d, d)
            if d in _PROCESS_SETTERS:
                yield c, d
        elif isinstance(c, (ast.Assign, ast.AugAssign, ast.Delete)):
            tg = c.targets if not isinstance(c, ast.AugAssign) else [c.target]
            for t in tg:
                if isinstance(t, ast.Subscript) and _dotted(t.value) == "os.environ":
                    yield c, "os.environ[...]"


def _process_state_findings(tree: ast.AST):
    """(node, setter, restored?) for every process-wide setter inside a function of the module."""
    aliases: Dict[str, str] = {}
    for n in ast.walk(tree):
        if isinstance(n, ast.ImportFrom) and n.module in ("sys", "os", "locale", "random", "decimal", "warnings"):
            for a in n.names:
                aliases[a.asname or a.name] = f"{n.module}.{a.name}"
    out = []

    def restores(tr: ast.Try, setter: str) -> bool:
        return any(s == setter for st in tr.finalbody for _, s in _setter_calls(st, aliases))

    def walk_block(block: List[ast.stmt], guarded: Set[str]):
        for i, st in enumerate(block):
            if isinstance(st, ast.Try):
                g2 = guarded | {s for s in _PROCESS_SETTERS if restores(st, s)} | ({"os.environ[...]"} if restores(st, "os.environ[...]") else set())
                walk_block(st.body, g2)
                for h in st.handlers:
                    walk_block(h.body, g2)
                walk_block(st.orelse, g2)
                continue  # calls in the finally block are the restoring ones
            if isinstance(st, (ast.FunctionDef, ast.AsyncFunctionDef, ast.ClassDef)):
                walk_block(st.body, set())
                continue
            nested = [getattr(st, f) for f in ("body", "orelse") if isinstance(getattr(st, f, None), list)]
            if nested:
                # the header expression of a compound statement
                hdr = [getattr(st, f) for f in ("test", "iter") if getattr(st, f, None) is not None] + [w.context_expr for w in getattr(st, "items", [])]
                for h in hdr:
                    for c, s in _setter_calls(h, aliases):
                        out.append((c, s, s in guarded))
                for b in nested:
                    walk_block(b, guarded)
                continue
            for c, s in _setter_calls(st, aliases):
                nxt = block[i + 1] if i + 1 < len(block) else None
                ok = s in guarded or (isinstance(nxt, ast.Try) and restores(nxt, s))
                out.append((c, s, ok))

    for n in ast.walk(tree):
        if isinstance(n, (ast.FunctionDef, ast.AsyncFunctionDef)):
            walk_block(n.body, set())
    # ast.walk reaches nested functions a second time: keep one record per call
    out2 = []
    seen = set()
    for c, s, ok in out:
        if id(c) not in seen:
            seen.add(id(c))
            out2.append((c, s, ok))
    return out2


@rule("P15", "PROCESS-STATE: no library function leaves process-wide interpreter state changed (recursion limit, working directory, environment, locale ...): a setter is followed by / enclosed in a try whose finally restores it, so a refused program does not alter later conversions", ["C12", "C15"], floor=10, default_props=["C12"])
def p15(ctx: Ctx):
    probe = ast.parse("def f(x):\n    old = sys.getrecursionlimit()\n    sys.setrecursionlimit(10 ** 6)\n    r = g(x)\n    sys.setrecursionlimit(old)\n    return r\n")
    twin = ast.parse("def f(x):\n    old = sys.getrecursionlimit()\n    sys.setrecursionlimit(10 ** 6)\n    try:\n        return g(x)\n    finally:\n        sys.setrecursionlimit(old)\n")
    fp = _process_state_findings(probe)
    ft = _process_state_findings(twin)
    ctx.need(fp and not fp[0][2] and ft and all(ok for _, _, ok in ft), "self-test", "the built-in positive example / its repaired twin are no longer told apart")
    files = sorted(q for q in (ctx.repo / "coco").rglob("*.py"))
    ctx.need(len(files) >= 10, "coco/**/*.py", f"only {len(files)} modules found")
    for f in files:
        rel = str(f.relative_to(ctx.repo))
        try:
            tree = ast.parse(f.read_text())
        except SyntaxError as e:
            from .core import AnalysisError

            raise AnalysisError("P15", rel, f"cannot parse: {e}")
        fs = _process_state_findings(tree)
        bad = [(c, s) for c, s, ok in fs if not ok]
        ctx.ob(
            rel,
            not bad,
            "" if not bad else f"`{unparse(bad[0][0])[:70]}` changes {_PROCESS_SETTERS.get(bad[0][1], 'the process environment')} and no `finally` puts it back: when the conversion in between raises (a program the grammar refuses), every later conversion in the same process runs under the changed setting",
            file=rel,
            line=bad[0][0].lineno if bad else 1,
            witness="" if not bad else "convert('10 PRINT \"UNTERMINATED') then any other program",
        )


# ---------------------------------------------------------------------------
# P16 UNPACK-TOTAL

_VARLEN_METHODS = ("split", "rsplit", "splitlines", "findall", "finditer")


def _unpack_sites(tree: ast.AST):
    """(assign, value, verdict) for every unpacking assignment / loop target: verdict True (fixed length agrees),
    False (length depends on the text), None (not decided here: visited_children is G1's, names are opaque)."""
    for a in ast.walk(tree):
        tgt = None
        val = None
        if isinstance(a, ast.Assign) and len(a.targets) == 1 and isinstance(a.targets[0], (ast.Tuple, ast.List)):
            tgt, val = a.targets[0], a.value
        if tgt is None:
            continue
        if any(isinstance(e, ast.Starred) for e in tgt.elts):
            yield a, val, None
            continue
        k = len(tgt.elts)
        if isinstance(val, (ast.Tuple, ast.List)) and not any(isinstance(e, ast.Starred) for e in val.elts):
            yield a, val, len(val.elts) == k
        elif isinstance(val, ast.Call) and isinstance(val.func, ast.Attribute) and val.func.attr in _VARLEN_METHODS:
            yield a, val, False
        elif isinstance(val, ast.Call) and isinstance(val.func, ast.Attribute) and val.func.attr in ("partition", "rpartition"):
            yield a, val, k == 3
        elif isinstance(val, ast.Call) and _dotted(val.func) in ("os.path.splitext", "os.path.split", "divmod", "os.path.splitdrive"):
            yield a, val, k == 2
        else:
            yield a, val, None


@rule("P16", "UNPACK-TOTAL: no unpacking assignment takes a value whose length depends on the input text (`a, b = s.rsplit('.', 1)` raises ValueError for a text without the separator); fixed-length producers agree with the number of targets", ["C15"], floor=20)
def p16(ctx: Ctx):
    probe = list(_unpack_sites(ast.parse("stem, ext = name.rsplit('.', 1)")))
    twin = list(_unpack_sites(ast.parse("stem, ext = os.path.splitext(name)")))
    ctx.need(probe and probe[0][2] is False and twin and twin[0][2] is True, "self-test", "the built-in positive example / its twin are no longer told apart")
    files = sorted(q for q in (ctx.repo / "coco").rglob("*.py"))
    n = 0
    tot_decided = 0
    for f in files:
        rel = str(f.relative_to(ctx.repo))
        tree = ast.parse(f.read_text())
        sites = list(_unpack_sites(tree))
        n += len(sites)
        bad = [(a, v) for a, v, ok in sites if ok is False]
        decided = sum(1 for _, _, ok in sites if ok is not None)
        ctx.ob(
            rel,
            not bad,
            "" if not bad else f"`{unparse(bad[0][0])[:80]}` unpacks into {len(bad[0][0].targets[0].elts)} names a value whose length depends on the text: an input without the separator (a file called `PROGRAM`, a name with no `.`) ends in ValueError, not in a conversion or a documented refusal",
            file=rel,
            line=bad[0][0].lineno if bad else 1,
            witness="" if not bad else "decb-to-b09 PROGRAM out.b09",
        )
        tot_decided += decided
    ctx.units["P16_unpacking_assignments"] = {"seen": n, "decided_here": tot_decided}
    ctx.need(n >= 60, "unpacking assignments", f"only {n} found")


# ---------------------------------------------------------------------------
# L13 SENTINEL-TEST

import re  # noqa: E402


def _b09_cond(text: str) -> Optional[ast.AST]:
    """The condition of a BASIC09 `IF c THEN` as a Python expression tree (comparisons, AND/OR/NOT, arithmetic)."""
    m = re.match(r"(?is)^\s*(?:if|exitif|while|until)\s+(.*?)(?:\s+then\b.*|\s+do\s*)?$", text)
    if not m:
        return None
    t = m.group(1).lower()
    if '"' in t:
        return None
    t = t.replace("<>", "!=").replace("><", "!=")
    t = re.sub(r"(?<![<>!=])=(?![=])", "==", t)
    t = re.sub(r"\$([0-9a-f]+)", lambda k: str(int(k.group(1), 16)), t)
    t = re.sub(r"(?<=[a-z0-9_])\.(?=[a-z_])", "__", t)
    try:
        tree = ast.parse(t, mode="eval").body
    except SyntaxError:
        return None
    for n in ast.walk(tree):
        if isinstance(n, ast.Constant) and isinstance(n.value, float) and n.value == int(n.value):
            n.value = int(n.value)
    return tree


def _cond_names(e: ast.AST) -> Set[str]:
    return {n.id for n in ast.walk(e) if isinstance(n, ast.Name)}


def _sentinel_args(ctx: Ctx):
    """(procedure, position, value, where) for every emitted call that passes a negative numeric literal: the tool's
    spelling of `operand omitted`."""
    from .absint import Const, Obj, alts_of
    from .rules_abs import run_sites

    out = {}
    for s in run_sites(ctx):
        el = s["args"]
        if el is None:
            continue
        for alt in alts_of(el):
            items = getattr(alt, "items", None)
            if items is None:
                continue
            for i, a in enumerate(items):
                for x in alts_of(a):
                    if isinstance(x, Obj) and x.cls == "BasicLiteral":
                        for l in alts_of(x.fields.get("_literal")):
                            if isinstance(l, Const) and isinstance(l.value, (int, float)) and not isinstance(l.value, bool) and l.value < 0:
                                nm = s["inv"].split()[-1]
                                out[(nm, i, float(l.value))] = (s["where"], s["file"], s["line"])
    return out


@rule("L13", "SENTINEL-TEST: where the tool passes a negative literal for an omitted operand, the library procedure recognises exactly that value as `omitted`: the test that singles it out gives one answer for every legal operand 0..15 and the other for the sentinel, and the sentinel does not trip the procedure's range check", ["C04", "C14"], floor=2, default_props=["C04"])
def l13(ctx: Ctx):
    from .b09lib import LIB_REL, b09lib
    from .decoders import IntEvalError, int_eval

    L = b09lib(ctx)
    sents = _sentinel_args(ctx)
    ctx.need(len(sents) >= 2, "sentinel defaults", f"only {len(sents)} emitted calls with a negative default literal found")
    for (pname, pos, sval), (where, file_, line_) in sorted(sents.items()):
        if pname not in L.procs:
            continue  # L1's finding
        p = L.procs[pname]
        if pos >= len(p.params):
            continue  # L1's finding
        par = p.params[pos][0]
        stmts = list(L.all_stmts(p))
        counts: Dict[str, int] = {}
        for s_ in stmts:
            if s_.kind == "assign":
                counts[s_.target] = counts.get(s_.target, 0) + 1
        alias = {par}
        first_seen: Set[str] = set()
        for s_ in stmts:
            # the first assignment of a local decides: `bi = fix(b)` makes bi a copy (a later `bi = display.hbck`
            # inside the `omitted` branch replaces the sentinel, it does not change what the tests before it read)
            if s_.kind == "assign" and s_.target not in first_seen:
                first_seen.add(s_.target)
                m_ = re.match(rf"(?is)^\s*{re.escape(s_.target)}\s*:?=\s*(?:(?:fix|int)\(\s*(\w+)\s*\)|(\w+))\s*$", s_.text)
                if m_ and (m_.group(1) or m_.group(2)).lower() in alias:
                    alias.add(s_.target)
        sval_i = int(sval)

        def ev(e, v):
            return bool(int_eval(e, {a: v for a in alias}))

        singled = 0
        for i, s_ in enumerate(stmts):
            if s_.kind not in ("if", "exitif", "while"):
                continue
            c = _b09_cond(s_.text)
            if c is None:
                continue
            body_first = s_.inline if s_.inline is not None else (stmts[i + 1] if i + 1 < len(stmts) else None)
            try:
                if _cond_names(c) and _cond_names(c) <= alias:
                    at_s, at_1 = ev(c, sval_i), ev(c, 1)
                    if at_s != at_1:
                        singled += 1
                        odd = [v for v in range(0, 16) if ev(c, v) != at_1]
                        ok = not odd
                        ctx.ob(
                            f"{pname}:{par}:test@{singled}",
                            ok,
                            "" if ok else f"`{s_.text.strip()}` in {pname} is meant to recognise the omitted operand (the tool passes {sval:g} for it, {where}) but answers the same for the legal value {odd[0]}: `{pname.replace('ecb_', '').upper()}` with an explicit {odd[0]} behaves as if the operand were omitted",
                            file=LIB_REL,
                            line=s_.line,
                            witness="" if ok else ("10 HSCREEN 2:HCOLOR 3,0" if pname == "ecb_hcolor" else "10 HSCREEN 2:HCLS 0"),
                        )
                elif body_first is not None and body_first.kind == "error":
                    atoms = c.values if isinstance(c, ast.BoolOp) and isinstance(c.op, ast.Or) else [c]
                    mine = [a for a in atoms if _cond_names(a) and _cond_names(a) <= alias]
                    if not mine:
                        continue
                    trips = [a for a in mine if ev(a, sval_i)]
                    ok = not trips
                    ctx.ob(
                        f"{pname}:{par}:range-check",
                        ok,
                        "" if ok else f"the range check `{s_.text.strip()}` of {pname} rejects {sval:g}, the value the tool passes when the operand is omitted ({where}): the short form of the statement stops the program with ERROR 52",
                        file=LIB_REL,
                        line=s_.line,
                        witness="" if ok else ("10 HSCREEN 2:HCOLOR 3" if pname == "ecb_hcolor" else "10 HSCREEN 2:HCLS"),
                    )
            except IntEvalError:
                continue
        ctx.ob(
            f"{pname}:{par}:recognised",
            singled > 0,
            "" if singled else f"{pname} has no test that tells the tool's `omitted` value {sval:g} (passed by {where}) from a legal operand: the sentinel is used as if it were a colour",
            file=LIB_REL,
            line=p.line,
        )


# ---------------------------------------------------------------------------
# E13b TEXT-ORDER


def _numbered_name_sets(cls: ast.ClassDef) -> Dict[str, ast.AST]:
    """self attributes that collect names with an embedded number: `self.S.add(f"tmp_{<number>}")`."""
    def bound_before(fn: ast.AST, call: ast.Call, e: ast.AST) -> ast.AST:
        # the value a name holds at the call: the nearest earlier plain assignment in the same statement list
        if not isinstance(e, ast.Name):
            return e
        for blk in [getattr(n, f) for n in ast.walk(fn) for f in ("body", "orelse", "finalbody") if isinstance(getattr(n, f, None), list)]:
            for i, st in enumerate(blk):
                if any(x is call for x in ast.walk(st)):
                    for prev in reversed(blk[:i]):
                        if isinstance(prev, ast.Assign) and len(prev.targets) == 1 and isinstance(prev.targets[0], ast.Name) and prev.targets[0].id == e.id:
                            return prev.value
        return e

    out: Dict[str, ast.AST] = {}
    for fn in [m for m in cls.body if isinstance(m, ast.FunctionDef)]:
        for c in ast.walk(fn):
            if isinstance(c, ast.Call) and isinstance(c.func, ast.Attribute) and c.func.attr in ("add", "append") and isinstance(c.func.value, ast.Attribute) and isinstance(c.func.value.value, ast.Name) and c.func.value.value.id == "self" and len(c.args) == 1:
                v = bound_before(fn, c, c.args[0])
                if isinstance(v, ast.JoinedStr) and any(isinstance(p, ast.FormattedValue) and any(isinstance(x, (ast.BinOp, ast.Call)) for x in ast.walk(p.value)) for p in v.values):
                    out[c.func.value.attr] = v
    return out


def _text_order_sites(cls: ast.ClassDef):
    sets = _numbered_name_sets(cls)
    for fn in [m for m in cls.body if isinstance(m, ast.FunctionDef)]:
        for c in ast.walk(fn):
            if isinstance(c, ast.Call) and isinstance(c.func, ast.Name) and c.func.id in ("max", "min", "sorted") and c.args and not any(k.arg == "key" for k in c.keywords):
                a = c.args[0]
                if isinstance(a, ast.Attribute) and isinstance(a.value, ast.Name) and a.value.id == "self" and a.attr in sets:
                    yield fn, c, a.attr, sets[a.attr]


@rule("E13b", "TEXT-ORDER: names that carry a running number (`tmp_1`, `tmp_2` ...) are never ordered as text (`max` / `min` / `sorted` without a numeric key): `tmp_10` sorts before `tmp_9`, so the `highest` name stops growing and the next temporary repeats one that is still in use", ["C05", "C09"], floor=2, soft=True, default_props=["C05"])
def e13b(ctx: Ctx):
    probe = ast.parse("class K:\n    def new(self):\n        v = f'tmp_{int(max(self._t, default=\"tmp_0\")[4:]) + 1}'\n        self._t.add(v)\n        return v\n").body[0]
    twin = ast.parse("class K:\n    def new(self):\n        v = f'tmp_{len(self._t) + 1}'\n        self._t.add(v)\n        return v\n").body[0]
    ctx.need(list(_text_order_sites(probe)) and not list(_text_order_sites(twin)) and _numbered_name_sets(twin), "self-test", "the built-in positive example / its twin are no longer told apart")
    py = pyfacts(ctx)
    n = 0
    for rel in ("coco/b09/elements.py", "coco/b09/visitors.py"):
        mod = py.mod(rel)
        for cls in [c for c in mod.tree.body if isinstance(c, ast.ClassDef)]:
            sets = _numbered_name_sets(cls)
            if not sets:
                continue
            bad = list(_text_order_sites(cls))
            for attr in sorted(sets):
                n += 1
                b = [x for x in bad if x[2] == attr]
                ctx.ob(
                    f"{cls.name}.{attr}",
                    not b,
                    "" if not b else f"`{unparse(b[0][1])[:70]}` in {cls.name}.{b[0][0].name} orders the names collected in `self.{attr}` (built as `{unparse(b[0][3])[:50]}`) as text: after the tenth name the `highest` one is still `..._9`, so the eleventh request returns a name that is already in use and two results of one statement share a variable",
                    file=rel,
                    line=b[0][1].lineno if b else cls.lineno,
                    witness="" if not b else "10 PRINT INT(A);INT(B);INT(C);INT(D);INT(E);INT(F);INT(G);INT(H);INT(I);INT(J);INT(K)",
                )
    if n < 2:
        from .core import IdiomNotFound

        raise IdiomNotFound(f"only {n} collections of numbered names found (the numeric and the string temporaries are no longer kept as sets of f-string names)")


# ---------------------------------------------------------------------------
# P17 REPLACER-RETURNS


def _definitely_returns_value(stmts: List[ast.stmt]) -> bool:
    """Every path through the statement list ends in `return <value>` or `raise`."""
    for st in stmts:
        if isinstance(st, ast.Return):
            return st.value is not None and not (isinstance(st.value, ast.Constant) and st.value.value is None)
        if isinstance(st, ast.Raise):
            return True
        if isinstance(st, ast.If) and st.orelse and _definitely_returns_value(st.body) and _definitely_returns_value(st.orelse):
            return True
        if isinstance(st, ast.Try) and (_definitely_returns_value(st.finalbody) or (_definitely_returns_value(st.body) and all(_definitely_returns_value(h.body) for h in st.handlers))):
            return True
        if isinstance(st, ast.With) and _definitely_returns_value(st.body):
            return True
    return False


def _valueless_returns(fn: ast.FunctionDef) -> List[ast.Return]:
    out = []
    stack: List[ast.AST] = list(fn.body)
    while stack:
        n = stack.pop()
        if isinstance(n, (ast.FunctionDef, ast.AsyncFunctionDef, ast.Lambda, ast.ClassDef)):
            continue
        if isinstance(n, ast.Return) and (n.value is None or (isinstance(n.value, ast.Constant) and n.value.value is None)):
            out.append(n)
        stack.extend(ast.iter_child_nodes(n))
    return out


@rule("P17", "REPLACER-RETURNS: a visitor method whose result the traversal stores back in place of the visited statement (`statements[i] = visitor.visit_x(statement)`) returns a statement on every path, in every visitor that defines it", ["C15", "C07"], floor=4, soft=True, default_props=["C15"])
def p17(ctx: Ctx):
    py = pyfacts(ctx)
    el = py.mod("coco/b09/elements.py")
    replacers: Dict[str, int] = {}
    for n in ast.walk(el.tree):
        if isinstance(n, ast.Assign) and isinstance(n.value, ast.Call) and isinstance(n.value.func, ast.Attribute) and isinstance(n.value.func.value, ast.Name) and n.value.func.value.id == "visitor" and n.value.func.attr.startswith("visit_") and any(isinstance(t, (ast.Subscript, ast.Attribute)) for t in n.targets):
            replacers.setdefault(n.value.func.attr, n.lineno)
    if len(replacers) < 2:
        from .core import IdiomNotFound

        raise IdiomNotFound(f"only {len(replacers)} `x[i] = visitor.visit_..(..)` sites found in elements.py (the traversal no longer stores hook results by name)")
    n_impl = 0
    for rel in ("coco/b09/visitors.py", "coco/b09/elements.py", "coco/b09/compiler.py", "coco/b09/error_handler.py"):
        try:
            mod = py.mod(rel)
        except Exception:
            continue
        for cls in [c for c in mod.tree.body if isinstance(c, ast.ClassDef)]:
            for m in [x for x in cls.body if isinstance(x, ast.FunctionDef) and x.name in replacers]:
                n_impl += 1
                bare = _valueless_returns(m)
                total = _definitely_returns_value(m.body)
                ok = total and not bare
                ctx.ob(
                    f"{cls.name}.{m.name}",
                    ok,
                    "" if ok else f"`{cls.name}.{m.name}` can end without returning a statement ({'`return` without a value at line ' + str(bare[0].lineno) if bare else 'a path falls off the end'}); the traversal stores the result in the statement list (elements.py:{replacers[m.name]}), so the statement is replaced by None and the next pass fails with AttributeError",
                    file=rel,
                    line=bare[0].lineno if bare else m.lineno,
                    witness="" if ok else '10 READ A$,B$ / 20 DATA FOO,',
                )
    ctx.need(n_impl >= 4, "implementations", f"only {n_impl} implementations of {sorted(replacers)} found")


# ---------------------------------------------------------------------------
# P18 JOIN-STRINGS


def _numeric_properties(tree: ast.AST) -> Set[str]:
    """Property / attribute names that are declared numeric everywhere they are declared (`-> int`, `Union[int, None]`)."""
    num: Set[str] = set()
    other: Set[str] = set()
    for cls in [c for c in ast.walk(tree) if isinstance(c, ast.ClassDef)]:
        for m in cls.body:
            if isinstance(m, ast.FunctionDef) and any(isinstance(d, ast.Name) and d.id == "property" for d in m.decorator_list):
                ann = unparse(m.returns) if m.returns is not None else ""
                ids = set(re.findall(r"[A-Za-z_]+", ann))
                if ids and ids <= {"int", "float", "Union", "Optional", "None"} and ids & {"int", "float"}:
                    num.add(m.name)
                else:
                    other.add(m.name)
    return num - other


def _join_sites(tree: ast.AST, numeric: Set[str]):
    """(call, offending element expression or None) for every `<text>.join(...)` whose elements are spelled at the call."""
    for c in ast.walk(tree):
        if not (isinstance(c, ast.Call) and isinstance(c.func, ast.Attribute) and c.func.attr == "join" and len(c.args) == 1):
            continue
        if not (isinstance(c.func.value, ast.Constant) and isinstance(c.func.value.value, str)) and not isinstance(c.func.value, (ast.JoinedStr, ast.Name, ast.Attribute)):
            continue
        a = c.args[0]
        elts: List[ast.AST] = []
        if isinstance(a, (ast.GeneratorExp, ast.ListComp, ast.SetComp)):
            elts = [a.elt]
        elif isinstance(a, (ast.List, ast.Tuple)):
            elts = [e.value if isinstance(e, ast.Starred) else e for e in a.elts]
        bad = None
        for e in elts:
            while isinstance(e, ast.IfExp):
                e = e.body
            if isinstance(e, ast.Attribute) and e.attr in numeric:
                bad = e
            elif isinstance(e, ast.Constant) and isinstance(e.value, (int, float)) and not isinstance(e.value, bool):
                bad = e
            elif isinstance(e, ast.Call) and isinstance(e.func, ast.Name) and e.func.id in ("len", "int", "float", "ord", "sum", "abs"):
                bad = e
        yield c, bad


@rule("P18", "JOIN-STRINGS: what is handed to `str.join` is text: an element that is a numeric attribute (`.linenum`, `.num` - declared `int`), a number or `len(..)` raises TypeError the first time the list is not empty", ["C15"], floor=6)
def p18(ctx: Ctx):
    py = pyfacts(ctx)
    numeric = _numeric_properties(py.mod("coco/b09/elements.py").tree)
    ctx.need(len(numeric) >= 2, "numeric properties", f"only {sorted(numeric)} found in elements.py (expected the line-number attributes)")
    probe = ast.parse("msg = ', '.join(s.linenum for s in stmts)")
    twin = ast.parse("msg = ', '.join(str(s.linenum) for s in stmts)")
    ctx.need(any(b is not None for _, b in _join_sites(probe, numeric | {"linenum"})) and all(b is None for _, b in _join_sites(twin, numeric | {"linenum"})), "self-test", "the built-in positive example / its twin are no longer told apart")
    n = 0
    for rel in ("coco/b09/compiler.py", "coco/b09/visitors.py", "coco/b09/elements.py", "coco/b09/prog.py", "coco/b09/error_handler.py", "coco/b09/procbank.py", "coco/b09/parser.py", "coco/decb_to_b09.py"):
        try:
            tree = ast.parse(ctx.path(rel).read_text())
        except Exception:
            continue
        sites = list(_join_sites(tree, numeric))
        n += len(sites)
        bad = [(c, b) for c, b in sites if b is not None]
        ctx.ob(
            rel,
            not bad,
            "" if not bad else f"`{unparse(bad[0][0])[:80]}` joins `{unparse(bad[0][1])}`, which is a number, not text: the statement raises TypeError (an internal exception instead of the conversion or the documented refusal it was meant to produce)",
            file=rel,
            line=bad[0][0].lineno if bad else 1,
            witness="" if not bad else "10 ON ERR GOTO 100 / 20 ON ERR GOTO 200",
        )
    ctx.units["P18_join_sites"] = n
    ctx.need(n >= 10, "join sites", f"only {n} `.join(` calls found")


# ---------------------------------------------------------------------------
# L14 PARAM-READ

# parameters that are declared for call compatibility only (one named symbol each, with the reason)
_UNREAD_BY_DESIGN = {
    ("ecb_hpaint", "c0"): "HPAINT's border colour: OS-9's FILL floods the area of the start pixel's colour and has no border operand; the parameter keeps the emitted call uniform",
}


@rule("L14", "PARAM-READ: every parameter a library procedure declares is read (or assigned, for a result) somewhere in its body - an operand the tool passes in a position the procedure never looks at does not reach the device", ["C04", "C14", "C20"], floor=50, default_props=["C04"])
def l14(ctx: Ctx):
    from .b09lib import LIB_REL, b09lib

    L = b09lib(ctx)
    for name, p in sorted(L.procs.items()):
        body = "\n".join(s_.text for s_ in L.all_stmts(p)).lower()
        body = re.sub(r'"[^"]*"', '""', body)
        unread = [pn for pn, _, _ in p.params if not re.search(rf"(?<![\w$.]){re.escape(pn)}(?![\w$])", body)]
        stale = [pn for pn in unread if (name, pn) in _UNREAD_BY_DESIGN]
        bad = [pn for pn in unread if (name, pn) not in _UNREAD_BY_DESIGN]
        for pn in stale:
            ctx.info(f"{name}.{pn}", f"declared but not read, by design: {_UNREAD_BY_DESIGN[(name, pn)]}", file=LIB_REL, line=p.line)
        # which other parameter is tested twice is the usual way this happens (a copied IF block): name it
        ctx.ob(
            name,
            not bad,
            "" if not bad else f"procedure {name} never reads its parameter `{bad[0]}` (position {[x[0] for x in p.params].index(bad[0]) + 1}): the operand the tool passes there has no effect" + ("; " + ", ".join(f"`{q}` is tested {n_} times" for q, n_ in sorted({q: len(re.findall(rf'(?im)^\s*if\b[^\n]*(?<![\w$.]){re.escape(q)}(?![\w$])', chr(10).join(s_.text for s_ in L.all_stmts(p)).lower())) for q, _, _ in p.params}.items()) if n_ > 1) if bad else ""),
            file=LIB_REL,
            line=p.line,
            props=["C20", "C04"] if name in ("ecb_instr", "ecb_string", "ecb_val", "ecb_str", "ecb_hex", "ecb_int") else None,
        )


# ---------------------------------------------------------------------------
# G20 LITERAL-STOPS-AT-KEYWORD


def _keywords_after_expression(p) -> Set[str]:
    """Keywords that can stand directly after an expression / a statement (the same walk as G10)."""
    from .rules_more3 import _can_end_with_name, _first_keywords

    blank = p.blank_only()
    out: Set[str] = set()
    for rname in sorted(p.rules):
        e = p.rules[rname]
        if (e.name or rname) != rname:
            continue
        stack = [e]
        vis = set()
        while stack:
            x = stack.pop()
            if id(x) in vis:
                continue
            vis.add(id(x))
            for m in getattr(x, "members", ()) or ():
                if not m.name:
                    stack.append(m)
            if p.kind(x) != "seq":
                continue
            ms = [m for m in x.members if not blank[id(m)] and p.kind(m) != "lookahead"]
            for a, b in zip(ms, ms[1:]):
                if _can_end_with_name(p, a):
                    out |= _first_keywords(p, b)
    return out


@rule("G20", "LITERAL-STOPS-AT-KEYWORD: the numeric terminal never takes the first letters of a keyword that follows the number (the `E` of ELSE read as an exponent), with or without blanks in between - asked of the terminal's own pattern, for every spelling of a number", ["C08", "C02"], floor=6, default_props=["C08"])
def g20(ctx: Ctx):
    p = peg(ctx)
    nl = p.rules.get("num_literal")
    ctx.need(nl is not None and p.kind(nl) == "regex", "num_literal", "terminal not found")
    kws = sorted(k for k in _keywords_after_expression(p) if re.fullmatch(r"[A-Z]+\$?", k))
    ctx.need(len(kws) >= 5, "keywords", f"only {kws} found after expressions")
    spellings = ("1", "12", "2.5", ".5", "1.", "0")
    for kw in kws:
        bad = None
        for s_ in spellings:
            for gap in ("", " ", "  "):
                text = s_ + gap + kw + " 1"
                m = nl.re.match(text)
                if m is None:
                    continue
                if m.end() > len(s_) + len(gap):
                    bad = (text, m.group(0))
                    break
            if bad:
                break
        ctx.ob(
            f"num_literal:{kw}",
            bad is None,
            "" if bad is None else f"in `{bad[0]}` the numeric terminal matches `{bad[1]}`: it takes letters of the keyword {kw} that follows the number, so the statement is refused (or read differently) in this layout while the same statement without the blank / with an integer is accepted",
            file=GRAMMAR_REL,
            line=p.line("num_literal"),
            witness="" if bad is None else f"10 IF A THEN B={bad[0].split(kw)[0]}{kw} C=1",
        )


# ---------------------------------------------------------------------------
# P19 COLLECTED-CLASS-BUILT


@rule("P19", "COLLECTED-CLASS-BUILT: every statement class that convert() looks for by type (a class object handed to a collecting pass, an isinstance test in a pass) is built by the parser for some source statement - a class nobody builds makes the pass that waits for it dead, and the statement it stands for is handled as something else", ["C06", "C02", "C15"], floor=2, default_props=["C06"])
def p19(ctx: Ctx):
    py = pyfacts(ctx)
    comp = py.mod("coco/b09/compiler.py")
    conv = next((f for f in comp.tree.body if isinstance(f, ast.FunctionDef) and f.name == "convert"), None)
    ctx.need(conv is not None, "convert", "not found in compiler.py")
    wanted: Dict[str, int] = {}
    for c in ast.walk(conv):
        if isinstance(c, ast.Call):
            for a in list(c.args) + [k.value for k in c.keywords]:
                if isinstance(a, ast.Name) and a.id in py.classes and py.is_subclass(a.id, "AbstractBasicConstruct"):
                    wanted.setdefault(a.id, c.lineno)
    ctx.need(len(wanted) >= 2, "collected classes", f"only {sorted(wanted)} handed to a pass as a class object in convert()")
    built: Set[str] = set()
    for rel in ("coco/b09/parser.py", "coco/b09/visitors.py", "coco/b09/compiler.py", "coco/b09/error_handler.py", "coco/b09/elements.py"):
        try:
            tree = py.mod(rel).tree
        except Exception:
            continue
        for c in ast.walk(tree):
            if isinstance(c, ast.Call) and isinstance(c.func, ast.Name) and c.func.id in py.classes:
                built.add(c.func.id)
        # a class object handed on as a value (`self._on_trap_go(BasicOnBrkGoStatement, children)`) may be called there:
        # every load of the class name that is not an isinstance / issubclass operand or an annotation counts
        if rel != "coco/b09/compiler.py":
            excluded = set()
            for c in ast.walk(tree):
                if isinstance(c, ast.Call) and isinstance(c.func, ast.Name) and c.func.id in ("isinstance", "issubclass") and len(c.args) == 2:
                    excluded |= {id(x) for x in ast.walk(c.args[1])}
                if isinstance(c, (ast.FunctionDef,)):
                    for a in c.args.args + c.args.kwonlyargs:
                        if a.annotation is not None:
                            excluded |= {id(x) for x in ast.walk(a.annotation)}
                    if c.returns is not None:
                        excluded |= {id(x) for x in ast.walk(c.returns)}
                if isinstance(c, ast.AnnAssign):
                    excluded |= {id(x) for x in ast.walk(c.annotation)}
            for fdef in [f for f in ast.walk(tree) if isinstance(f, ast.FunctionDef)]:
                for c in [x for b_ in fdef.body for x in ast.walk(b_)]:
                    if isinstance(c, ast.Name) and isinstance(c.ctx, ast.Load) and c.id in py.classes and id(c) not in excluded:
                        built.add(c.id)
    for k, ln in sorted(wanted.items()):
        ok = any(py.is_subclass(b, k) for b in built)
        sibs = sorted(b for b in built if b != k and py.mro(b)[1:2] and py.mro(k)[1:2] and py.mro(b)[1].name == py.mro(k)[1].name)[:3]
        ctx.ob(
            k,
            ok,
            "" if ok else f"convert() collects statements of class `{k}` (line {ln}) but nothing in the parser or the passes ever builds one: the source statement it stands for is built as another class (siblings that are built: {sibs}) and is handled by that class' pass - e.g. an ON BRK target treated as the ON ERR target",
            file="coco/b09/compiler.py",
            line=ln,
            witness="" if ok else "10 ON BRK GOTO 100",
            props=["C06", "C02"],
        )


# ---------------------------------------------------------------------------
# P20 FILTER-CHOICE


@rule("P20", "FILTER-CHOICE: which of the label-filtering passes runs is decided by the filter option alone (the test that chooses between them reads no program-derived value): with the option on, unused labels go whatever the program contains", ["C06", "C11"], floor=1, soft=True)
def p20(ctx: Ctx):
    from .core import IdiomNotFound

    py = pyfacts(ctx)
    comp = py.mod("coco/b09/compiler.py")
    conv = next((f for f in comp.tree.body if isinstance(f, ast.FunctionDef) and f.name == "convert"), None)
    if conv is None:
        raise IdiomNotFound("convert() not found")
    params = {a.arg for a in conv.args.args + conv.args.kwonlyargs}
    # label filters: visitor classes that set the `referenced` flag of lines
    vis = py.mod("coco/b09/visitors.py")
    filters = {c.name for c in vis.tree.body if isinstance(c, ast.ClassDef) and any(isinstance(x, ast.Call) and isinstance(x.func, ast.Attribute) and x.func.attr == "set_is_referenced" for x in ast.walk(c))}
    if len(filters) < 2:
        raise IdiomNotFound(f"fewer than two label-filtering passes found ({sorted(filters)})")

    def built(e) -> Set[str]:
        # (a class named as a value is the constructor chosen now and called later: `cls = A if opt else B; cls(refs)`)
        return {c.id for c in ast.walk(e) if isinstance(c, ast.Name) and isinstance(c.ctx, ast.Load) and c.id in filters}

    n = 0
    for node in ast.walk(conv):
        test = None
        if isinstance(node, ast.IfExp):
            a, b = built(node.body), built(node.orelse)
            if a and b and a != b:
                test = node.test
        elif isinstance(node, ast.If) and node.orelse:
            a = set().union(*[built(s_) for s_ in node.body])
            b = set().union(*[built(s_) for s_ in node.orelse])
            if a and b and a != b:
                test = node.test
        if test is None:
            continue
        n += 1
        names = {x.id for x in ast.walk(test) if isinstance(x, ast.Name)}
        extra = sorted(names - params)
        attrs = [unparse(x) for x in ast.walk(test) if isinstance(x, ast.Attribute)]
        ok = not extra and not attrs
        ctx.ob(
            f"choice@{sorted(a)[0]}/{sorted(b)[0]}",
            ok,
            "" if ok else f"`{unparse(test)}` decides between {sorted(a)} and {sorted(b)}: besides the option it reads {attrs or extra}, so with the option on a program for which that value is empty / false keeps all its labels",
            file="coco/b09/compiler.py",
            line=test.lineno,
            witness="" if ok else "-l with 10 A=1 / 20 PRINT A  (no jump anywhere)",
        )
    if n == 0:
        raise IdiomNotFound("no place in convert() that chooses between two label-filtering passes")


# ---------------------------------------------------------------------------
# L15 DUPLICATE-RESULT


def _assigned_params(L, p) -> Set[int]:
    """Positions of the parameters a library procedure assigns (directly, or by handing them to a callee that assigns)."""
    out: Set[int] = set()
    names = [x[0] for x in p.params]
    for s_ in L.all_stmts(p):
        if s_.kind in ("assign", "read") and s_.target in names:
            out.add(names.index(s_.target))
        if s_.kind == "run":
            for a in s_.run_args:
                a_ = a.strip().lower()
                if a_ in names:
                    out.add(names.index(a_))  # may be assigned by the callee: not a pure input
    return out


@rule("L15", "DUPLICATE-RESULT: a library procedure never computes the same thing twice into two different variables - two RUNs of one pure helper with the same inputs and different result variables make the two results equal by construction (a copied line whose callee was not changed: min / min instead of min / max)", ["C04", "C20", "C14"], floor=1, default_props=["C04"])
def l15(ctx: Ctx):
    from .b09lib import LIB_REL, b09lib

    L = b09lib(ctx)
    norm = lambda t: re.sub(r"\s+", "", t.lower())
    n_pairs = 0
    for name, p in sorted(L.procs.items()):
        runs = [s_ for s_ in L.all_stmts(p) if s_.kind == "run" and s_.run_name in L.procs]
        bad = None
        for i, a in enumerate(runs):
            callee = L.procs[a.run_name]
            outs = _assigned_params(L, callee)
            if len(outs) != 1 or len(a.run_args) != len(callee.params):
                continue
            (o,) = outs
            for b in runs[i + 1 :]:
                if b.run_name != a.run_name or len(b.run_args) != len(a.run_args):
                    continue
                n_pairs += 1
                same_in = all(norm(x) == norm(y) for k, (x, y) in enumerate(zip(a.run_args, b.run_args)) if k != o)
                if same_in and norm(a.run_args[o]) != norm(b.run_args[o]):
                    # the inputs must not change between the two calls
                    between = [s_ for s_ in L.all_stmts(p) if a.line < s_.line < b.line or (s_.line == a.line and s_ is not a)]
                    ins = {w for k, x in enumerate(a.run_args) if k != o for w in re.findall(r"[a-z_][a-z0-9_$]*", x.lower())}
                    if not any(s_.kind in ("assign", "read", "for") and (s_.target in ins or any(re.match(rf"(?i)\s*for\s+{re.escape(w)}\b", s_.text) for w in ins)) for s_ in between):
                        bad = (a, b, o)
        ctx.ob(
            name,
            bad is None,
            "" if bad is None else f"`{bad[0].text.strip()}` (line {bad[0].line}) and `{bad[1].text.strip()}` (line {bad[1].line}) hand the same inputs to `{bad[0].run_name}`, which only computes its parameter {bad[2] + 1}: `{bad[0].run_args[bad[2]].strip()}` and `{bad[1].run_args[bad[2]].strip()}` are always equal - one of the two lines was meant to call a different helper",
            file=LIB_REL,
            line=bad[1].line if bad else p.line,
        )
    ctx.units["L15_pairs_examined"] = n_pairs
    ctx.need(n_pairs >= 1, "pairs", "no pair of RUNs of one single-result helper found in the library")


# ---------------------------------------------------------------------------
# A5 COPY-COMPLETE


def _copy_sites(tree: ast.AST, classes: Dict[str, ast.ClassDef]):
    """(call, class, source expression, omitted defaulted parameters) for every `K(src.a, ...)` where `src` is tested to be
    a K (isinstance in an enclosing test) - a re-built copy of an existing object."""
    parents = {id(c): p for p in ast.walk(tree) for c in ast.iter_child_nodes(p)}
    for call in ast.walk(tree):
        if not (isinstance(call, ast.Call) and isinstance(call.func, ast.Name) and call.func.id in classes):
            continue
        k = call.func.id
        srcs = [unparse(a.value) for a in list(call.args) + [kw.value for kw in call.keywords] if isinstance(a, ast.Attribute)]
        if not srcs:
            continue
        # is one of the sources known to be a K here?
        known = None
        g = parents.get(id(call))
        while g is not None and known is None:
            tests = []
            if isinstance(g, (ast.If, ast.IfExp, ast.While)):
                tests.append(g.test)
            for t in tests:
                for c in ast.walk(t):
                    if isinstance(c, ast.Call) and isinstance(c.func, ast.Name) and c.func.id == "isinstance" and len(c.args) == 2 and unparse(c.args[0]) in srcs and k in {x.id for x in ast.walk(c.args[1]) if isinstance(x, ast.Name)}:
                        known = unparse(c.args[0])
            g = parents.get(id(g))
        if known is None:
            continue
        init = next((m for m in classes[k].body if isinstance(m, ast.FunctionDef) and m.name == "__init__"), None)
        if init is None:
            continue
        params = [a.arg for a in init.args.args][1:]
        nd = len(init.args.defaults)
        defaulted = params[len(params) - nd :] if nd else []
        defaulted += [a.arg for a, d in zip(init.args.kwonlyargs, init.args.kw_defaults) if d is not None]
        given = set(params[: len(call.args)]) | {kw.arg for kw in call.keywords if kw.arg}
        omitted = [p_ for p_ in defaulted if p_ not in given]
        yield call, k, known, omitted


@rule("A5", "COPY-COMPLETE: where the parser or a pass re-builds an object of a class from an existing object of that class (`K(old.a, ...)` under `isinstance(old, K)`), it passes every defaulted constructor parameter - an omitted one is silently reset (a GOSUB rebuilt as a GOTO)", ["C02", "C06", "C01"], floor=1, default_props=["C02"])
def a5(ctx: Ctx):
    py = pyfacts(ctx)
    el = py.mod("coco/b09/elements.py")
    classes = {c.name: c for c in el.tree.body if isinstance(c, ast.ClassDef)}
    probe = ast.parse("def f(s):\n    if isinstance(s, BasicGoto):\n        s = BasicGoto(s.linenum, True)\n    return s\n")
    twin = ast.parse("def f(s):\n    if isinstance(s, BasicGoto):\n        s = BasicGoto(s.linenum, True, is_gosub=s.is_gosub)\n    return s\n")
    pk = {"BasicGoto": next((c for c in el.tree.body if isinstance(c, ast.ClassDef) and c.name == "BasicGoto"), None)}
    ctx.need(pk["BasicGoto"] is not None, "BasicGoto", "class not found (the rule's built-in example needs a class with a defaulted constructor parameter)")
    ctx.need(any(om for _, _, _, om in _copy_sites(probe, pk)) and all(not om for _, _, _, om in _copy_sites(twin, pk)), "self-test", "the built-in positive example / its twin are no longer told apart")
    n = 0
    for rel in ("coco/b09/parser.py", "coco/b09/visitors.py", "coco/b09/compiler.py", "coco/b09/elements.py"):
        mod = py.mod(rel)
        sites = list(_copy_sites(mod.tree, classes))
        n += len(sites)
        bad = [(c, k, src, om) for c, k, src, om in sites if om]
        ctx.ob(
            rel,
            not bad,
            "" if not bad else f"`{unparse(bad[0][0])[:70]}` re-builds a `{bad[0][1]}` from `{bad[0][2]}` without passing {bad[0][3]}: whatever the original had there is reset to the default (for a jump: a GOSUB becomes a GOTO, its RETURN has nowhere to return to)",
            file=rel,
            line=bad[0][0].lineno if bad else 1,
            witness="" if not bad else "10 IF A=1 THEN GOSUB 100",
        )
    ctx.units["A5_copy_sites"] = n


# ---------------------------------------------------------------------------
# E23 UNSET-FIELD-GUARD


def _unset_field_derefs(cls: ast.ClassDef):
    """(method, field, node, guarded?) for every `self.<f>.<attr>` where <f> starts as None in __init__ and is filled in later."""
    init = next((m for m in cls.body if isinstance(m, ast.FunctionDef) and m.name == "__init__"), None)
    if init is None:
        return
    none_fields: Set[str] = set()
    for a in ast.walk(init):
        if isinstance(a, ast.Assign) and isinstance(a.value, ast.Constant) and a.value.value is None:
            for t in a.targets:
                if isinstance(t, ast.Attribute) and isinstance(t.value, ast.Name) and t.value.id == "self":
                    none_fields.add(t.attr)
    if not none_fields:
        return
    # fields that are always filled in together (same methods assign them): a test of one covers the other
    setters: Dict[str, Set[str]] = {f: set() for f in none_fields}
    for m in [x for x in cls.body if isinstance(x, ast.FunctionDef) and x.name != "__init__"]:
        for a in ast.walk(m):
            if isinstance(a, ast.Assign) and not (isinstance(a.value, ast.Constant) and a.value.value is None):
                for t in a.targets:
                    if isinstance(t, ast.Attribute) and isinstance(t.value, ast.Name) and t.value.id == "self" and t.attr in none_fields:
                        setters[t.attr].add(m.name)
    together = {f: {g for g in none_fields if setters[g] and setters[g] == setters[f]} for f in none_fields}

    def tested(test: ast.AST) -> Set[str]:
        return {n.attr for n in ast.walk(test) if isinstance(n, ast.Attribute) and isinstance(n.value, ast.Name) and n.value.id == "self"}

    for m in [x for x in cls.body if isinstance(x, ast.FunctionDef) and x.name != "__init__"]:
        parents = {id(c): p for p in ast.walk(m) for c in ast.iter_child_nodes(p)}
        for n in ast.walk(m):
            if not (isinstance(n, ast.Attribute) and isinstance(n.value, ast.Attribute) and isinstance(n.value.value, ast.Name) and n.value.value.id == "self" and n.value.attr in none_fields):
                continue
            f = n.value.attr
            if m.name in setters[f] and any(isinstance(a, ast.Assign) and any(isinstance(t, ast.Attribute) and t.attr == f for t in a.targets) and a.lineno < n.lineno for a in ast.walk(m)):
                yield m, f, n, True
                continue
            ok = False
            g, child = parents.get(id(n)), n
            while g is not None and not ok:
                if isinstance(g, (ast.If, ast.While)) and child is not g.test and (tested(g.test) & together[f]) and any(child is b for b in g.body):
                    ok = not (isinstance(g.test, ast.UnaryOp) and isinstance(g.test.op, ast.Not)) and not (isinstance(g.test, ast.Compare) and isinstance(g.test.ops[0], ast.Is))
                if isinstance(g, ast.IfExp) and child is g.body and (tested(g.test) & together[f]):
                    ok = True
                if isinstance(g, ast.BoolOp) and isinstance(g.op, ast.And) and any((tested(v) & together[f]) for v in g.values[: g.values.index(child)] if child in g.values):
                    ok = True
                child, g = g, parents.get(id(g))
            # a guard clause above: `if not self._f: return`
            if not ok:
                for st in m.body:
                    if st.lineno >= n.lineno:
                        break
                    if isinstance(st, ast.If) and (tested(st.test) & together[f]) and st.body and isinstance(st.body[-1], (ast.Return, ast.Raise)) and (isinstance(st.test, ast.UnaryOp) or (isinstance(st.test, ast.Compare) and isinstance(st.test.ops[0], ast.Is))):
                        ok = True
            yield m, f, n, ok


@rule("E23", "UNSET-FIELD-GUARD: an element field that starts as None and is filled in by a later pass (the result variable of a hoisted call) is dereferenced only under a test of that field (or of a field always filled in with it) - the positions no pass visits (INPUT / READ targets, VARPTR) keep it None", ["C15", "C07"], floor=2, soft=True, default_props=["C15"])
def e23(ctx: Ctx):
    from .core import IdiomNotFound

    py = pyfacts(ctx)
    el = py.mod("coco/b09/elements.py")
    n = 0
    for cls in [c for c in el.tree.body if isinstance(c, ast.ClassDef)]:
        sites = list(_unset_field_derefs(cls))
        for m, f, node, ok in sites:
            n += 1
            k = f"{cls.name}.{m.name}:{f}"
            if any(o.construct == k for o in ctx.obligations.get("E23", [])):
                if ok:
                    continue
                k += f"@{node.lineno - m.lineno}"
            ctx.ob(
                k,
                ok,
                "" if ok else f"`{cls.name}.{m.name}` reads `{unparse(node)}` with no test of `self.{f}`, which is None until a pass fills it in: for an expression in a position the passes do not visit (a subscript of an INPUT / READ target, the operand of VARPTR) conversion ends in AttributeError instead of text or a refusal",
                file="coco/b09/elements.py",
                line=node.lineno,
                witness="" if ok else "10 INPUT A(INT(X))",
            )
    if n < 2:
        raise IdiomNotFound(f"only {n} reads of a field that starts as None found in elements.py")


# ---------------------------------------------------------------------------
# G4b NAME-MAP


@rule("G4b", "NAME-MAP: every entry of the function / statement translation tables maps a Color BASIC name to the BASIC09 built-in of the same name, or to the runtime procedure named after it (`VAL` -> `RUN ecb_val`, `INKEY$` -> `RUN inkey`): an entry that names another function translates into a program that loads and computes something else (`SQR` -> `SQ` is the square)", ["C01", "C04", "C14", "C03"], floor=20, default_props=["C01"])
def g4b(ctx: Ctx):
    import ast as _ast

    # the tables as the module defines them, however they are built (displays, helper calls, dict unions): folded values
    env = peg(ctx).env
    path = ctx.path(GRAMMAR_REL)
    tree = _ast.parse(path.read_text())
    linenos = {st.targets[0].id: st.lineno for st in tree.body if isinstance(st, _ast.Assign) and len(st.targets) == 1 and isinstance(st.targets[0], _ast.Name)}
    n = 0
    for tname, d in sorted(env.items()):
        if not (isinstance(d, dict) and d and all(isinstance(k, str) and isinstance(v, str) for k, v in d.items())):
            continue
        if not all(re.fullmatch(r"[A-Z][A-Z0-9]*\$?", k) for k in d):
            continue

        class _K:  # location of the table
            lineno = linenos.get(tname, 1)

        st = type("S", (), {"targets": [type("T", (), {"id": tname})()]})()
        for key, val in d.items():
            k = _K
            n += 1
            stem = key.rstrip("$").lower()
            m = re.fullmatch(r"(?i)run\s+(\w+)", val.strip())
            if m:
                ok = m.group(1).lower() in (f"ecb_{stem}", stem)
                why = f"`{key}` is translated into `{val}`, a procedure that is not named after it (expected `RUN ecb_{stem}`)"
                props = ["C04", "C14"] if key in ("SET", "RESET", "POINT", "BUTTON", "INKEY$", "JOYSTK") else ["C01", "C03", "C14"]
            else:
                ok = val == key
                why = f"`{key}` is translated into the BASIC09 function `{val}`: a different built-in (the program loads and runs, and computes something else)"
                props = ["C01", "C03"] if key.endswith("$") or key in ("ASC", "LEN", "VAL") else ["C01"]
            ctx.ob(f"{st.targets[0].id}[{key}]", ok, "" if ok else why, file=GRAMMAR_REL, line=k.lineno, props=props, witness="" if ok else f"10 A={key}(9)")
    ctx.need(n >= 20, "translation tables", f"only {n} entries found in the name tables of grammar.py")


# ---------------------------------------------------------------------------
# E24 INIT-CHAIN


def _init_fields(init: ast.FunctionDef) -> Set[str]:
    return {t.attr for a in ast.walk(init) if isinstance(a, (ast.Assign, ast.AnnAssign)) for t in (a.targets if isinstance(a, ast.Assign) else [a.target]) if isinstance(t, ast.Attribute) and isinstance(t.value, ast.Name) and t.value.id == "self"}


def _calls_super_init(init: ast.FunctionDef) -> bool:
    for c in ast.walk(init):
        if isinstance(c, ast.Call) and isinstance(c.func, ast.Attribute) and c.func.attr == "__init__":
            v = c.func.value
            if isinstance(v, ast.Call) and isinstance(v.func, ast.Name) and v.func.id == "super":
                return True
            if isinstance(v, ast.Name) and v.id[:1].isupper():
                return True  # Base.__init__(self, ...)
    return False


@rule("E24", "INIT-CHAIN: a construct class whose base class' constructor sets fields that inherited properties / methods read either calls that constructor or sets those fields itself - otherwise the first pass that asks the object (is_str_expr ...) ends in AttributeError", ["C15", "C07"], floor=20, default_props=["C15"])
def e24(ctx: Ctx):
    py = pyfacts(ctx)
    el = py.mod("coco/b09/elements.py")
    classes = {c.name: c for c in el.tree.body if isinstance(c, ast.ClassDef)}

    def own_init(c: ast.ClassDef) -> Optional[ast.FunctionDef]:
        return next((m for m in c.body if isinstance(m, ast.FunctionDef) and m.name == "__init__"), None)

    def bases(c: ast.ClassDef) -> List[ast.ClassDef]:
        out = []
        for b in c.bases:
            if isinstance(b, ast.Name) and b.id in classes:
                out.append(classes[b.id])
                out.extend(bases(classes[b.id]))
        return out

    n = 0
    for name, c in sorted(classes.items()):
        init = own_init(c)
        if init is None:
            continue
        anc = bases(c)
        # nearest ancestor with a constructor of its own that sets fields
        base = next((b for b in anc if own_init(b) is not None and _init_fields(own_init(b))), None)
        if base is None:
            continue
        n += 1
        need = _init_fields(own_init(base))
        # only the fields that code of the ancestors actually reads
        # (methods the class - or a class between it and the ancestor - overrides no longer run for it)
        own_names = {m.name for k_ in [c] + [b for b in anc[: anc.index(base)]] for m in k_.body if isinstance(m, ast.FunctionDef)}
        read = {a.attr for b in [base] + bases(base) for m in b.body if isinstance(m, ast.FunctionDef) and m.name != "__init__" and m.name not in own_names for a in ast.walk(m) if isinstance(a, ast.Attribute) and isinstance(a.ctx, ast.Load) and isinstance(a.value, ast.Name) and a.value.id == "self"}
        missing = sorted((need & read) - _init_fields(init))
        ok = _calls_super_init(init) or not missing
        ctx.ob(
            name,
            ok,
            "" if ok else f"`{name}.__init__` neither calls `{base.name}.__init__` nor sets {missing}, which `{base.name}` sets and its inherited methods read: the first pass that reads them on a `{name}` object (e.g. `.is_str_expr` of `PRINT -A`) raises AttributeError",
            file="coco/b09/elements.py",
            line=init.lineno,
            witness="" if ok else "10 PRINT -A",
        )
    ctx.need(n >= 20, "subclass constructors", f"only {n} found in elements.py")


# ---------------------------------------------------------------------------
# E9c LITERAL-EXACT


def _lossy_number_formats(fn: ast.AST):
    """Places where a number held in a field is turned into text with a precision-limiting format."""
    for n in ast.walk(fn):
        if isinstance(n, ast.FormattedValue) and n.format_spec is not None:
            spec = "".join(str(c.value) for c in getattr(n.format_spec, "values", []) if isinstance(c, ast.Constant))
            if re.search(r"[feEgG%]$|^\.?\d", spec) and not re.fullmatch(r"[xXobd]|0?\d*[xXobd]", spec) and any(isinstance(a, ast.Attribute) and isinstance(a.value, ast.Name) and a.value.id == "self" for a in ast.walk(n.value)):
                yield n, f"format spec `:{spec}`"
        if isinstance(n, ast.BinOp) and isinstance(n.op, ast.Mod) and isinstance(n.left, ast.Constant) and isinstance(n.left.value, str) and re.search(r"%[-+0-9.]*[feEgG]", n.left.value):
            yield n, f"`{n.left.value} % ...`"
        if isinstance(n, ast.Call) and isinstance(n.func, ast.Name) and n.func.id in ("round", "format") and len(n.args) >= 2 and any(isinstance(a, ast.Attribute) and isinstance(a.value, ast.Name) and a.value.id == "self" for a in ast.walk(n.args[0])):
            yield n, f"`{n.func.id}(...)`"


@rule("E9c", "LITERAL-EXACT: a numeric constant of the source is written with Python's shortest round-trip text (`f\"{x}\"` / str / repr), never through a fixed-precision format, round() or %f: `1.5E-7` must not become `0.000000`", ["C01", "C03"], floor=2, default_props=["C01"])
def e9c(ctx: Ctx):
    probe = ast.parse("class K:\n    def basic09_text(self, i):\n        return f'{self._literal:f}'\n")
    twin = ast.parse("class K:\n    def basic09_text(self, i):\n        return f'{self._literal}'\n")
    ctx.need(list(_lossy_number_formats(probe)) and not list(_lossy_number_formats(twin)), "self-test", "the built-in positive example / its twin are no longer told apart")
    py = pyfacts(ctx)
    el = py.mod("coco/b09/elements.py")
    n = 0
    for cls in [c for c in el.tree.body if isinstance(c, ast.ClassDef) and "Literal" in c.name]:
        for m in [x for x in cls.body if isinstance(x, ast.FunctionDef) and x.name in ("basic09_text", "__init__", "literal")]:
            n += 1
            bad = list(_lossy_number_formats(m))
            ctx.ob(
                f"{cls.name}.{m.name}",
                not bad,
                "" if not bad else f"`{cls.name}.{m.name}` writes the number through {bad[0][1]}: digits beyond the fixed precision are lost (1.5E-7 -> 0.000000), the translated program computes with another constant",
                file="coco/b09/elements.py",
                line=bad[0][0].lineno if bad else m.lineno,
                witness="" if not bad else "10 A=1.5E-7",
            )
    ctx.need(n >= 2, "literal classes", f"only {n} literal-printing methods found")
