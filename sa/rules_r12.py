"""Rules added after seed round 12.
E31 PAREN-KEPT: the callback of a parenthesised-expression rule wraps its operand on every path."""

from __future__ import annotations

import ast
from typing import Dict, List, Optional, Set, Tuple

from .core import Ctx, IdiomNotFound, rule
from .peg import peg
from .pyast import pyfacts, unparse

PARSER_REL = "coco/b09/parser.py"

# constructs that are a single operand under BASIC09's rules whatever stands next to them: dropping the source
# parentheses around one of these cannot change the operator tree
_ATOMIC_HINT = ("Var", "Literal", "ArrayRef", "FunctionCall", "FunctionalExpression", "ParenExp", "Varptr", "Joystk")


def _is_operator_class(py, name: str) -> Optional[bool]:
    """True: instances print an operator at top level (binary / prefix forms); False: atoms; None: unknown class."""
    if name not in py.classes:
        return None
    seen: Set[str] = set()
    todo = [name]
    while todo:
        c = todo.pop()
        if c in seen or c not in py.classes:
            continue
        seen.add(c)
        if c in ("BasicBinaryExp", "BasicOpExp"):
            return True
        todo.extend(py.classes[c].bases)
    if any(h in name for h in _ATOMIC_HINT):
        return False
    return None


@rule("E31", "PAREN-KEPT: the callback of a rule `\"(\" exp \")\"` hands on a parenthesised construct on every path where the operand can print an operator at top level", ["C01"], floor=2, soft=True)
def e31(ctx: Ctx):
    py = pyfacts(ctx)
    p = peg(ctx)
    bv = py.cls("BasicVisitor")
    # rule instances from the grammar: a sequence whose first and last non-blank members are the literals ( and )
    # around exactly one expression rule
    found = 0
    for rname in ("paren_exp", "bool_paren_exp"):
        r = p.rules.get(rname)
        fn = bv.methods.get("visit_" + rname)
        if r is None or fn is None:
            raise IdiomNotFound(f"{rname}: grammar rule or callback not found")
        found += 1
        # local names bound once to a plain expression
        env: Dict[str, ast.AST] = {}
        multi: Set[str] = set()
        for a in ast.walk(fn):
            if isinstance(a, ast.Assign) and len(a.targets) == 1 and isinstance(a.targets[0], ast.Name):
                n = a.targets[0].id
                if n in env:
                    multi.add(n)
                env[n] = a.value
        child_names = {n for n, v in env.items() if n not in multi and isinstance(v, ast.Subscript) and isinstance(v.value, ast.Name)}

        def is_child(e: ast.AST) -> bool:
            if isinstance(e, ast.Name) and e.id in child_names:
                return True
            return isinstance(e, ast.Subscript) and isinstance(e.value, ast.Name) and e.value.id == fn.args.args[2].arg if len(fn.args.args) > 2 else False

        def guard_classes(test: ast.AST) -> Optional[Tuple[List[str], bool]]:
            """(classes, positive) for `isinstance(child, K)` / `isinstance(child, (K1, K2))` / `not isinstance(..)`."""
            pos = True
            if isinstance(test, ast.UnaryOp) and isinstance(test.op, ast.Not):
                pos, test = False, test.operand
            if isinstance(test, ast.Call) and isinstance(test.func, ast.Name) and test.func.id == "isinstance" and len(test.args) == 2 and is_child(test.args[0]):
                k = test.args[1]
                ks = k.elts if isinstance(k, ast.Tuple) else [k]
                if all(isinstance(x, ast.Name) for x in ks):
                    return [x.id for x in ks], pos
            return None

        def judge(e: ast.AST, bare_ok_for: Optional[List[str]], where: int) -> None:
            """e: an expression the callback returns; bare_ok_for: classes the operand is known to be (None = any)."""
            if isinstance(e, ast.Name) and e.id in env and e.id not in multi and e.id not in child_names:
                e = env[e.id]
            if isinstance(e, ast.IfExp):
                g = guard_classes(e.test)
                if g is None:
                    raise IdiomNotFound(f"{rname}: condition `{unparse(e.test)}` not read")
                ks, pos = g
                judge(e.body, ks if pos else None, where)
                judge(e.orelse, None if pos else ks, where)
                return
            if isinstance(e, ast.Call) and isinstance(e.func, ast.Name) and e.func.id in py.classes:
                cls = e.func.id
                wraps = cls.endswith("ParenExp") or any(b.endswith("ParenExp") for b in py.classes[cls].bases)
                if not wraps:
                    raise IdiomNotFound(f"{rname}: returns a `{cls}`; not a shape this rule reads")
                ctx.ob(f"{rname}:wraps", True, file=PARSER_REL, line=where)
                return
            if is_child(e):
                if bare_ok_for is None:
                    ctx.ob(
                        f"{rname}:bare-operand",
                        False,
                        f"`visit_{rname}` hands the operand on without its parentheses: `(A+B)*C` is emitted as `A + B * C`",
                        file=PARSER_REL,
                        line=where,
                        witness="10 A=(B+C)*D",
                    )
                    return
                kinds = [(_is_operator_class(py, k), k) for k in bare_ok_for]
                ops = [k for v, k in kinds if v is True]
                if ops:
                    ctx.ob(
                        f"{rname}:bare-operand",
                        False,
                        f"`visit_{rname}` drops the source parentheses when the operand is a {' / '.join(ops)}: its operator is re-grouped with the neighbours under BASIC09's priorities (`(-B+C)*D` is emitted as `- B + C * D`)",
                        file=PARSER_REL,
                        line=where,
                        witness="10 A=(-B+C)*D",
                    )
                    return
                if any(v is None for v, _ in kinds):
                    raise IdiomNotFound(f"{rname}: cannot tell whether {[k for v, k in kinds if v is None]} print an operator")
                ctx.ob(f"{rname}:bare-atom", True, file=PARSER_REL, line=where)
                return
            raise IdiomNotFound(f"{rname}: return value `{unparse(e)[:60]}` not read")

        def block(stmts: List[ast.stmt], known: Optional[List[str]]) -> None:
            for i, st in enumerate(stmts):
                if isinstance(st, ast.Return) and st.value is not None:
                    judge(st.value, known, st.lineno)
                    return
                if isinstance(st, ast.If):
                    g = guard_classes(st.test)
                    if g is None:
                        raise IdiomNotFound(f"{rname}: condition `{unparse(st.test)}` not read")
                    ks, pos = g
                    block(st.body, ks if pos else None)
                    rest = st.orelse if st.orelse else stmts[i + 1 :]
                    block(rest, None if pos else ks)
                    return
                if isinstance(st, (ast.Assign, ast.AnnAssign)) or (isinstance(st, ast.Expr) and isinstance(st.value, ast.Constant)):
                    continue
                raise IdiomNotFound(f"{rname}: statement {type(st).__name__} not read")

        block(fn.body, None)
    if found < 2:
        raise IdiomNotFound("parenthesised-expression rules not found")
