"""M3: model of BasicVisitor - which method handles which PEG rule, how it unpacks its children."""

from __future__ import annotations

import ast
from dataclasses import dataclass, field
from typing import Dict, List, Optional, Set, Tuple

from .core import AnalysisError, Ctx
from .peg import peg
from .pyast import pyfacts, walk_no_nested

PARSER_REL = "coco/b09/parser.py"
VISITOR_CLASS = "BasicVisitor"


@dataclass
class Unpack:
    names: List[Optional[str]]  # None for non-name targets
    line: int
    guarded_nonempty: bool = False  # dominated by an emptiness test of visited_children
    source: str = ""  # method that holds the unpack (helpers / delegates)


@dataclass
class VisitMethod:
    name: str
    rule: str
    fn: ast.FunctionDef
    node_param: str
    children_param: str
    unpacks: List[Unpack] = field(default_factory=list)
    const_subscripts: List[Tuple[int, int]] = field(default_factory=list)  # (index, line)
    whole_use: bool = False  # visited_children used as a whole (returned, iterated, sliced)
    delegates: List[str] = field(default_factory=list)  # self.visit_X(node, visited_children)
    used_names: Set[str] = field(default_factory=set)


class VisitorModel:
    def __init__(self, ctx: Ctx):
        self.ctx = ctx
        py = pyfacts(ctx)
        self.mod = py.mod(PARSER_REL)
        if VISITOR_CLASS not in self.mod.classes:
            raise AnalysisError("M3", VISITOR_CLASS, "parse-tree visitor class not found in parser.py")
        self.cls = self.mod.classes[VISITOR_CLASS]
        # mix-in base classes defined in the project contribute their methods (method resolution order)
        import copy as _copy

        merged = _copy.copy(self.cls)
        merged.methods = dict(self.cls.methods)
        if hasattr(self.cls, "classmethods"):
            merged.classmethods = dict(self.cls.classmethods)
        try:
            for base in py.mro(VISITOR_CLASS)[1:]:
                for k_, v_ in base.methods.items():
                    merged.methods.setdefault(k_, v_)
                for k_, v_ in getattr(base, "classmethods", {}).items():
                    merged.classmethods.setdefault(k_, v_)
        except Exception:
            pass
        self.cls = merged
        self.methods: Dict[str, VisitMethod] = {}
        for name, fn in self.cls.methods.items():
            if not name.startswith("visit_") and name != "generic_visit":
                continue
            args = [a.arg for a in fn.args.args]
            if len(args) != 3:
                raise AnalysisError("M3", name, f"visitor method with unexpected signature {args}")
            vm = VisitMethod(name, name[len("visit_") :] if name != "generic_visit" else "*", fn, args[1], args[2])
            self._scan(vm)
            self.methods[name] = vm
        ctx.units["visitor_methods"] = len([m for m in self.methods if m != "generic_visit"])

    def _scan(self, vm: VisitMethod):
        ch = vm.children_param
        parents: Dict[int, ast.AST] = {}
        for n in walk_no_nested(vm.fn):
            for c in ast.iter_child_nodes(n):
                parents[id(c)] = n
        # emptiness guard: `if not visited_children: return ...` as an earlier top-level statement
        guard_line = None
        for st in vm.fn.body:
            if isinstance(st, ast.If) and _is_empty_test(st.test, ch) and st.body and isinstance(st.body[-1], ast.Return):
                guard_line = st.lineno
        # names read inside nested functions / lambdas are uses of the enclosing method's locals (closures)
        for inner in ast.walk(vm.fn):
            if inner is not vm.fn and isinstance(inner, (ast.FunctionDef, ast.Lambda)):
                own = {a.arg for a in inner.args.args + inner.args.kwonlyargs}
                for x in ast.walk(inner):
                    if isinstance(x, ast.Name) and isinstance(x.ctx, ast.Load) and x.id not in own:
                        vm.used_names.add(x.id)
        for n in walk_no_nested(vm.fn):
            if isinstance(n, ast.Name) and isinstance(n.ctx, ast.Load):
                vm.used_names.add(n.id)
            if isinstance(n, ast.Assign) and isinstance(n.value, ast.Name) and n.value.id == ch:
                for t in n.targets:
                    if isinstance(t, (ast.Tuple, ast.List)):
                        if any(isinstance(e, ast.Starred) for e in t.elts):
                            vm.whole_use = True
                            continue
                        names = [e.id if isinstance(e, ast.Name) else None for e in t.elts]
                        vm.unpacks.append(
                            Unpack(names, n.lineno, (guard_line is not None and guard_line < n.lineno) or _inside_nonempty_branch(n, parents, ch), vm.name)
                        )
                    else:
                        vm.whole_use = True
            elif isinstance(n, ast.Name) and n.id == ch and isinstance(n.ctx, ast.Load):
                p = parents.get(id(n))
                if isinstance(p, ast.Assign) and p.value is n and any(isinstance(t, (ast.Tuple, ast.List)) for t in p.targets):
                    continue
                if isinstance(p, ast.Subscript) and p.value is n:
                    if isinstance(p.slice, ast.Constant) and isinstance(p.slice.value, int):
                        vm.const_subscripts.append((p.slice.value, p.lineno))
                    else:
                        vm.whole_use = True
                    continue
                if isinstance(p, ast.Call) and isinstance(p.func, ast.Attribute) and isinstance(p.func.value, ast.Name) and p.func.value.id == "self" and n in p.args:
                    if p.func.attr.startswith("visit_"):
                        vm.delegates.append(p.func.attr)
                        continue
                if isinstance(p, ast.Call) and isinstance(p.func, ast.Name) and p.func.id == "len":
                    continue
                if isinstance(p, ast.UnaryOp) and isinstance(p.op, ast.Not):
                    continue
                if isinstance(p, (ast.If, ast.IfExp)) and p.test is n:
                    continue
                vm.whole_use = True

    def method_for_rule(self, rule: str) -> Optional[VisitMethod]:
        return self.methods.get("visit_" + rule)

    def effective_unpacks(self, vm: VisitMethod, depth=0) -> Tuple[List[Unpack], List[Tuple[int, int]], bool]:
        """Unpacks, constant subscripts and whole-use flag, following `self.visit_X(node, visited_children)`."""
        ups = list(vm.unpacks)
        subs = list(vm.const_subscripts)
        whole = vm.whole_use
        if depth < 4:
            for d in vm.delegates:
                t = self.methods.get(d)
                if t is None:
                    raise AnalysisError("M3", vm.name, f"delegates to unknown visitor method {d}")
                u2, s2, w2 = self.effective_unpacks(t, depth + 1)
                ups += u2
                subs += s2
                whole = whole or w2
        return ups, subs, whole


def _is_nonempty_test(t: ast.AST, ch: str) -> bool:
    if isinstance(t, ast.Name) and t.id == ch:
        return True
    if isinstance(t, ast.BoolOp) and isinstance(t.op, ast.And):
        return any(_is_nonempty_test(v, ch) for v in t.values)
    if isinstance(t, ast.Compare) and len(t.ops) == 1 and isinstance(t.left, ast.Call) and isinstance(t.left.func, ast.Name) and t.left.func.id == "len":
        a = t.left.args
        c = t.comparators[0]
        if a and isinstance(a[0], ast.Name) and a[0].id == ch and isinstance(c, ast.Constant) and isinstance(c.value, int):
            op = t.ops[0]
            return (isinstance(op, (ast.Gt, ast.NotEq)) and c.value == 0) or (isinstance(op, ast.GtE) and c.value >= 1) or (isinstance(op, ast.Eq) and c.value >= 1)
    return False


def _inside_nonempty_branch(n: ast.AST, parents: Dict[int, ast.AST], ch: str) -> bool:
    """The statement lies in the branch of an `if` that is only taken when the children list is not empty."""
    cur = n
    while id(cur) in parents:
        par = parents[id(cur)]
        if isinstance(par, ast.If):
            in_body = any(cur is b for b in par.body)
            in_else = any(cur is b for b in par.orelse)
            if (in_body and _is_nonempty_test(par.test, ch)) or (in_else and _is_empty_test(par.test, ch)):
                return True
        cur = par
    return False


def _is_empty_test(t: ast.AST, ch: str) -> bool:
    if isinstance(t, ast.UnaryOp) and isinstance(t.op, ast.Not) and isinstance(t.operand, ast.Name) and t.operand.id == ch:
        return True
    if isinstance(t, ast.Compare) and isinstance(t.left, ast.Call) and isinstance(t.left.func, ast.Name) and t.left.func.id == "len":
        a = t.left.args
        if a and isinstance(a[0], ast.Name) and a[0].id == ch and len(t.ops) == 1 and isinstance(t.ops[0], ast.Eq):
            c = t.comparators[0]
            return isinstance(c, ast.Constant) and c.value == 0
    return False


def visitormodel(ctx: Ctx) -> VisitorModel:
    return ctx.engine("visitormodel", VisitorModel)
