"""P5 DETERMINISM: no unordered iteration into the output, no nondeterministic sources, no cross-call state."""

from __future__ import annotations

import ast
from typing import Dict, List, Optional, Set, Tuple
import re

from .core import AnalysisError, Ctx, rule
from .pyast import Module, call_name, is_self_attr, pyfacts, unparse, walk_no_nested

SET_ANN = ("Set[", "set", "Set", "FrozenSet[", "frozenset", "typing.Set[", "AbstractSet[")
INSENSITIVE_CONSUMERS = {"set", "frozenset", "sorted", "any", "all", "sum", "len", "min", "max"}
SET_MUTATORS = {"add", "update", "discard", "remove", "difference_update", "intersection_update", "clear"}
NONDET_CALLS = {"id", "hash", "getpid", "time", "urandom", "uuid4", "uuid1", "random", "randint", "choice", "shuffle", "listdir", "scandir", "glob", "iglob", "getenv", "now", "today", "monotonic", "perf_counter"}


def _ann_is_set(a: Optional[ast.AST]) -> bool:
    if a is None:
        return False
    s = unparse(a).replace("typing.", "")
    return s in ("set", "Set", "frozenset") or s.startswith(("Set[", "FrozenSet[", "AbstractSet[", "set[", "frozenset["))


class SetTyper:
    """Which attributes / properties / locals hold a Python set."""

    def __init__(self, mods: List[Module]):
        self.attr_defs: Dict[str, List[bool]] = {}  # attribute name -> [is_set per definition]
        for m in mods:
            for ci in m.classes.values():
                for n in ci.node.body:
                    if isinstance(n, ast.AnnAssign) and isinstance(n.target, ast.Name):
                        self.attr_defs.setdefault(n.target.id, []).append(_ann_is_set(n.annotation))
                for fn in list(ci.methods.values()):
                    for n in ast.walk(fn):
                        if isinstance(n, ast.Assign):
                            for t in n.targets:
                                if is_self_attr(t):
                                    self.attr_defs.setdefault(t.attr, []).append(self._expr_is_set_shallow(n.value))
                        elif isinstance(n, ast.AnnAssign) and is_self_attr(n.target):
                            self.attr_defs.setdefault(n.target.attr, []).append(_ann_is_set(n.annotation) or (n.value is not None and self._expr_is_set_shallow(n.value)))
                for pn, fn in ci.properties.items():
                    is_set = _ann_is_set(fn.returns)
                    if not is_set:
                        rets = [r.value for r in ast.walk(fn) if isinstance(r, ast.Return) and r.value is not None]
                        is_set = bool(rets) and all(self._expr_is_set_shallow(r) or self._is_set_attr_expr(r) for r in rets)
                    self.attr_defs.setdefault(pn, []).append(is_set)
        # methods whose every return value is a set (locals resolved inside the method)
        self.method_defs: Dict[str, List[bool]] = {}
        for m in mods:
            for ci in m.classes.values():
                for mn, fn in ci.methods.items():
                    rets = [r.value for r in ast.walk(fn) if isinstance(r, ast.Return) and r.value is not None]
                    if not rets:
                        continue
                    loc: Dict[str, bool] = {}
                    for n in ast.walk(fn):
                        if isinstance(n, ast.Assign) and self._expr_is_set_shallow(n.value):
                            for t in n.targets:
                                if isinstance(t, ast.Name):
                                    loc[t.id] = True
                    self.method_defs.setdefault(mn, []).append(_ann_is_set(fn.returns) or all(self._expr_is_set_shallow(r) or (isinstance(r, ast.Name) and loc.get(r.id, False)) for r in rets))
        # second round: properties returning self._x where _x is a set
        for m in mods:
            for ci in m.classes.values():
                for pn, fn in ci.properties.items():
                    rets = [r.value for r in ast.walk(fn) if isinstance(r, ast.Return) and r.value is not None]
                    if rets and all(self.expr_is_set(r, {}) for r in rets):
                        self.attr_defs[pn] = [True if not x else x for x in self.attr_defs.get(pn, [])] or [True]

    def _expr_is_set_shallow(self, e: ast.AST) -> bool:
        if isinstance(e, (ast.Set, ast.SetComp)):
            return True
        if isinstance(e, ast.Call):
            cn = call_name(e)
            if cn in ("set", "frozenset"):
                return True
            if cn == "copy" and isinstance(e.func, ast.Attribute):
                return self._expr_is_set_shallow(e.func.value) or self._is_set_attr_expr(e.func.value)
            if cn == "defaultdict":
                return False
        return False

    def _is_set_attr_expr(self, e: ast.AST) -> bool:
        if isinstance(e, ast.Attribute):
            d = self.attr_defs.get(e.attr)
            return bool(d) and all(d)
        return False

    def attr_is_set(self, name: str) -> bool:
        d = self.attr_defs.get(name)
        return bool(d) and all(d)

    def expr_is_set(self, e: ast.AST, local: Dict[str, bool]) -> bool:
        if self._expr_is_set_shallow(e):
            return True
        if isinstance(e, ast.Name):
            return local.get(e.id, False)
        if isinstance(e, ast.Attribute):
            return self.attr_is_set(e.attr)
        if isinstance(e, ast.BinOp) and isinstance(e.op, (ast.Sub, ast.BitOr, ast.BitAnd, ast.BitXor)):
            return self.expr_is_set(e.left, local) or self.expr_is_set(e.right, local)
        if isinstance(e, ast.Call) and isinstance(e.func, ast.Attribute):
            if e.func.attr in ("union", "intersection", "difference", "symmetric_difference", "copy") and self.expr_is_set(e.func.value, local):
                return True
            if e.func.attr in ("keys", "values", "items"):
                return False
            d = self.method_defs.get(e.func.attr)
            if d and all(d) and is_self_attr(e.func):
                return True
        if isinstance(e, ast.Subscript):
            # defaultdict(lambda: set())[k]
            v = e.value
            if isinstance(v, ast.Attribute):
                return self.attr_defs.get(v.attr + "[]", [False])[-1]
        if isinstance(e, ast.IfExp):
            return self.expr_is_set(e.body, local) or self.expr_is_set(e.orelse, local)
        return False


def _dictset_attrs(mods: List[Module], typer: SetTyper):
    """self._x = defaultdict(lambda: set()) -> subscripts of _x are sets."""
    for m in mods:
        for n in ast.walk(m.tree):
            if isinstance(n, ast.Assign) and isinstance(n.value, ast.Call) and call_name(n.value) == "defaultdict" and n.value.args:
                lam = n.value.args[0]
                is_set = (isinstance(lam, ast.Lambda) and typer._expr_is_set_shallow(lam.body)) or (isinstance(lam, ast.Name) and lam.id in ("set", "frozenset"))
                for t in n.targets:
                    if is_self_attr(t):
                        typer.attr_defs.setdefault(t.attr + "[]", []).append(is_set)


def _order_insensitive_stmts(body: List[ast.stmt], cls_methods: Dict[str, ast.FunctionDef], seen: Set[str]) -> bool:
    for st in body:
        if isinstance(st, ast.Expr) and isinstance(st.value, ast.Call):
            c = st.value
            if isinstance(c.func, ast.Attribute):
                if c.func.attr in SET_MUTATORS:
                    continue
                if is_self_attr(c.func) and c.func.attr in cls_methods:
                    if c.func.attr in seen:
                        continue
                    if _order_insensitive_stmts(cls_methods[c.func.attr].body, cls_methods, seen | {c.func.attr}):
                        continue
            elif isinstance(c.func, ast.Name) and c.func.id in cls_methods:
                # a (nested) function that itself only accumulates into sets - typically the recursion of a closure
                if c.func.id in seen:
                    continue
                if _order_insensitive_stmts(cls_methods[c.func.id].body, cls_methods, seen | {c.func.id}):
                    continue
            return False
        if isinstance(st, ast.If):
            if _order_insensitive_stmts(st.body, cls_methods, seen) and _order_insensitive_stmts(st.orelse, cls_methods, seen):
                continue
            return False
        if isinstance(st, ast.For):
            if _order_insensitive_stmts(st.body, cls_methods, seen):
                continue
            return False
        if isinstance(st, (ast.Return, ast.Pass, ast.Continue)):
            if isinstance(st, ast.Return) and st.value is not None:
                return False
            continue
        if isinstance(st, ast.Expr) and isinstance(st.value, ast.Constant):
            continue
        if isinstance(st, ast.AugAssign) and isinstance(st.op, (ast.BitOr, ast.Add)) and isinstance(st.value, ast.Constant):
            continue
        return False
    return True


_MUTATORS_P5 = {"setdefault", "update", "pop", "popitem", "append", "extend", "insert", "add", "clear", "remove", "discard", "sort", "reverse"}


_ITER_MAKERS = ("iter", "map", "filter", "zip", "enumerate", "reversed", "chain", "islice", "count", "cycle", "accumulate", "repeat")


def _stateful_iterator(v: ast.AST) -> bool:
    """A value that is consumed / advanced by reading it: generator expression, iter(), map() ..., itertools.count()."""
    if isinstance(v, ast.GeneratorExp):
        return True
    if isinstance(v, ast.Call):
        f = v.func
        if isinstance(f, ast.Name) and f.id in _ITER_MAKERS:
            return True
        if isinstance(f, ast.Attribute) and f.attr in _ITER_MAKERS and isinstance(f.value, ast.Name) and f.value.id == "itertools":
            return True
    return False


@rule("P5", "DETERMINISM: no iteration over a set reaches the output unsorted; no nondeterministic source; no state kept between calls", ["C12"], floor=3)
def p5(ctx: Ctx):
    py = pyfacts(ctx)
    mods = [m for rel, m in py.modules.items()]
    typer = SetTyper(mods)
    _dictset_attrs(mods, typer)
    n_iter = 0
    for m in mods:
        parents: Dict[int, ast.AST] = {}
        for n in ast.walk(m.tree):
            for c in ast.iter_child_nodes(n):
                parents[id(c)] = n

        def enclosing(n, kinds):
            x = parents.get(id(n))
            while x is not None and not isinstance(x, kinds):
                x = parents.get(id(x))
            return x

        def func_of(n):
            return enclosing(n, (ast.FunctionDef, ast.AsyncFunctionDef))

        def class_of(n):
            return enclosing(n, (ast.ClassDef,))

        def local_sets(fn) -> Dict[str, bool]:
            loc: Dict[str, bool] = {}
            if fn is None:
                return loc
            for a in fn.args.args + fn.args.kwonlyargs:
                if _ann_is_set(a.annotation):
                    loc[a.arg] = True
            for _ in range(3):
                for n in walk_no_nested(fn):
                    if isinstance(n, ast.Assign):
                        v = typer.expr_is_set(n.value, loc)
                        for t in n.targets:
                            if isinstance(t, ast.Name) and v:
                                loc[t.id] = True
                    elif isinstance(n, ast.AnnAssign) and isinstance(n.target, ast.Name):
                        if _ann_is_set(n.annotation) or (n.value is not None and typer.expr_is_set(n.value, loc)):
                            loc[n.target.id] = True
            return loc

        for n in ast.walk(m.tree):
            its: List[Tuple[ast.AST, ast.AST, str]] = []  # (iterable expr, site node, kind)
            if isinstance(n, ast.For):
                its.append((n.iter, n, "for"))
            elif isinstance(n, (ast.ListComp, ast.GeneratorExp, ast.DictComp, ast.SetComp)):
                for g in n.generators:
                    its.append((g.iter, n, "comp"))
            elif isinstance(n, ast.Call):
                cn = call_name(n)
                if cn in ("list", "tuple", "enumerate", "iter", "next", "zip", "map", "filter", "reversed") and n.args:
                    for a in n.args:
                        its.append((a, n, "call:" + cn))
                elif cn == "join" and n.args:
                    its.append((n.args[0], n, "join"))
            elif isinstance(n, ast.Starred):
                its.append((n.value, n, "star"))
            if isinstance(n, ast.Call) and call_name(n) == "sorted" and n.args:
                fn = func_of(n)
                if typer.expr_is_set(n.args[0], local_sets(fn)):
                    n_iter += 1
                    where = f"{(class_of(n).name + '.') if class_of(n) else ''}{fn.name if fn else '<module>'}"
                    keyf = next((k.value for k in n.keywords if k.arg == "key"), None)
                    okk = True
                    if keyf is not None:
                        # ties of a key function keep the set's iteration order: the key has to contain the element itself
                        okk = False
                        if isinstance(keyf, ast.Lambda) and len(keyf.args.args) == 1:
                            a0 = keyf.args.args[0].arg
                            b = keyf.body
                            okk = (isinstance(b, ast.Name) and b.id == a0) or (isinstance(b, ast.Tuple) and any(isinstance(e, ast.Name) and e.id == a0 for e in b.elts))
                    ctx.ob(
                        f"{where}:sorted({unparse(n.args[0])})",
                        okk,
                        "" if okk else f"`{unparse(n)}` sorts a set by a key that does not contain the element itself: elements with equal keys stay in the set's iteration order, which follows the string hash seed",
                        file=m.rel,
                        line=n.lineno,
                        facts={"kind": "sorted"},
                    )
            for it, site, kind in its:
                fn = func_of(site)
                loc = local_sets(fn)
                if not typer.expr_is_set(it, loc):
                    continue
                n_iter += 1
                where = f"{(class_of(site).name + '.') if class_of(site) else ''}{fn.name if fn else '<module>'}"
                key = f"{where}:{unparse(it)}"
                # order-insensitive consumers
                reason = None
                par = parents.get(id(site))
                if kind == "comp" and isinstance(site, ast.SetComp):
                    reason = "builds a set"
                if kind in ("comp", "call:list", "call:tuple", "call:map", "call:filter") and isinstance(par, ast.Call):
                    pc = call_name(par)
                    if pc in INSENSITIVE_CONSUMERS or pc in SET_MUTATORS:
                        reason = f"consumed by {pc}()"
                if kind == "for":
                    ci = class_of(site)
                    methods = {}
                    if ci is not None:
                        methods = {x.name: x for x in ci.body if isinstance(x, ast.FunctionDef)}
                    # enclosing / sibling nested functions are callable by bare name
                    outer_fn = fn
                    while outer_fn is not None:
                        for x in ast.walk(outer_fn):
                            if isinstance(x, ast.FunctionDef) and x is not outer_fn:
                                methods.setdefault(x.name, x)
                        methods.setdefault(outer_fn.name, outer_fn)
                        outer_fn = func_of(outer_fn)
                    if _order_insensitive_stmts(site.body, methods, {fn.name} if fn else set()):
                        reason = "loop body only accumulates into sets"
                if reason is None and enclosing(site, (ast.Raise,)) is not None:
                    reason = "flows only into an exception message (a refusal, not output)"
                if reason is None and fn is not None:
                    # ... or into a local that is used only to build an exception message
                    asg = enclosing(site, (ast.Assign,))
                    if asg is not None and len(asg.targets) == 1 and isinstance(asg.targets[0], ast.Name):
                        nm_ = asg.targets[0].id
                        uses = [u for u in ast.walk(fn) if isinstance(u, ast.Name) and u.id == nm_ and isinstance(u.ctx, ast.Load)]
                        if uses and all(enclosing(u, (ast.Raise,)) is not None for u in uses):
                            reason = "flows only into an exception message (through a local)"
                ok = reason is not None
                ctx.ob(
                    key,
                    ok,
                    "" if ok else f"iterates the set `{unparse(it)}` without sorted(): the order of what is produced from it follows the string hash seed (PYTHONHASHSEED), so the same input can give different output",
                    file=m.rel,
                    line=site.lineno,
                    facts={"kind": kind, "discharged_by": reason},
                )
        # nondeterministic sources
        for n in ast.walk(m.tree):
            if isinstance(n, ast.Call):
                cn = call_name(n)
                if cn in NONDET_CALLS:
                    base = unparse(n.func)
                    if cn in ("time", "random", "choice", "shuffle", "randint", "now", "today") and not any(base.startswith(p) for p in ("time.", "random.", "datetime.", "os.")) and cn not in ("id", "hash"):
                        continue
                    if cn in ("id", "hash") and not isinstance(n.func, ast.Name):
                        continue
                    ctx.ob(f"{m.rel}:{base}", False, f"call of `{base}` makes the result depend on something other than input and options", file=m.rel, line=n.lineno)
            if isinstance(n, ast.Attribute) and unparse(n) == "os.environ":
                ctx.ob(f"{m.rel}:os.environ", False, "reads the process environment", file=m.rel, line=n.lineno)
        # memoised functions that hand out objects: the same object is shared by later conversions
        for fn in [x for x in ast.walk(m.tree) if isinstance(x, ast.FunctionDef)]:
            decos = [unparse(d) for d in fn.decorator_list]
            if any(re.search(r"\b(lru_cache|cache|cached_property)\b", d) for d in decos):
                builds = any(isinstance(c, ast.Call) and isinstance(c.func, ast.Name) and c.func.id[:1].isupper() for c in ast.walk(fn)) or any(isinstance(c, ast.Call) and any(isinstance(a_, ast.Name) and a_.id == "cls" for a_ in c.args) for c in ast.walk(fn))
                reads = any(isinstance(c, ast.Call) and (call_name(c) in ("open", "read", "read_text", "read_bytes", "load", "safe_load")) for c in ast.walk(fn))
                ctx.ob(
                    f"{m.rel}:{fn.name}:memoised",
                    not builds and not reads,
                    "" if not builds and not reads else f"`{fn.name}` is memoised ({', '.join(decos)}) and " + ("reads a file: a later call in the same process gets what the file held the first time, whatever it holds now" if reads else "returns an object it builds: every later conversion in the process receives the same object, so whatever one conversion adds to it leaks into the next"),
                    file=m.rel,
                    line=fn.lineno,
                )
        # cross-call state: module-level mutable containers mutated inside functions / class-level containers
        mutable_globals = {
            k
            for k, v in m.assigns.items()
            if isinstance(v, (ast.List, ast.Dict, ast.Set, ast.ListComp, ast.DictComp, ast.SetComp))
            or (isinstance(v, ast.Call) and call_name(v) in ("list", "dict", "set", "defaultdict", "OrderedDict", "bytearray"))
            or (isinstance(v, ast.BinOp) and isinstance(v.op, ast.Mult) and (isinstance(v.left, ast.List) or isinstance(v.right, ast.List)))
        }
        for fn in [x for x in ast.walk(m.tree) if isinstance(x, (ast.FunctionDef,))]:
            # a local that is just another name for a module-level container
            aliases = {}
            for a in ast.walk(fn):
                if isinstance(a, ast.Assign) and isinstance(a.value, ast.Name) and a.value.id in mutable_globals:
                    for t in a.targets:
                        if isinstance(t, ast.Name):
                            aliases[t.id] = (a.value.id, a.lineno)
            for n in ast.walk(fn):
                tgt = None
                if isinstance(n, (ast.Assign, ast.AugAssign)):
                    for t in (n.targets if isinstance(n, ast.Assign) else [n.target]):
                        if isinstance(t, ast.Subscript) and isinstance(t.value, ast.Name) and t.value.id in aliases:
                            tgt = t.value.id
                if isinstance(n, ast.Call) and isinstance(n.func, ast.Attribute) and isinstance(n.func.value, ast.Name) and n.func.value.id in aliases and n.func.attr in ("append", "add", "update", "extend", "insert", "pop", "remove", "clear", "setdefault", "discard", "sort", "reverse"):
                    tgt = n.func.value.id
                if tgt is not None:
                    g, ln = aliases[tgt]
                    ctx.ob(f"{m.rel}:{fn.name}:{g}:alias", False, f"`{tgt}` is bound to the module-level container `{g}` (line {ln}) without copying it and is then modified: what one call writes is still there at the next call in the same process", file=m.rel, line=n.lineno)
                    break
            for n in ast.walk(fn):
                if isinstance(n, ast.Global):
                    ctx.ob(f"{m.rel}:{fn.name}:global", False, f"`global {', '.join(n.names)}`: state carried between calls", file=m.rel, line=n.lineno)
                if isinstance(n, ast.Call) and isinstance(n.func, ast.Attribute) and isinstance(n.func.value, ast.Name) and n.func.value.id in mutable_globals:
                    if n.func.attr in ("append", "add", "update", "extend", "insert", "pop", "remove", "clear", "setdefault", "discard"):
                        shadow = any(isinstance(a, ast.Assign) and any(isinstance(t, ast.Name) and t.id == n.func.value.id for t in a.targets) for a in ast.walk(fn))
                        if not shadow:
                            ctx.ob(f"{m.rel}:{fn.name}:{n.func.value.id}.{n.func.attr}", False, f"module-level container `{n.func.value.id}` is mutated: state carried between calls", file=m.rel, line=n.lineno)
                if isinstance(n, (ast.Assign, ast.AugAssign)):
                    for t in (n.targets if isinstance(n, ast.Assign) else [n.target]):
                        if isinstance(t, ast.Subscript) and isinstance(t.value, ast.Name) and t.value.id in mutable_globals:
                            shadow = any(isinstance(a, ast.Assign) and any(isinstance(tt, ast.Name) and tt.id == t.value.id for tt in a.targets) for a in ast.walk(fn))
                            if not shadow:
                                ctx.ob(f"{m.rel}:{fn.name}:{t.value.id}[]", False, f"module-level container `{t.value.id}` is written: state carried between calls", file=m.rel, line=n.lineno)
        # a default argument that is one shared mutable object (a display, a container call, an instance of a project class)
        # and is modified inside the function: what one call stores is there for every later call that relies on the default
        for fn in [x for x in ast.walk(m.tree) if isinstance(x, ast.FunctionDef)]:
            pos = fn.args.args[len(fn.args.args) - len(fn.args.defaults) :] if fn.args.defaults else []
            pairs = list(zip(pos, fn.args.defaults)) + [(a_, d_) for a_, d_ in zip(fn.args.kwonlyargs, fn.args.kw_defaults) if d_ is not None]
            for a_, d_ in pairs:
                shared = isinstance(d_, (ast.List, ast.Dict, ast.Set)) or (isinstance(d_, ast.Call) and isinstance(d_.func, ast.Name) and (d_.func.id in ("list", "dict", "set", "defaultdict", "bytearray") or d_.func.id in py.classes))
                if not shared:
                    continue
                touched = None
                for x in ast.walk(fn):
                    if isinstance(x, ast.Call) and isinstance(x.func, ast.Attribute) and x.func.attr in _MUTATORS_P5:
                        r_ = x.func.value
                        while isinstance(r_, (ast.Attribute, ast.Subscript)):
                            r_ = r_.value
                        if isinstance(r_, ast.Name) and r_.id == a_.arg:
                            touched = x
                    if isinstance(x, (ast.Assign, ast.AugAssign)):
                        for t_ in (x.targets if isinstance(x, ast.Assign) else [x.target]):
                            r_ = t_
                            while isinstance(r_, (ast.Attribute, ast.Subscript)):
                                r_ = r_.value
                            if isinstance(t_, (ast.Attribute, ast.Subscript)) and isinstance(r_, ast.Name) and r_.id == a_.arg:
                                touched = x
                if touched is not None:
                    ctx.ob(f"{m.rel}:{fn.name}:{a_.arg}:shared-default", False, f"parameter `{a_.arg}` of `{fn.name}` defaults to one object created when the module is loaded (`{unparse(d_)}`), and the function modifies it (`{unparse(touched)[:60]}`): what one call stores is still there in every later call that uses the default", file=m.rel, line=touched.lineno)
        # module-level one-shot iterators (a generator expression, iter(), map(), filter(), zip() ...) read inside a function:
        # the first call consumes them, every later call sees them empty
        for gname, v in sorted(m.assigns.items()):
            oneshot = _stateful_iterator(v)
            if not oneshot:
                continue
            users = [fn for fn in ast.walk(m.tree) if isinstance(fn, ast.FunctionDef) and any(isinstance(x, ast.Name) and x.id == gname and isinstance(x.ctx, ast.Load) for x in ast.walk(fn))]
            if users:
                ctx.ob(f"{m.rel}:{gname}:one-shot", False, f"module-level `{gname}` is a one-shot iterator (`{unparse(v)[:50]}`) read inside `{users[0].name}`: the first call in a process consumes it, later calls find it empty and produce different output from the same input", file=m.rel, line=v.lineno)
        # module-level instances of classes that keep state in attributes set outside __init__, used inside functions
        for gname, v in sorted(m.assigns.items()):
            if not (isinstance(v, ast.Call) and isinstance(v.func, ast.Name) and v.func.id in py.classes):
                # objects kept inside a module-level container (`LINES = [BasicLine(...), ...]`) are shared the same way:
                # the passes patch constructs in place and programs adopt the lines they are handed
                inner = [c for c in ast.walk(v) if isinstance(c, ast.Call) and isinstance(c.func, ast.Name) and c.func.id in py.classes and py.is_subclass(c.func.id, "AbstractBasicConstruct")] if isinstance(v, (ast.List, ast.Tuple, ast.Dict, ast.Set)) else []
                users_c = [fn for fn in ast.walk(m.tree) if isinstance(fn, ast.FunctionDef) and any(isinstance(x, ast.Name) and x.id == gname and isinstance(x.ctx, ast.Load) for x in ast.walk(fn))]
                if inner and users_c:
                    ctx.ob(f"{m.rel}:{gname}:shared-constructs", False, f"module-level `{gname}` holds `{inner[0].func.id}` objects built once per process and handed out by `{users_c[0].name}`: constructs are patched in place by the passes (and a program keeps the lines it is given), so what one conversion does to them is still there in the next", file=m.rel, line=v.lineno)
                continue
            cinfo = py.classes[v.func.id]
            stateful = [f"{c2.name}.{mn}" for c2 in py.mro(v.func.id) for mn, mf in c2.methods.items() if mn != "__init__" and any(isinstance(a, (ast.Assign, ast.AugAssign)) and any(is_self_attr(t) for t in (a.targets if isinstance(a, ast.Assign) else [a.target])) for a in ast.walk(mf))] + [f"{c2.name}.{mn}" for c2 in py.mro(v.func.id) for mn, mf in c2.methods.items() if mn != "__init__" and any(isinstance(c, ast.Call) and isinstance(c.func, ast.Attribute) and c.func.attr in _MUTATORS_P5 and is_self_attr(c.func.value) for c in ast.walk(mf))]
            users = [fn for fn in ast.walk(m.tree) if isinstance(fn, ast.FunctionDef) and any(isinstance(x, ast.Name) and x.id == gname and isinstance(x.ctx, ast.Load) for x in ast.walk(fn))]
            if stateful and users:
                ctx.ob(f"{m.rel}:{gname}:shared-instance", False, f"module-level `{gname}` is one `{v.func.id}` object shared by every call of `{users[0].name}`; `{stateful[0]}` stores into it, and nothing resets it: what one conversion records is still there in the next", file=m.rel, line=v.lineno)
        for ci in m.classes.values():
            for st in ci.node.body:
                if isinstance(st, (ast.Assign, ast.AnnAssign)):
                    v = st.value
                    # a class-level iterator / counter (`_ids = itertools.count(1)`) advances for the life of the process
                    if v is not None and _stateful_iterator(v):
                        nm = unparse(st.targets[0] if isinstance(st, ast.Assign) else st.target)
                        users_ = [f_.name for f_ in ast.walk(ci.node) if isinstance(f_, ast.FunctionDef) and any(isinstance(x, ast.Attribute) and x.attr == nm and isinstance(x.value, ast.Name) and x.value.id in ("self", "cls", ci.name) for x in ast.walk(f_))]
                        if users_:
                            ctx.ob(f"{m.rel}:{ci.name}.{nm}:class-iterator", False, f"class-level `{ci.name}.{nm}` is one iterator (`{unparse(v)[:40]}`) shared by every instance and advanced in `{users_[0]}`: numbers handed out in one conversion are not handed out again in the next, so the same program converts to different text the second time", file=m.rel, line=st.lineno)
                        continue
                    if v is not None and (isinstance(v, (ast.List, ast.Dict, ast.Set)) or (isinstance(v, ast.Call) and call_name(v) in ("list", "dict", "set", "defaultdict"))):
                        nm = unparse(st.targets[0] if isinstance(st, ast.Assign) else st.target)
                        ctx.ob(f"{m.rel}:{ci.name}.{nm}", False, f"class-level mutable container `{ci.name}.{nm}` is shared by all instances: state carried between conversions", file=m.rel, line=st.lineno)
    ctx.units["set_iterations"] = n_iter
    # positive control: the typer must recognise a set difference of two set attributes
    probe = ast.parse("self._referenced_var_names - self._dimmed_var_names").body[0].value
    typer2 = typer
    if not (typer2.attr_is_set("_dimmed_var_names") or typer2.attr_is_set("_references") or typer2.attr_is_set("_vars")):
        raise AnalysisError("P5", "typer", "no set-typed attribute recognised in coco/b09 (typer lost its anchors)")
    # sorted() sites that keep the output deterministic today are counted as discharged instances
    for m in mods:
        for n in ast.walk(m.tree):
            if isinstance(n, ast.Call) and call_name(n) == "sorted" and n.args:
                pass


# ---------------------------------------------------------------------------
# P13 EMISSION-READ-ONLY

_MUTATORS = {"setdefault", "update", "pop", "popitem", "append", "extend", "insert", "add", "clear", "remove", "discard", "sort", "reverse", "__setitem__", "__delitem__"}


def _root_name(e: ast.AST) -> Optional[str]:
    while isinstance(e, (ast.Attribute, ast.Subscript)):
        e = e.value
    if isinstance(e, ast.Call) and isinstance(e.func, ast.Attribute):
        return _root_name(e.func.value)
    return e.id if isinstance(e, ast.Name) else None


@rule("P13", "EMISSION-READ-ONLY: producing the output text changes nothing that outlives it - no store into, and no mutating call on, an object reached from `self` or from a parameter inside a `basic09_text` method", ["C12"], floor=40)
def p13(ctx: Ctx):
    py = pyfacts(ctx)
    n = 0
    for rel in ("coco/b09/elements.py", "coco/b09/prog.py"):
        m = py.modules.get(rel)
        if m is None:
            continue
        for cn, ci in sorted(m.classes.items()):
            for mn, fn in sorted(ci.methods.items()):
                if "basic09_text" not in mn:
                    continue
                n += 1
                params = {a.arg for a in fn.args.args}
                # locals bound to a fresh container are the method's own; locals that alias a field / parameter are not
                aliases: Set[str] = set()
                for a in walk_no_nested(fn):
                    if isinstance(a, ast.Assign) and len(a.targets) == 1 and isinstance(a.targets[0], ast.Name) and isinstance(a.value, (ast.Attribute, ast.Name, ast.Subscript)) and _root_name(a.value) in params | aliases:
                        aliases.add(a.targets[0].id)
                bad = []
                for x in walk_no_nested(fn):
                    if isinstance(x, ast.Call) and isinstance(x.func, ast.Attribute) and x.func.attr in _MUTATORS and isinstance(x.func.value, (ast.Attribute, ast.Subscript, ast.Name)):
                        r_ = _root_name(x.func.value)
                        if r_ in params | aliases and not (isinstance(x.func.value, ast.Name) and x.func.value.id not in aliases and x.func.value.id not in params):
                            bad.append((x.lineno, unparse(x)[:70]))
                    if isinstance(x, (ast.Assign, ast.AugAssign, ast.Delete)):
                        tgts = x.targets if isinstance(x, (ast.Assign, ast.Delete)) else [x.target]
                        for t in tgts:
                            if isinstance(t, (ast.Attribute, ast.Subscript)) and _root_name(t) in params | aliases:
                                bad.append((x.lineno, unparse(t)[:70]))
                ok = not bad
                ctx.ob(f"{cn}.{mn}", ok, "" if ok else f"`{cn}.{mn}` changes `{bad[0][1]}` (line {bad[0][0]}) while producing text: the object belongs to the program / the caller's options, so a second emission or a later conversion that shares it sees a different state", file=rel, line=bad[0][0] if bad else fn.lineno)
    ctx.need(n >= 1, "elements", "no basic09_text method found")
