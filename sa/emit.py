"""M5/M6: what an element class prints and what it visits.

For every class the MRO-resolved `basic09_text` and `visit` are walked in source order (following
`super().m(...)`), and every call `X.basic09_text(..)`, `X.visit(visitor)`, `visitor.visit_*(X)` is
recorded together with the *origin* of X: which field of `self` it comes from, through which
attributes / element iterations.
"""

from __future__ import annotations

import ast
from dataclasses import dataclass
from typing import Dict, List, Optional, Set, Tuple

from .core import AnalysisError, Ctx
from .pyast import ClassInfo, PyFacts, pyfacts, unparse

ELEMENTS_REL = "coco/b09/elements.py"

# origins (tuples):
#  ("self",)  ("field", name)  ("elem", o)  ("attr", o, name)  ("union", (o...))  ("wrap", cls, (o...))
#  ("param", name)  ("other",)
Origin = tuple
OTHER = ("other",)


@dataclass
class Event:
    kind: str  # print | visit | callback | return
    origin: Origin
    line: int
    cls: str  # class whose method body holds the event
    name: str = ""  # callback name
    cond: Optional[str] = None  # innermost enclosing `if` test (source text)
    node: Optional[ast.AST] = None


def roots(o: Origin) -> Set[str]:
    k = o[0]
    if k == "field":
        return {o[1]}
    if k == "self":
        return {"<self>"}
    if k in ("elem",):
        return roots(o[1])
    if k in ("attr", "part"):
        return roots(o[1])
    if k == "union":
        out: Set[str] = set()
        for x in o[1]:
            out |= roots(x)
        return out
    if k == "wrap":
        out = set()
        for x in o[2]:
            out |= roots(x)
        return out
    return set()


def partial_of(o: Origin) -> Optional[str]:
    """The slice text if the origin is only a part of a sequence field (`xs[:-1]`), else None."""
    k = o[0]
    if k == "part":
        return o[2]
    if k in ("elem", "attr"):
        return partial_of(o[1])
    if k == "union":
        ps = [partial_of(x) for x in o[1]]
        return ps[0] if ps and all(p is not None for p in ps) else None
    return None


def through_attr(o: Origin) -> List[Tuple[Origin, str]]:
    """(base origin, attribute) pairs for origins of the form base.attr where base is not self."""
    k = o[0]
    if k == "attr":
        return [(o[1], o[2])] + through_attr(o[1])
    if k in ("elem", "part"):
        return through_attr(o[1])
    if k == "union":
        out = []
        for x in o[1]:
            out += through_attr(x)
        return out
    return []


def _negate_text(t: str) -> str:
    """Source text of the negation of a test, with the common double negations removed."""
    import re as _re

    t = t.strip()
    m = _re.fullmatch(r"not \((.*)\)", t)
    if m and m.group(1).count("(") == m.group(1).count(")"):
        return m.group(1)
    m = _re.fullmatch(r"not ([\w.]+)", t)
    if m:
        return m.group(1)
    m = _re.fullmatch(r"([\w.]+) is None", t)
    if m:
        return f"{m.group(1)} is not None"
    m = _re.fullmatch(r"([\w.]+) is not None", t)
    if m:
        return f"{m.group(1)} is None"
    return f"not ({t})"


class MethodWalker:
    def __init__(self, py: PyFacts, cls: str, meth: str):
        self.py = py
        self.cls = cls
        self.meth = meth
        self.events: List[Event] = []
        self.returns: List[Tuple[ast.Return, str, Dict[str, ast.AST]]] = []
        self.found = False
        r = py.resolve_method(cls, meth)
        if r:
            self.found = True
            self._walk_method(r[0], r[1], depth=0)

    # -- origin evaluation --------------------------------------------------
    def origin(self, n: ast.AST, env: Dict[str, Origin]) -> Origin:
        if isinstance(n, ast.Name):
            if n.id == "self":
                return ("self",)
            return env.get(n.id, OTHER)
        if isinstance(n, ast.Attribute):
            return self._attr(self.origin(n.value, env), n.attr)
        if isinstance(n, ast.Subscript):
            base = self.origin(n.value, env)
            if base == OTHER:
                return OTHER
            if isinstance(n.slice, ast.Slice):
                # a proper slice is a part of the sequence (x[:] is all of it)
                if n.slice.lower is None and n.slice.upper is None:
                    return base
                return ("part", base, unparse(n.slice))
            if isinstance(n.slice, ast.Constant) and isinstance(n.slice.value, int) or (isinstance(n.slice, ast.UnaryOp) and isinstance(n.slice.operand, ast.Constant)):
                # one fixed position of the sequence
                return ("elem", ("part", base, unparse(n.slice)))
            return ("elem", base)
        if isinstance(n, (ast.List, ast.Tuple)):
            parts = []
            for e in n.elts:
                o = self.origin(e.value if isinstance(e, ast.Starred) else e, env)
                if o != OTHER:
                    parts.append(o)
            if not parts:
                return OTHER
            # a display of items: iterating yields the items themselves
            return ("union", tuple(("listof", p) for p in parts))
        if isinstance(n, ast.BinOp) and isinstance(n.op, ast.Add):
            a, b = self.origin(n.left, env), self.origin(n.right, env)
            parts = [x for x in (a, b) if x != OTHER]
            if not parts:
                return OTHER
            return ("union", tuple(parts))
        if isinstance(n, ast.IfExp):
            a, b = self.origin(n.body, env), self.origin(n.orelse, env)
            parts = [x for x in (a, b) if x != OTHER]
            return ("union", tuple(parts)) if parts else OTHER
        if isinstance(n, ast.Call):
            fn = n.func
            if isinstance(fn, ast.Name) and fn.id in ("list", "tuple", "reversed", "sorted", "iter") and n.args:
                return self.origin(n.args[0], env)
            if isinstance(fn, ast.Name) and fn.id == "enumerate" and n.args:
                return ("enum", self.origin(n.args[0], env))
            if isinstance(fn, ast.Name) and fn.id == "chain":
                parts = [self.origin(a, env) for a in n.args]
                parts = [x for x in parts if x != OTHER]
                return ("union", tuple(parts)) if parts else OTHER
            if isinstance(fn, ast.Name) and fn.id in self.py.classes:
                parts = [self.origin(a, env) for a in n.args] + [self.origin(k.value, env) for k in n.keywords]
                parts = [x for x in parts if x != OTHER]
                return ("wrap", fn.id, tuple(parts)) if parts else OTHER
            return OTHER
        if isinstance(n, (ast.GeneratorExp, ast.ListComp)):
            env2 = dict(env)
            for g in n.generators:
                self._bind_iter(g.target, self.origin(g.iter, env2), env2)
            o = self.origin(n.elt, env2)
            return ("union", (("listof", o),)) if o != OTHER else OTHER
        return OTHER

    def _attr(self, base: Origin, attr: str) -> Origin:
        if base == ("self",):
            f = self.py.property_field(self.cls, attr)
            if f:
                return ("field", f)
            if self.py.resolve_property(self.cls, attr):
                return ("attr", base, attr)
            return ("field", attr)
        if base == OTHER:
            return OTHER
        if base[0] == "union":
            parts = [self._attr(x, attr) for x in base[1]]
            parts = [x for x in parts if x != OTHER]
            return ("union", tuple(parts)) if parts else OTHER
        return ("attr", base, attr)

    def _elem(self, o: Origin) -> Origin:
        if o == OTHER:
            return OTHER
        if o[0] == "union":
            parts = [self._elem(x) for x in o[1]]
            parts = [p for p in parts if p != OTHER]
            return ("union", tuple(parts)) if parts else OTHER
        if o[0] == "listof":
            return o[1]
        if o[0] == "wrap":
            # iterating a freshly built container object: unknown
            return OTHER
        return ("elem", o)

    def _bind_iter(self, target: ast.AST, it: Origin, env: Dict[str, Origin]):
        if it != OTHER and it[0] == "enum":
            if isinstance(target, (ast.Tuple, ast.List)) and len(target.elts) == 2:
                self._bind(target.elts[1], self._elem(it[1]), env)
                return
        self._bind(target, self._elem(it), env)

    def _bind(self, target: ast.AST, o: Origin, env: Dict[str, Origin]):
        if isinstance(target, ast.Name):
            env[target.id] = o
        elif isinstance(target, (ast.Tuple, ast.List)):
            # unpacking a field that holds a tuple / record: every name is a part of that field
            for t in target.elts:
                self._bind(t, self._elem(o) if o != OTHER else OTHER, env)

    # -- walking ------------------------------------------------------------
    def _walk_method(self, ci: ClassInfo, fn: ast.FunctionDef, depth: int, env: Optional[Dict[str, Origin]] = None):
        if depth > 6:
            return
        env = dict(env or {})
        self._defs: Dict[str, ast.AST] = {}
        # text rendered into a local first (`tail = x.basic09_text()` ... f"{head}{tail}") is printed where the local
        # is used, not where it is computed: its events wait here until the name is read
        saved_pending = getattr(self, "_pending", None)
        self._pending: Dict[str, List[Event]] = {}
        self._walk_body(fn.body, env, ci, fn, None, depth)
        for nm in list(self._pending):
            self.events.extend(self._pending.pop(nm))
        if saved_pending is not None:
            self._pending = saved_pending

    def _walk_body(self, body, env, ci, fn, cond, depth):
        for st in body:
            self._walk_stmt(st, env, ci, fn, cond, depth)
            # a guard clause (`if T: ...; return`) makes what follows conditional on `not T`
            if isinstance(st, ast.If) and not st.orelse and st.body and isinstance(st.body[-1], (ast.Return, ast.Raise)) and getattr(st, "_elif_of", None) is None:
                neg = _negate_text(unparse(st.test))
                cond = neg if cond is None else f"{cond} and {neg}"


    def _walk_stmt(self, st, env, ci, fn, cond, depth):
        if isinstance(st, ast.Assign):
            n0 = len(self.events)
            self._scan_expr(st.value, env, ci, fn, cond, depth)
            if len(st.targets) == 1 and isinstance(st.targets[0], ast.Name):
                self._defer(st.targets[0].id, n0, replace=cond is None)
            o = self.origin(st.value, env)
            for t in st.targets:
                self._bind(t, o, env)
                if isinstance(t, ast.Name):
                    self._defs[t.id] = st.value
        elif isinstance(st, ast.AnnAssign):
            if st.value is not None:
                n0 = len(self.events)
                self._scan_expr(st.value, env, ci, fn, cond, depth)
                if isinstance(st.target, ast.Name):
                    self._defer(st.target.id, n0, replace=cond is None)
                self._bind(st.target, self.origin(st.value, env), env)
                if isinstance(st.target, ast.Name):
                    self._defs[st.target.id] = st.value
        elif isinstance(st, ast.For):
            self._scan_expr(st.iter, env, ci, fn, cond, depth)
            it_o = self.origin(st.iter, env)
            # a loop over a display of items (`for c in (self._a, self._b)`) runs once per item, in that order
            if isinstance(it_o, tuple) and it_o and it_o[0] == "union" and len(it_o[1]) > 1 and all(isinstance(p_, tuple) and p_ and p_[0] == "listof" for p_ in it_o[1]) and isinstance(st.target, ast.Name):
                for p_ in it_o[1]:
                    env[st.target.id] = p_[1]
                    self._walk_body(st.body, env, ci, fn, cond, depth)
                self._walk_body(st.orelse, env, ci, fn, cond, depth)
                return
            self._bind_iter(st.target, it_o, env)
            self._walk_body(st.body, env, ci, fn, cond, depth)
            self._walk_body(st.orelse, env, ci, fn, cond, depth)
        elif isinstance(st, ast.While):
            self._scan_expr(st.test, env, ci, fn, cond, depth)
            self._walk_body(st.body, env, ci, fn, cond, depth)
        elif isinstance(st, ast.If):
            self._scan_expr(st.test, env, ci, fn, cond, depth)
            t = unparse(st.test)
            # an `elif` arm runs only when the tests before it failed: its condition carries them
            if getattr(st, "_elif_of", None) is not None:
                t = f"{st._elif_of} and {t}"
            self._walk_body(st.body, env, ci, fn, t, depth)
            neg = f"not ({unparse(st.test)})" if getattr(st, "_elif_of", None) is None else f"{st._elif_of} and not ({unparse(st.test)})"
            if len(st.orelse) == 1 and isinstance(st.orelse[0], ast.If):
                st.orelse[0]._elif_of = neg  # type: ignore[attr-defined]
            self._walk_body(st.orelse, env, ci, fn, neg, depth)
        elif isinstance(st, ast.Return):
            if st.value is not None:
                self._scan_expr(st.value, env, ci, fn, cond, depth)
            if depth == 0:
                self.returns.append((st, ci.name, dict(self._defs)))
        elif isinstance(st, ast.AugAssign) and isinstance(st.target, ast.Name):
            n0 = len(self.events)
            self._scan_expr(st.value, env, ci, fn, cond, depth)
            self._defer(st.target.id, n0, replace=False)
        elif isinstance(st, ast.Expr):
            v = st.value
            # parts.append(<text>) / parts.extend(...) / parts.insert(i, <text>): the text waits in `parts`
            if isinstance(v, ast.Call) and isinstance(v.func, ast.Attribute) and v.func.attr in ("append", "extend", "insert") and isinstance(v.func.value, ast.Name) and v.func.value.id != "self":
                n0 = len(self.events)
                for a in v.args:
                    self._scan_expr(a, env, ci, fn, cond, depth)
                self._defer(v.func.value.id, n0, replace=False)
                return
            self._scan_expr(st.value, env, ci, fn, cond, depth)
        elif isinstance(st, (ast.With, ast.Try)):
            for b in (getattr(st, "body", []), getattr(st, "orelse", []), getattr(st, "finalbody", [])):
                self._walk_body(b, env, ci, fn, cond, depth)
        elif isinstance(st, (ast.Pass, ast.Raise, ast.FunctionDef, ast.Import, ast.ImportFrom)):
            pass
        else:
            for ch in ast.iter_child_nodes(st):
                if isinstance(ch, ast.expr):
                    self._scan_expr(ch, env, ci, fn, cond, depth)

    def _defer(self, name: str, n0: int, replace: bool):
        """Move the print events recorded since position n0 to the local `name` (only when printing is walked)."""
        if self.meth != "basic09_text":
            return
        new = self.events[n0:]
        if not any(ev.kind == "print" for ev in new):
            if replace and name in self._pending:
                # the local is overwritten with text that prints nothing: what it held is dropped
                self._pending.pop(name)
            return
        del self.events[n0:]
        if replace:
            self._pending[name] = new
        else:
            self._pending.setdefault(name, []).extend(new)

    def _scan_expr(self, e, env, ci, fn, cond, depth):
        """Record events for calls inside expression e, in evaluation (source) order."""
        if e is None:
            return
        if isinstance(e, ast.Name) and isinstance(e.ctx, ast.Load) and e.id in getattr(self, "_pending", {}):
            self.events.extend(self._pending.pop(e.id))
            return
        if isinstance(e, (ast.GeneratorExp, ast.ListComp, ast.SetComp, ast.DictComp)):
            env2 = dict(env)
            for g in e.generators:
                self._scan_expr(g.iter, env2, ci, fn, cond, depth)
                self._bind_iter(g.target, self.origin(g.iter, env2), env2)
                for c in g.ifs:
                    self._scan_expr(c, env2, ci, fn, cond, depth)
            if isinstance(e, ast.DictComp):
                self._scan_expr(e.key, env2, ci, fn, cond, depth)
                self._scan_expr(e.value, env2, ci, fn, cond, depth)
            else:
                self._scan_expr(e.elt, env2, ci, fn, cond, depth)
            return
        if isinstance(e, ast.IfExp):
            self._scan_expr(e.test, env, ci, fn, cond, depth)
            t = unparse(e.test)
            self._scan_expr(e.body, env, ci, fn, t, depth)
            self._scan_expr(e.orelse, env, ci, fn, f"not ({t})", depth)
            return
        if isinstance(e, ast.Call):
            f = e.func
            # super().meth(...)
            if (
                isinstance(f, ast.Attribute)
                and isinstance(f.value, ast.Call)
                and isinstance(f.value.func, ast.Name)
                and f.value.func.id == "super"
            ):
                for a in e.args:
                    self._scan_expr(a, env, ci, fn, cond, depth)
                if f.attr == self.meth:
                    # resolve in the MRO after ci
                    start = ci.name
                    if f.value.args and isinstance(f.value.args[0], ast.Name):
                        start = f.value.args[0].id
                    mro = self.py.mro(start)[1:]
                    for c2 in mro:
                        if self.meth in c2.methods:
                            self.events.append(Event("super", ("self",), e.lineno, ci.name, name=c2.name, cond=cond, node=e))
                            saved = self._defs
                            self._walk_method(c2, c2.methods[self.meth], depth + 1)
                            self._defs = saved
                            break
                return
            # helper(args) - a module-level function of the elements module: its prints / visits happen here, parameters bound to the arguments
            if isinstance(f, ast.Name) and depth < 5 and not any(isinstance(a, ast.Starred) for a in e.args):
                mod_ = self.py.modules.get(ci.module) if hasattr(ci, "module") else None
                callee = mod_.functions.get(f.id) if mod_ is not None and hasattr(mod_, "functions") else None
                if callee is not None and callee is not fn and not callee.decorator_list:
                    for a in e.args:
                        self._scan_expr(a, env, ci, fn, cond, depth)
                    for k in e.keywords:
                        self._scan_expr(k.value, env, ci, fn, cond, depth)
                    plist = [a.arg for a in callee.args.args]
                    env2: Dict[str, Origin] = {}
                    for pn, a in zip(plist, e.args):
                        env2[pn] = self.origin(a, env)
                    for k in e.keywords:
                        if k.arg in plist:
                            env2[k.arg] = self.origin(k.value, env)
                    saved = self._defs
                    n_before = len(self.events)
                    self._walk_method(ci, callee, depth + 1, env2)
                    self._defs = saved
                    if cond is not None:
                        for ev in self.events[n_before:]:
                            if ev.cond is None:
                                ev.cond = cond
                    return
            # self._helper(args): the helper's own prints / visits happen here, with its parameters bound to the arguments
            if isinstance(f, ast.Attribute) and isinstance(f.value, ast.Name) and f.value.id == "self" and f.attr not in ("basic09_text", "visit") and depth < 5:
                rm = self.py.resolve_method(self.cls, f.attr)
                if rm is not None and rm[1] is not fn and not any(isinstance(a, ast.Starred) for a in e.args):
                    for a in e.args:
                        self._scan_expr(a, env, ci, fn, cond, depth)
                    for k in e.keywords:
                        self._scan_expr(k.value, env, ci, fn, cond, depth)
                    callee = rm[1]
                    params = [a.arg for a in callee.args.args]
                    static = any(isinstance(d, ast.Name) and d.id == "staticmethod" for d in callee.decorator_list)
                    env2: Dict[str, Origin] = {}
                    plist = params if static else params[1:]
                    for pn, a in zip(plist, e.args):
                        env2[pn] = self.origin(a, env)
                    for k in e.keywords:
                        if k.arg in plist:
                            env2[k.arg] = self.origin(k.value, env)
                    saved = self._defs
                    n_before = len(self.events)
                    self._walk_method(rm[0], callee, depth + 1, env2)
                    self._defs = saved
                    if cond is not None:
                        for ev in self.events[n_before:]:
                            if ev.cond is None:
                                ev.cond = cond
                    return
            if isinstance(f, ast.Attribute):
                recv = f.value
                self._scan_expr(recv, env, ci, fn, cond, depth)
                if f.attr == "basic09_text":
                    self.events.append(Event("print", self.origin(recv, env), e.lineno, ci.name, cond=cond, node=e))
                elif f.attr == "visit":
                    self.events.append(Event("visit", self.origin(recv, env), e.lineno, ci.name, cond=cond, node=e))
                elif isinstance(recv, ast.Name) and recv.id not in ("self",) and f.attr.startswith("visit_"):
                    arg = self.origin(e.args[0], env) if e.args else OTHER
                    self.events.append(Event("callback", arg, e.lineno, ci.name, name=f.attr, cond=cond, node=e))
            else:
                self._scan_expr(f, env, ci, fn, cond, depth)
            for a in e.args:
                self._scan_expr(a.value if isinstance(a, ast.Starred) else a, env, ci, fn, cond, depth)
            for k in e.keywords:
                self._scan_expr(k.value, env, ci, fn, cond, depth)
            return
        for ch in ast.iter_child_nodes(e):
            if isinstance(ch, ast.expr):
                self._scan_expr(ch, env, ci, fn, cond, depth)


class EmitModel:
    def __init__(self, ctx: Ctx):
        self.ctx = ctx
        self.py = pyfacts(ctx)
        self._walk: Dict[Tuple[str, str], MethodWalker] = {}
        # element classes: everything deriving from AbstractBasicConstruct
        if "AbstractBasicConstruct" not in self.py.classes:
            raise AnalysisError("M5", "AbstractBasicConstruct", "root element class not found")
        self.element_classes = sorted(self.py.subclasses("AbstractBasicConstruct"))
        self.instantiated = self.py.instantiated_classes()
        ctx.units["element_classes"] = len(self.element_classes)

    def walk(self, cls: str, meth: str) -> MethodWalker:
        k = (cls, meth)
        if k not in self._walk:
            self._walk[k] = MethodWalker(self.py, cls, meth)
        return self._walk[k]

    def concrete(self) -> List[str]:
        """Element classes that are constructed somewhere in coco/b09."""
        return [c for c in self.element_classes if c in self.instantiated]

    def printed_fields(self, cls: str) -> Dict[str, Event]:
        out: Dict[str, Event] = {}
        for ev in self.walk(cls, "basic09_text").events:
            if ev.kind == "print":
                for r in roots(ev.origin):
                    out.setdefault(r, ev)
        return out

    def visited_fields(self, cls: str) -> Dict[str, Event]:
        out: Dict[str, Event] = {}
        for ev in self.walk(cls, "visit").events:
            if ev.kind == "visit":
                for r in roots(ev.origin):
                    out.setdefault(r, ev)
        return out

    def callbacks(self, cls: str) -> List[Event]:
        return [ev for ev in self.walk(cls, "visit").events if ev.kind == "callback"]

    def is_hoist_target(self, cls: str) -> bool:
        return any(ev.name == "visit_statement" and ev.origin == ("self",) for ev in self.callbacks(cls))

    def method_line(self, cls: str, meth: str) -> int:
        r = self.py.resolve_method(cls, meth)
        return r[1].lineno if r else self.py.cls(cls).node.lineno


def emitmodel(ctx: Ctx) -> EmitModel:
    return ctx.engine("emitmodel", EmitModel)
