"""Grammar / parse-tree visitor rules G1..G9."""

from __future__ import annotations

import ast
from typing import Dict, List, Optional, Set, Tuple

from .core import AnalysisError, Ctx, rule
from .peg import GRAMMAR_REL, peg
from .pyast import pyfacts, unparse, walk_no_nested
from .relang import edge_absorbs_blanks
from .visitormodel import PARSER_REL, visitormodel


# ---------------------------------------------------------------------------
# G1 ARITY


@rule("G1", "ARITY: tuple-unpack / constant subscript of visited_children agrees with the PEG rule shape", ["C07", "C15"], floor=120)
def g1(ctx: Ctx):
    p = peg(ctx)
    vmod = visitormodel(ctx)
    for rname in sorted(p.rules):
        e = p.rules[rname]
        eff = e.name or rname
        vm = vmod.method_for_rule(rname)
        if vm is None:
            continue
        if eff != rname:
            ctx.info(f"{vm.name}", f"dead visitor: rule {rname} is an alias of {eff}, nodes are dispatched to visit_{eff}", file=PARSER_REL, line=vm.fn.lineno)
            continue
        ups, subs, whole = vmod.effective_unpacks(vm)
        k = p.kind(e)
        if k == "seq":
            n_children: Tuple[int, float] = (len(e.members), len(e.members))
        elif k == "oneof":
            n_children = (1, 1)
        elif k == "quant":
            n_children = (e.min, e.max)
        elif k in ("regex", "literal"):
            n_children = (0, 0)
        elif k == "lookahead":
            n_children = (0, 0)
        else:
            raise AnalysisError("G1", rname, f"unmodelled PEG expression kind {k}")
        lo, hi = n_children
        for u in ups:
            n = len(u.names)
            if lo == hi:
                ok = n == lo
                why = f"unpacks {n} children, rule `{rname}` always yields {lo}"
            else:
                # variable number of children: unpack needs n within range and an emptiness guard if lo < n
                ok = lo <= n <= hi and (lo == n or u.guarded_nonempty) and (hi == n)
                why = f"unpacks {n} children, rule `{rname}` yields {lo}..{hi}" + ("" if u.guarded_nonempty else " (no emptiness guard)")
            ctx.ob(
                f"{vm.name}.unpack@{u.source}",
                ok,
                why if not ok else "",
                file=PARSER_REL,
                line=u.line,
                facts={"rule": rname, "kind": k, "children": [lo, hi if hi != float("inf") else "inf"], "unpack": n},
                witness=f"any program using rule {rname} raises ValueError" if not ok else "",
            )
        for idx, line in subs:
            ok = idx < lo or (lo != hi and idx < hi and any(u.guarded_nonempty for u in ups))
            if lo != hi and idx < hi and not ok:
                # e.g. `visited_children[0] if visited_children else None` on a `?` rule
                ok = _subscript_guarded(vm.fn, vm.children_param, line)
            ctx.ob(
                f"{vm.name}.children[{idx}]",
                ok,
                "" if ok else f"reads child {idx} but rule `{rname}` yields {lo}..{hi} children",
                file=PARSER_REL,
                line=line,
                facts={"rule": rname, "kind": k},
            )
    # visitor methods whose rule does not exist at all
    for name, vm in vmod.methods.items():
        if name == "generic_visit":
            continue
        if vm.rule not in p.rules:
            called = any(name in m.delegates for m in vmod.methods.values())
            ctx.info(name, "helper (called by other visitors)" if called else "dead visitor: no PEG rule of that name", file=PARSER_REL, line=vm.fn.lineno)


def _subscript_guarded(fn: ast.FunctionDef, ch: str, line: int) -> bool:
    """`visited_children[k] if visited_children else ...` / inside `if visited_children:` / after `if not visited_children: return`."""
    from .visitormodel import _is_empty_test

    for st in fn.body:
        if isinstance(st, ast.If) and _is_empty_test(st.test, ch) and st.body and isinstance(st.body[-1], (ast.Return, ast.Raise)) and st.lineno < line:
            return True
    for n in walk_no_nested(fn):
        if isinstance(n, (ast.IfExp, ast.If)):
            t = n.test
            truthy = isinstance(t, ast.Name) and t.id == ch
            lencmp = (
                isinstance(t, ast.Compare)
                and isinstance(t.left, ast.Call)
                and isinstance(t.left.func, ast.Name)
                and t.left.func.id == "len"
                and t.left.args
                and isinstance(t.left.args[0], ast.Name)
                and t.left.args[0].id == ch
            )
            if truthy or lencmp:
                body = n.body if isinstance(n, ast.IfExp) else n
                for s in ast.walk(body if isinstance(body, ast.AST) else n):
                    if isinstance(s, ast.Subscript) and getattr(s, "lineno", -1) == line:
                        return True
    return False


# ---------------------------------------------------------------------------
# G3 OPERAND-BOUND

# Alternations of literals that are synonyms (carry no information): exception table.
SYNONYM_ALTERNATIONS = [
    {"PRINT", "?"},  # `?` is PRINT
]


def member_class(p, m) -> str:
    """space | punct (single literal / optional literal) | selector (alternation of literals) |
    structural (eol, eof, lookahead) | content"""
    blank = p.blank_only()
    if blank[id(m)]:
        return "space"
    k = p.kind(m)
    if k == "lookahead":
        return "structural"
    if m.name in ("eol", "eof"):
        return "structural"
    ls = p.literal_set(m)
    if ls is not None:
        if len(ls) <= 1:
            return "punct"
        if any(ls == s for s in SYNONYM_ALTERNATIONS):
            return "punct"
        return "selector"
    if k == "quant":
        inner = m.members[0]
        ic = member_class(p, inner)
        if ic in ("space", "structural"):
            return ic
        if ic == "punct":
            return "flag"  # optional keyword such as "LET"?
        return "content"
    if k == "regex":
        pat = m.re.pattern
        if pat in (r"\x00?", r"$", r"[\n\r]"):
            return "structural"
    if k == "seq" and not m.name and all(member_class(p, x) in ("space", "structural") for x in m.members):
        return "structural"
    return "content"


# content members a visitor may ignore: (rule, member) -> reason
G3_EXCEPTIONS = {
    ("comment", "comment_token"): "REM and ' are synonyms; the comment text is the next member",
}


@rule("G3", "OPERAND-BOUND: every content member of a Sequence rule is bound to a name the visitor uses", ["C02", "C04", "C05", "C06"], floor=150)
def g3(ctx: Ctx):
    p = peg(ctx)
    vmod = visitormodel(ctx)
    for rname in sorted(p.rules):
        e = p.rules[rname]
        if (e.name or rname) != rname or p.kind(e) != "seq":
            continue
        vm = vmod.method_for_rule(rname)
        if vm is None:
            continue  # generic_visit: rule G2
        ups, subs, whole = vmod.effective_unpacks(vm)
        for i, m in enumerate(e.members):
            mc = member_class(p, m)
            if mc not in ("content", "selector"):
                continue
            desc = p.describe(m)
            if (rname, desc) in G3_EXCEPTIONS:
                ctx.info(f"{rname}[{i}]={desc}", "exception: " + G3_EXCEPTIONS[(rname, desc)], file=PARSER_REL, line=vm.fn.lineno)
                continue
            bound = None
            if whole:
                bound = "<whole list>"
            if _reads_own_text(vm):
                bound = "<node.text of the whole rule> (see G6)"
            for idx, _ in subs:
                if idx == i:
                    bound = f"children[{i}]"
            for u in ups:
                if len(u.names) == len(e.members):
                    nm = u.names[i]
                    if nm and not nm.startswith("_"):
                        holder = vmod.methods[u.source]
                        if nm in holder.used_names:
                            bound = nm
                        else:
                            bound = bound or None
            ctx.ob(
                f"{rname}[{i}]={desc}",
                bound is not None,
                "" if bound else f"source operand `{desc}` (member {i} of `{rname}`) is parsed but never used by {vm.name}",
                file=PARSER_REL,
                line=vm.fn.lineno,
                facts={"member_class": mc, "bound_to": bound},
                witness="" if bound else f"any statement matching {rname}: the operand is silently dropped",
            )


def _reads_own_text(vm) -> bool:
    for n in walk_no_nested(vm.fn):
        if isinstance(n, ast.Attribute) and n.attr in ("text", "full_text") and isinstance(n.value, ast.Name) and n.value.id == vm.node_param:
            return True
    return False


# ---------------------------------------------------------------------------
# G4 TABLE-AGREE


@rule("G4", "TABLE-AGREE: TABLE[x.text] is total and tight w.r.t. the literals member x can match", ["C01", "C15", "C04"], floor=3)
def g4(ctx: Ctx):
    p = peg(ctx)
    vmod = visitormodel(ctx)
    env = p.env
    for name in sorted(vmod.methods):
        vm = vmod.methods[name]
        if vm.rule not in p.rules:
            continue
        e = p.rules[vm.rule]
        if p.kind(e) != "seq":
            continue
        ups, _, _ = vmod.effective_unpacks(vm)
        pos_of: Dict[str, int] = {}
        for u in ups:
            if len(u.names) == len(e.members):
                for i, nm in enumerate(u.names):
                    if nm:
                        pos_of[nm] = i
        seen = set()
        for n in walk_no_nested(vm.fn):
            if not (isinstance(n, ast.Subscript) and isinstance(n.value, ast.Name)):
                continue
            tbl = n.value.id
            s = n.slice
            if not (isinstance(s, ast.Attribute) and s.attr == "text" and isinstance(s.value, ast.Name)):
                continue
            var = s.value.id
            if (tbl, var) in seen:
                continue
            seen.add((tbl, var))
            if tbl not in env or not isinstance(env[tbl], dict):
                raise AnalysisError("G4", f"{name}:{tbl}", "table is not a foldable module-level dict of grammar.py")
            if var not in pos_of:
                raise AnalysisError("G4", f"{name}:{var}", "subscript variable is not bound to a member of the rule")
            m = e.members[pos_of[var]]
            lits = p.literal_set(m)
            if lits is None:
                raise AnalysisError("G4", f"{name}:{var}", f"member `{p.describe(m)}` is not a literal alternation")
            keys = set(env[tbl].keys())
            missing = sorted(lits - keys)
            extra = sorted(keys - lits)
            ctx.ob(
                f"{name}:{tbl}[{var}.text]",
                not missing and not extra,
                (f"grammar accepts {missing} without table entry (KeyError); " if missing else "")
                + (f"table entries {extra} can never be selected" if extra else ""),
                file=PARSER_REL,
                line=n.lineno,
                facts={"literals": sorted(lits), "keys": sorted(keys)},
                witness=(f"10 A={missing[0]}(1)" if missing else ""),
            )


# ---------------------------------------------------------------------------
# G5 SPACE-CLOSURE

# Adjacent members where no optional blank is required: (rule, left, right) -> reason
G5_EXCEPTIONS = {
    ("aaa_prog", "*", "multi_line"): "start of a physical line: a line number starts in column 0",
    ("multi_line_element", "eol+", "line"): "start of a physical line: a line number starts in column 0",
    ("comment", "comment_token", "comment_text"): "text after REM/' is content, blanks included",
    ("aaa_prog", "*", "~'\\\\x00?'"): "trailing NUL directly follows the last line end",
    ("aaa_prog", "*", "eof"): "end of input",
    ("aaa_prog", "multi_line", "eol*"): "line end directly follows the line (trailing blanks are absorbed by the line itself)",
}


def _g5_sets(p):
    nullable = p.nullable()
    blank = p.blank_only()
    exprs = p.all_exprs()

    def A(m):  # unconditional absorber as a single member
        return p.is_space_star(m)

    # AL/AT: unconditionally starts/ends with an absorbing space*; L/T: every non-empty match does
    def fix(init, loc):
        val = {id(e): init for e in exprs}
        ch = True
        while ch:
            ch = False
            for e in exprs:
                v = loc(e, val)
                if v != val[id(e)]:
                    val[id(e)] = v
                    ch = True
        return val

    def re_lead(e):
        return edge_absorbs_blanks(e.re.pattern, "lead")

    def re_trail(e):
        return edge_absorbs_blanks(e.re.pattern, "trail")

    def al(e, val):
        k = p.kind(e)
        if A(e):
            return True
        if k == "regex":
            return re_lead(e)
        if k == "seq":
            for m in e.members:
                if p.kind(m) == "lookahead":
                    continue
                return val[id(m)]
            return False
        if k == "oneof":
            return all(val[id(m)] for m in e.members)
        if k == "quant":
            return e.min >= 1 and val[id(e.members[0])]
        return False

    def at(e, val):
        k = p.kind(e)
        if A(e):
            return True
        if k == "regex":
            return re_trail(e)
        if k == "seq":
            for m in reversed(e.members):
                if p.kind(m) == "lookahead":
                    continue
                return val[id(m)]
            return False
        if k == "oneof":
            return all(val[id(m)] for m in e.members)
        if k == "quant":
            return e.min >= 1 and val[id(e.members[0])]
        return False

    AL = fix(False, al)
    AT = fix(False, at)

    def l(e, val):
        k = p.kind(e)
        if AL[id(e)]:
            return True
        if k == "literal":
            return e.literal == ""
        if k == "regex":
            return re_lead(e)
        if k == "lookahead":
            return True
        if k == "quant":
            return val[id(e.members[0])]
        if k == "oneof":
            return all(val[id(m)] for m in e.members)
        if k == "seq":
            for m in e.members:
                if AL[id(m)]:
                    return True
                if p.kind(m) == "lookahead":
                    continue
                if val[id(m)] and nullable[id(m)]:
                    continue
                return val[id(m)]
            return True
        return False

    def t(e, val):
        k = p.kind(e)
        if AT[id(e)]:
            return True
        if k == "literal":
            return e.literal == ""
        if k == "regex":
            return re_trail(e)
        if k == "lookahead":
            return True
        if k == "quant":
            return val[id(e.members[0])]
        if k == "oneof":
            return all(val[id(m)] for m in e.members)
        if k == "seq":
            for m in reversed(e.members):
                if AT[id(m)]:
                    return True
                if p.kind(m) == "lookahead":
                    continue
                if val[id(m)] and nullable[id(m)]:
                    continue
                return val[id(m)]
            return True
        return False

    L = fix(False, l)
    T = fix(False, t)
    return nullable, blank, AL, AT, L, T


@rule("G5", "SPACE-CLOSURE: optional blanks are accepted at every token boundary of every Sequence / repetition", ["C08"], floor=300)
def g5(ctx: Ctx):
    p = peg(ctx)
    nullable, blank, AL, AT, L, T = _g5_sets(p)
    # owner rule name of each anonymous expression (first rule that reaches it)
    owner: Dict[int, str] = {}
    for rname in sorted(p.rules):
        e = p.rules[rname]
        if (e.name or rname) != rname:
            continue
        stack = [e]
        while stack:
            x = stack.pop()
            if id(x) in owner:
                continue
            owner[id(x)] = rname
            for m in getattr(x, "members", ()) or ():
                if not m.name:
                    stack.append(m)

    def tokenish(m):
        return not blank[id(m)] and p.kind(m) != "lookahead"

    def exc(rname, a, b):
        for (r, l_, r_), why in G5_EXCEPTIONS.items():
            if r == rname and (l_ == "*" or l_ == a) and (r_ == "*" or r_ == b):
                return why
        return None

    for e in p.all_exprs():
        rname = owner.get(id(e), e.name or "?")
        k = p.kind(e)
        if k == "seq":
            ms = e.members
            toks = [i for i, m in enumerate(ms) if tokenish(m)]
            for ai, i in enumerate(toks):
                for j in toks[ai + 1 :]:
                    between = ms[i + 1 : j]
                    if any(tokenish(b) and not nullable[id(b)] for b in between):
                        break
                    a_d, b_d = p.describe(ms[i]), p.describe(ms[j])
                    ok = (
                        T[id(ms[i])]
                        or L[id(ms[j])]
                        or any(AL[id(b)] or AT[id(b)] for b in between)
                    )
                    why = ""
                    if not ok:
                        ex = exc(rname, a_d, b_d)
                        if ex:
                            ctx.info(f"{rname}:{a_d}|{b_d}", f"exception: {ex}", file=GRAMMAR_REL, line=p.line(rname))
                            continue
                        why = f"no optional blanks between `{a_d}` and `{b_d}` in rule `{rname}`: the packed spelling parses, the spaced one does not"
                    ctx.ob(f"{rname}:{a_d}|{b_d}", ok, why, file=GRAMMAR_REL, line=p.line(rname), witness="" if ok else f"insert a blank between the tokens matched by {a_d} and {b_d}")
                    if not nullable[id(ms[j])]:
                        break
        elif k == "quant" and e.max > 1:
            m = e.members[0]
            if tokenish(m):
                d = p.describe(m)
                ok = T[id(m)] or L[id(m)]
                if not ok and m.name in ("eol", "space"):
                    continue
                if not ok:
                    ex = exc(rname, d, d)
                    if ex:
                        ctx.info(f"{rname}:{d}|{d}", f"exception: {ex}", file=GRAMMAR_REL, line=p.line(rname))
                        continue
                ctx.ob(
                    f"{rname}:({d})*",
                    ok,
                    "" if ok else f"no optional blanks between repetitions of `{d}` in rule `{rname}`",
                    file=GRAMMAR_REL,
                    line=p.line(rname),
                )
    # the blank token itself must be exactly one blank (anchor for everything above)
    sp = p.rule("space")
    ctx.ob("space", p.kind(sp) in ("regex", "literal") and p._is_space(sp), "rule `space` no longer matches exactly one blank", file=GRAMMAR_REL, line=p.line("space"))


# ---------------------------------------------------------------------------
# G5b BLANK-UNIFORM (blanks inside regex terminals)

CONTENT_TERMINALS = {"str_literal", "partial_str_lit", "data_str_literal", "comment_text", "space"}


def _char_class(ch: str) -> str:
    if ch.isdigit():
        return "digit"
    if ch in "+-":
        return "sign"
    if ch in "ABCDF":
        return "hexletter"
    return ch


@rule("G5b", "BLANK-UNIFORM: a terminal that admits a blank between two kinds of characters admits it there in all of its spellings", ["C08"], floor=2)
def g5b(ctx: Ctx):
    import itertools
    import re as _re

    p = peg(ctx)
    for rname in sorted(p.rules):
        e = p.rules[rname]
        if (e.name or rname) != rname or p.kind(e) != "regex" or rname in CONTENT_TERMINALS:
            continue
        pat = e.re.pattern
        if " " not in pat:
            continue
        # alphabet: one representative per character class the pattern mentions
        alpha = [" "]
        if "\\d" in pat or "0-9" in pat:
            alpha.append("1")
        if "A-F" in pat:
            alpha.append("F")
        for c in ".E+-&H":
            if c in pat:
                alpha.append(c)
        alpha = sorted(set(alpha))
        if len(alpha) > 7:
            alpha = alpha[:7]
        maxlen = 7 if len(alpha) <= 6 else 6
        rx = _re.compile(pat)
        members = set()
        for n in range(1, maxlen + 1):
            for tup in itertools.product(alpha, repeat=n):
                s_ = "".join(tup)
                if rx.fullmatch(s_):
                    members.add(s_)
        if not members:
            raise AnalysisError("G5b", rname, "no member of the terminal's language found over the sample alphabet")
        # boundary kinds at which a blank occurs in some spelling
        kinds = set()
        for s_ in members:
            for i, ch in enumerate(s_):
                if ch == " ":
                    l_ = s_[:i].rstrip(" ")
                    r_ = s_[i + 1 :].lstrip(" ")
                    if l_ and r_:
                        kinds.add((_char_class(l_[-1]), _char_class(r_[0])))
        bad = None
        for s_ in sorted(members, key=lambda x: (len(x), x)):
            if " " in s_ or len(s_) >= maxlen:
                continue
            for i in range(1, len(s_)):
                k = (_char_class(s_[i - 1]), _char_class(s_[i]))
                if k in kinds:
                    t = s_[:i] + " " + s_[i:]
                    if t not in members and bad is None:
                        # the blank is admitted at this kind of boundary elsewhere: find such a spelling
                        other = next((m for m in sorted(members, key=len) if any(m[j] == " " and m[:j].rstrip(" ")[-1:] and (_char_class(m[:j].rstrip(" ")[-1]), _char_class(m[j + 1 :].lstrip(" ")[:1] or "?")) == k for j in range(len(m)))), None)
                        bad = (s_, t, k, other)
        ctx.ob(
            rname,
            bad is None,
            "" if bad is None else f"terminal `{rname}` accepts {bad[0]!r} and, in another spelling ({bad[3]!r}), a blank between a {bad[2][0]} and a {bad[2][1]}, but not {bad[1]!r}: the two spellings of the same literal are treated differently",
            file=GRAMMAR_REL,
            line=p.line(rname),
            facts={"sample_members": len(members), "blank_boundaries": sorted(map(list, kinds))},
            witness="" if bad is None else f"10 A={bad[1]}",
        )
