"""Rules added after seed round 10.
E25 TRAVERSAL-ORDER: a construct hands its children to a visitor in source order."""

from __future__ import annotations

import ast
from typing import List, Optional, Tuple

from .core import Ctx, rule
from .pyast import pyfacts, unparse

ELEMENTS_REL = "coco/b09/elements.py"
PROG_REL = "coco/b09/prog.py"


def _is_field(e: ast.AST) -> bool:
    """self.<name> (attribute or property), possibly `.exp_list` / `.statements` of one."""
    while isinstance(e, ast.Attribute):
        e = e.value
    return isinstance(e, ast.Name)


def _direction(it: ast.AST) -> Tuple[Optional[str], str]:
    """('forward' | 'backward' | None, the list walked).  None: a shape this rule does not read."""
    if isinstance(it, (ast.Attribute, ast.Name)) and _is_field(it):
        return "forward", unparse(it)
    if isinstance(it, ast.Subscript) and isinstance(it.slice, ast.Slice) and _is_field(it.value):
        s = it.slice
        if s.lower is None and s.upper is None:
            if s.step is None:
                return "forward", unparse(it.value)
            if isinstance(s.step, ast.UnaryOp) and isinstance(s.step.op, ast.USub) and isinstance(s.step.operand, ast.Constant) and s.step.operand.value == 1:
                return "backward", unparse(it.value)
            if isinstance(s.step, ast.Constant) and s.step.value == 1:
                return "forward", unparse(it.value)
        return None, unparse(it.value)
    if isinstance(it, ast.Call) and isinstance(it.func, ast.Name) and not it.keywords:
        f = it.func.id
        if f in ("enumerate", "list", "tuple", "iter") and len(it.args) == 1:
            return _direction(it.args[0])
        if f == "reversed" and len(it.args) == 1:
            d, what = _direction(it.args[0])
            return ({"forward": "backward", "backward": "forward"}.get(d) if d else None), what
        if f == "sorted" and it.args:
            return "backward", unparse(it.args[0])  # (an order other than the one of the source)
        if f == "range":
            a = it.args

            def is_len(e) -> Optional[str]:
                if isinstance(e, ast.Call) and isinstance(e.func, ast.Name) and e.func.id == "len" and len(e.args) == 1 and _is_field(e.args[0]):
                    return unparse(e.args[0])
                return None

            if len(a) == 1 and is_len(a[0]):
                return "forward", is_len(a[0])
            if len(a) == 2 and isinstance(a[0], ast.Constant) and a[0].value == 0 and is_len(a[1]):
                return "forward", is_len(a[1])
            if len(a) == 3 and isinstance(a[2], ast.UnaryOp) and isinstance(a[2].op, ast.USub):
                inner = [is_len(x) for x in ast.walk(a[0])]
                inner = [x for x in inner if x]
                return "backward", (inner[0] if inner else unparse(a[0]))
            return None, unparse(it)
    return None, unparse(it)


@rule(
    "E25",
    "TRAVERSAL-ORDER: a construct that holds a list of children hands them to a visitor first to last (the passes that pair a bare NEXT with its FOR, number temporaries and collect DATA items keep state between children: they are only right when they see the children in source order)",
    ["C02", "C03", "C09", "C01"],
    floor=5,
    default_props=["C02"],
)
def e25(ctx: Ctx):
    py = pyfacts(ctx)
    n_loops = 0
    for rel in (ELEMENTS_REL, PROG_REL):
        m = py.mod(rel)
        for ci in m.classes.values():
            fn = ci.methods.get("visit")
            if fn is None:
                continue
            for node in ast.walk(fn):
                iters: List[Tuple[ast.AST, ast.AST]] = []
                if isinstance(node, ast.For):
                    iters.append((node.iter, node))
                elif isinstance(node, (ast.ListComp, ast.GeneratorExp, ast.SetComp)):
                    iters += [(g.iter, node) for g in node.generators]
                for it, at in iters:
                    # only loops that hand something to the visitor / to the children
                    body_calls = [c for c in ast.walk(at) if isinstance(c, ast.Call) and isinstance(c.func, ast.Attribute) and c.func.attr.startswith("visit")]
                    if not body_calls:
                        continue
                    d, what = _direction(it)
                    n_loops += 1
                    key = f"{ci.name}.visit:{what}"
                    if d is None:
                        ctx.undecided(key, f"the children are walked through `{unparse(it)}`: a shape this rule does not read", file=rel, line=it.lineno)
                        continue
                    ok = d == "forward"
                    ctx.ob(
                        key,
                        ok,
                        "" if ok else f"`{ci.name}.visit` walks `{what}` through `{unparse(it)}`: the children reach the visitor in an order other than the source's, so a pass that keeps state between them (the FOR stack of the NEXT patcher, temporary numbering, DATA collection) pairs / numbers them wrongly",
                        file=rel,
                        line=it.lineno,
                        witness="" if ok else "10 FOR I=1 TO 3 / 20 FOR J=1 TO 2:PRINT I;J:NEXT / 30 NEXT",
                    )
    ctx.need(n_loops >= 5, "visit-loops", f"only {n_loops} child loops found in the visit methods of elements.py / prog.py (6 confirmed by hand)")


# ---------------------------------------------------------------------------
# L16 SLOT-AGREE (library): cached palette slot = hardware register

import re

from .b09lib import b09lib


@rule(
    "L16",
    "SLOT-AGREE: in every library procedure that programs palette register r and reads / writes the cached colour of that register, the cache slot is r (subscript minus the procedure's BASE): the procedure that sets a colour and the ones that replay the cache after a mode change mean the same slot",
    ["C04"],
    floor=3,
    soft=True,
)
def l16(ctx: Ctx):
    from .core import IdiomNotFound

    lib = b09lib(ctx)
    n = 0
    for name in lib.order:
        p = lib.procs[name]
        base = 1
        fields = set()
        for ln, raw in p.lines:
            code = raw.split("(*")[0]
            m = re.match(r"(?i)^\s*base\s+([01])\s*$", code)
            if m:
                base = int(m.group(1))
            if re.match(r"(?i)^\s*type\b", code):
                fields |= {f.lower() for f in re.findall(r"(\w+)\s*\(\s*\d+\s*\)", code)}
        if not fields:
            continue
        regs = set()
        for ln, raw in p.lines:
            code = raw.split("(*")[0]
            for m in re.finditer(r'(?i)"palette"\s*,\s*([A-Za-z_]\w*)\s*,', code):
                regs.add(m.group(1).lower())
        if not regs:
            continue
        for ln, raw in p.lines:
            code = raw.split("(*")[0]
            for m in re.finditer(r"(?i)\b\w+\.(\w+)\(([^()]*)\)", code):
                if m.group(1).lower() not in fields:
                    continue
                e = m.group(2).replace(" ", "").lower()
                mm = re.fullmatch(r"([a-z_]\w*)(?:([+-])(\d+))?", e) or None
                k = None
                var = None
                if mm:
                    var = mm.group(1)
                    k = int(mm.group(3) or 0) * (-1 if mm.group(2) == "-" else 1)
                else:
                    mm2 = re.fullmatch(r"(\d+)\+([a-z_]\w*)", e)
                    if mm2:
                        var, k = mm2.group(2), int(mm2.group(1))
                key = f"{name}:{m.group(1).lower()}({e})"
                if var is None or var not in regs:
                    ctx.undecided(key, f"the subscript `{m.group(2)}` is not the register variable of a palette call plus a constant", file="coco/resources/ecb.b09", line=ln)
                    continue
                n += 1
                slot = k - base
                ok = slot == 0
                ctx.ob(
                    key,
                    ok,
                    "" if ok else f"procedure {name} (BASE {base}) keeps the colour of palette register `{var}` in slot `{var}{slot:+d}` of `{m.group(1)}`; the procedures that replay the cache after HSCREEN / WIDTH read slot r for register r: the colour reaches the wrong register (and register 15 is out of range)",
                    file="coco/resources/ecb.b09",
                    line=ln,
                    witness="" if ok else "10 PALETTE 1,63 / 20 HSCREEN 2",
                )
    if n < 3:
        raise IdiomNotFound(f"only {n} cached palette accesses tied to a palette call found")


# ---------------------------------------------------------------------------
# E26 GUARD-IS-ABOUT-THE-CHILD


def _self_fields(e: ast.AST) -> set:
    return {x.attr for x in ast.walk(e) if isinstance(x, ast.Attribute) and isinstance(x.value, ast.Name) and x.value.id == "self"}


def _locals(e: ast.AST) -> set:
    import builtins

    return {x.id for x in ast.walk(e) if isinstance(x, ast.Name) and x.id != "self" and not x.id[:1].isupper() and not hasattr(builtins, x.id)}


def _touches_visitor(stmts) -> bool:
    for s in stmts:
        for c in ast.walk(s):
            if isinstance(c, ast.Call) and isinstance(c.func, ast.Attribute) and c.func.attr.startswith("visit"):
                return True
    return False


@rule(
    "E26",
    "GUARD-IS-ABOUT-THE-CHILD: in a construct's `visit`, a condition that decides whether a child is traversed or handed to the visitor reads only that child (is it there, what class is it) or a field that is always set together with it - never another property of the construct: every pass must see every child wherever the construct was built",
    ["C05", "C01", "C03", "C10"],
    floor=3,
)
def e26(ctx: Ctx):
    py = pyfacts(ctx)
    m = py.mod(ELEMENTS_REL)
    n = 0
    for ci in m.classes.values():
        fn = ci.methods.get("visit")
        if fn is None:
            continue
        # fields assigned together outside the constructor
        together = {}
        for mname, meth in ci.methods.items():
            if mname == "__init__":
                continue
            fs = {t.attr for a in ast.walk(meth) if isinstance(a, (ast.Assign, ast.AnnAssign)) for t in (a.targets if isinstance(a, ast.Assign) else [a.target]) if isinstance(t, ast.Attribute) and isinstance(t.value, ast.Name) and t.value.id == "self"}
            for f in fs:
                together.setdefault(f, set()).update(fs)

        def check(test: ast.AST, guarded, line: int):
            nonlocal n
            if not _touches_visitor(guarded):
                return
            n += 1
            tf, tl = _self_fields(test), _locals(test)
            bf = set().union(*[_self_fields(s) for s in guarded]) if guarded else set()
            bl = set().union(*[_locals(s) for s in guarded]) if guarded else set()
            allowed_f = set(bf)
            for f in bf:
                allowed_f |= together.get(f, set())
            # a property of the same name as the private field is the same child
            allowed_f |= {"_" + f for f in allowed_f} | {f.lstrip("_") for f in allowed_f}
            extra = sorted((tf - allowed_f)) + sorted(tl - bl)
            ok = not extra
            ctx.ob(
                f"{ci.name}.visit:{unparse(test)}",
                ok,
                "" if ok else f"`{ci.name}.visit` lets `{unparse(test)}` decide whether children are traversed / handed to the visitor; `{', '.join(extra)}` is not one of those children nor set together with them: constructs for which it differs (built by the parser or by another pass) are never seen by the passes",
                file=ELEMENTS_REL,
                line=line,
                witness="" if ok else "10 PRINT@INT(P),INT(B);C",
            )

        def scan(stmts):
            for i, st in enumerate(stmts):
                if isinstance(st, ast.If):
                    jump = (ast.Continue, ast.Return, ast.Break)
                    if all(isinstance(s, jump + (ast.Pass,)) for s in st.body) and not st.orelse:
                        check(st.test, stmts[i + 1 :], st.lineno)  # guard clause: decides about the rest
                    elif st.body and isinstance(st.body[-1], jump):
                        check(st.test, st.body + st.orelse + stmts[i + 1 :], st.lineno)  # the rest is the else branch
                    else:
                        check(st.test, st.body + st.orelse, st.lineno)
                    scan(st.body)
                    scan(st.orelse)
                elif isinstance(st, (ast.For, ast.While)):
                    scan(st.body)
                elif isinstance(st, ast.Expr) and isinstance(st.value, ast.IfExp):
                    check(st.value.test, [ast.Expr(st.value.body), ast.Expr(st.value.orelse)], st.lineno)

        scan(fn.body)
    ctx.need(n >= 3, "visit-guards", f"only {n} guarded traversals found in the visit methods of elements.py (7 confirmed by hand)")


# ---------------------------------------------------------------------------
# E27 KEYWORD-POLY: a keyword argument of a polymorphic call exists in every implementation

B09_RELS = ("coco/b09/elements.py", "coco/b09/visitors.py", "coco/b09/parser.py", "coco/b09/prog.py", "coco/b09/compiler.py", "coco/b09/procbank.py", "coco/b09/error_handler.py", "coco/b09/configs.py")


@rule(
    "E27",
    "KEYWORD-POLY: a method that is called with a keyword argument keeps that parameter name in every class that overrides it (the call goes through the common interface: an override that renames the parameter is a TypeError for the programs that put that class there)",
    ["C15", "C07"],
    floor=1,
    default_props=["C15"],
)
def e27(ctx: Ctx):
    py = pyfacts(ctx)
    # keywords used in calls, per method name
    used = {}
    for rel in B09_RELS:
        if rel not in py.modules:
            continue
        for call in ast.walk(py.mod(rel).tree):
            if isinstance(call, ast.Call) and isinstance(call.func, ast.Attribute):
                for k in call.keywords:
                    if k.arg is not None:
                        used.setdefault(call.func.attr, {}).setdefault(k.arg, (rel, call.lineno, unparse(call)))
    n = 0
    for rel in B09_RELS:
        if rel not in py.modules:
            continue
        for ci in py.mod(rel).classes.values():
            for mname, fn in ci.methods.items():
                if mname.startswith("__") or mname not in used:
                    continue
                # the nearest ancestor that defines the method
                base_fn = None
                for anc in py.mro(ci.name)[1:]:
                    if mname in anc.methods:
                        base_fn = (anc, anc.methods[mname])
                        break
                if base_fn is None:
                    continue
                anc, bfn = base_fn
                mine = {p.arg for p in fn.args.args + fn.args.kwonlyargs}
                if fn.args.kwarg is not None:
                    continue
                for p_ in bfn.args.args[1:] + bfn.args.kwonlyargs:
                    if p_.arg not in used[mname]:
                        continue
                    n += 1
                    ok = p_.arg in mine
                    urel, uline, utext = used[mname][p_.arg]
                    ctx.ob(
                        f"{ci.name}.{mname}({p_.arg}=)",
                        ok,
                        "" if ok else f"`{ci.name}.{mname}` overrides `{anc.name}.{mname}` without its parameter `{p_.arg}` (it has {sorted(mine - {'self'})}); `{utext[:80]}` ({urel}:{uline}) passes it by keyword: TypeError - an internal error, not a refusal - when the receiver is a `{ci.name}`",
                        file=rel,
                        line=fn.lineno,
                        witness="" if ok else "10 W=40 / 20 WIDTH W",
                    )
    ctx.need(n >= 1, "keyword-calls", "no overridden method that is called with a keyword argument found (BasicWidthStatement passes indent_level by keyword)")


# ---------------------------------------------------------------------------
# E28 RUN-IS-A-NODE


@rule(
    "E28",
    "RUN-IS-A-NODE: a pass never writes a procedure call with operands as opaque BASIC09 text: a RUN whose operands are variables or temporaries is a call node, so that the passes that run later (string allocation, implicit arrays, initialisation) see its operands",
    ["C10", "C03"],
    floor=2,
)
def e28(ctx: Ctx):
    py = pyfacts(ctx)
    n = 0
    for rel in ("coco/b09/visitors.py", "coco/b09/parser.py", "coco/b09/elements.py"):
        for call in ast.walk(py.mod(rel).tree):
            if not (isinstance(call, ast.Call) and isinstance(call.func, ast.Name) and call.func.id == "Basic09CodeStatement" and call.args):
                continue
            n += 1
            a = call.args[0]
            consts = " ".join(str(c.value) for c in ast.walk(a) if isinstance(c, ast.Constant) and isinstance(c.value, str))
            dynamic = any(isinstance(x, (ast.Name, ast.Attribute, ast.Call)) for x in ast.walk(a))
            bad = dynamic and re.search(r"(?i)\brun\b", consts) is not None
            ctx.ob(
                f"{rel}:{unparse(a)[:60]}",
                not bad,
                "" if not bad else f"`{unparse(call)[:120]}` writes a RUN with computed operands as opaque text: the operands (variables, temporaries, array elements) are invisible to the passes that run after this one - no DIM, no string storage, no initialisation for names that occur only there",
                file=rel,
                line=call.lineno,
                witness="" if not bad else '10 DATA 1,,3 / 20 READ N(2)',
            )
    for rel in ("coco/b09/compiler.py",):
        for call in ast.walk(py.mod(rel).tree):
            if isinstance(call, ast.Call) and isinstance(call.func, ast.Name) and call.func.id == "Basic09CodeStatement":
                n += 1
    ctx.need(n >= 2, "Basic09CodeStatement", f"only {n} opaque code statements found (the allocation lines and the joystick declarations are two)")


# ---------------------------------------------------------------------------
# D23 SHORT-READ-SILENT / D24 DEFINITE-ASSIGNMENT (decoders)

DECODER_RELS = ("coco/hrstoppm.py", "coco/pixtopgm.py", "coco/maxtoppm.py", "coco/mgetoppm.py", "coco/cm3toppm.py", "coco/rattoppm.py", "coco/veftopng.py")


def _raw_tree(ctx: Ctx, rel: str) -> ast.Module:
    pth = ctx.path(rel)
    if not pth.exists():
        from .core import AnalysisError

        raise AnalysisError("ANCHOR", rel, "module not found")
    return ast.parse(pth.read_text())


def _functions(t: ast.Module):
    for n in ast.walk(t):
        if isinstance(n, ast.FunctionDef):
            yield n


@rule(
    "D23",
    "SHORT-READ-SILENT: a decoder that notices that a read returned fewer bytes than asked for (a test on the length of what was read) raises; it does not leave the loop or the function quietly with a partial image behind a complete header",
    ["C19"],
    floor=7,
)
def d23(ctx: Ctx):
    for rel in DECODER_RELS:
        t = _raw_tree(ctx, rel)
        found = 0
        for fn in _functions(t):
            reads = set()
            for a in ast.walk(fn):
                if isinstance(a, ast.Assign) and len(a.targets) == 1 and isinstance(a.targets[0], ast.Name):
                    if any(isinstance(c, ast.Call) and isinstance(c.func, ast.Attribute) and c.func.attr == "read" for c in ast.walk(a.value)):
                        reads.add(a.targets[0].id)
            for st in ast.walk(fn):
                if not isinstance(st, ast.If):
                    continue
                lens = [c for c in ast.walk(st.test) if isinstance(c, ast.Call) and isinstance(c.func, ast.Name) and c.func.id == "len" and c.args and isinstance(c.args[0], ast.Name) and c.args[0].id in reads]
                short = lens and any(isinstance(c, ast.Compare) and any(isinstance(o, (ast.Lt, ast.LtE, ast.NotEq, ast.Eq)) for o in c.ops) for c in ast.walk(st.test))
                if not short and not (isinstance(st.test, ast.UnaryOp) and isinstance(st.test.op, ast.Not) and isinstance(st.test.operand, ast.Name) and st.test.operand.id in reads):
                    continue
                quiet = any(isinstance(s, (ast.Break, ast.Return, ast.Continue)) for s in st.body) and not any(isinstance(x, ast.Raise) for s in st.body for x in ast.walk(s))
                found += 1
                ctx.ob(
                    f"{rel}:{fn.name}:{unparse(st.test)}",
                    not quiet,
                    "" if not quiet else f"`if {unparse(st.test)}:` in {fn.name}() notices a short read and leaves quietly ({', '.join(type(s).__name__.lower() for s in st.body)}): a file that ends there is decoded to a partial image with a complete header and success",
                    file=rel,
                    line=st.lineno,
                    witness="" if not quiet else "a file cut in the middle of a run",
                )
        ctx.ob(f"{rel}:scanned", True, file=rel, line=1)


def _cond_names(e: ast.AST) -> set:
    return {x.id for x in ast.walk(e) if isinstance(x, ast.Name)}


@rule(
    "D24",
    "HEADER-READ-UNCONDITIONAL: a decoder local whose only assignment is a read from the stream made inside an `if` (no `else` that assigns it) is not used outside that condition: otherwise the files for which the condition is false never consume that field - the stream is one field off - and the use dies with UnboundLocalError after the header went out",
    ["C16", "C18"],
    floor=7,
)
def d24(ctx: Ctx):
    for rel in DECODER_RELS:
        t = _raw_tree(ctx, rel)
        for fn in _functions(t):
            sites = {}

            def collect(stmts, conds):
                for st in stmts:
                    if isinstance(st, ast.Assign):
                        for tg in st.targets:
                            for x in ast.walk(tg):
                                if isinstance(x, ast.Name) and isinstance(x.ctx, ast.Store):
                                    sites.setdefault(x.id, []).append((st, list(conds)))
                    elif isinstance(st, (ast.AugAssign, ast.AnnAssign)) and isinstance(st.target, ast.Name):
                        sites.setdefault(st.target.id, []).append((st, list(conds)))
                    elif isinstance(st, ast.If):
                        collect(st.body, conds + [(st, True)])
                        collect(st.orelse, conds + [(st, False)])
                    elif isinstance(st, (ast.For, ast.While)):
                        for x in ast.walk(st.target) if isinstance(st, ast.For) else []:
                            if isinstance(x, ast.Name):
                                sites.setdefault(x.id, []).append((st, list(conds)))
                        collect(st.body, conds)
                        collect(st.orelse, conds)
                    elif isinstance(st, (ast.With, ast.Try)):
                        for fld in ("body", "orelse", "finalbody"):
                            collect(getattr(st, fld, []) or [], conds)
                        for h in getattr(st, "handlers", []):
                            collect(h.body, conds)

            collect(fn.body, [])
            for name, ss in sites.items():
                if len(ss) != 1:
                    continue
                st, conds = ss[0]
                if not isinstance(st, ast.Assign) or not conds:
                    continue
                if not any(isinstance(c, ast.Call) and isinstance(c.func, ast.Attribute) and c.func.attr == "read" for c in ast.walk(st.value)):
                    continue
                guard, _branch = conds[-1]
                guard_names = set().union(*[_cond_names(g.test) for g, _ in conds])
                inside = {id(x) for x in ast.walk(guard)}
                # reads outside the guarding `if`, not under a test that shares a name with the guards
                bad = None
                parents = {}
                for p_ in ast.walk(fn):
                    for c_ in ast.iter_child_nodes(p_):
                        parents[id(c_)] = p_
                nested = {id(y) for g_ in ast.walk(fn) if isinstance(g_, (ast.FunctionDef, ast.Lambda)) and g_ is not fn for y in ast.walk(g_)}
                for x in ast.walk(fn):
                    # (uses inside the `if`, in closures - they run when called - and textually before the read are not judged)
                    if isinstance(x, ast.Name) and x.id == name and isinstance(x.ctx, ast.Load) and id(x) not in inside and id(x) not in nested and x.lineno > getattr(guard, "end_lineno", guard.lineno):
                        q = x
                        correlated = False
                        while id(q) in parents:
                            q = parents[id(q)]
                            if isinstance(q, (ast.If, ast.IfExp, ast.While)) and _cond_names(q.test) & guard_names:
                                correlated = True
                                break
                            if isinstance(q, ast.BoolOp) and any(_cond_names(v) & guard_names for v in q.values if x not in list(ast.walk(v))):
                                correlated = True
                                break
                        if not correlated:
                            bad = x
                            break
                ok = bad is None
                ctx.ob(
                    f"{rel}:{fn.name}:{name}",
                    ok,
                    "" if ok else f"`{name}` is read from the stream only under `{unparse(guard.test)}` (line {st.lineno}) but used at line {bad.lineno} whatever that condition: files for which it is false skip the field (every later byte is taken for its neighbour) and the use raises UnboundLocalError",
                    file=rel,
                    line=st.lineno,
                    witness="" if ok else "a file for which the condition is false",
                )
        ctx.ob(f"{rel}:scanned", True, file=rel, line=1)


# ---------------------------------------------------------------------------
# E29 INT-OF-LITERAL


@rule(
    "E29",
    "INT-OF-LITERAL: the value of a numeric literal construct is never put through int(): the grammar admits literals beyond the double range (`1E309` is read as inf, `-1E999` as -inf), and int(inf) is an OverflowError - an internal error for a program the tool otherwise converts",
    ["C15"],
    floor=1,
)
def e29(ctx: Ctx):
    py = pyfacts(ctx)
    n = 0
    for rel in ("coco/b09/elements.py", "coco/b09/visitors.py", "coco/b09/parser.py"):
        for fn in [f for f in ast.walk(py.mod(rel).tree) if isinstance(f, ast.FunctionDef)]:
            guarded = any(isinstance(c, ast.Call) and (getattr(c.func, "attr", "") in ("isfinite", "isinf") or getattr(c.func, "id", "") in ("isfinite", "isinf")) for c in ast.walk(fn))
            in_try = {id(x) for t_ in ast.walk(fn) if isinstance(t_, ast.Try) and any(h.type is None or any(getattr(e_, "id", "") in ("OverflowError", "ArithmeticError", "Exception") for e_ in ast.walk(h.type)) for h in t_.handlers) for b_ in t_.body for x in ast.walk(b_)}
            for c in ast.walk(fn):
                if isinstance(c, ast.Call) and isinstance(c.func, ast.Name) and c.func.id in ("int", "round", "floor", "ceil", "trunc") and len(c.args) >= 1:
                    lits = [a for a in ast.walk(c.args[0]) if isinstance(a, ast.Attribute) and a.attr in ("literal", "_literal")]
                    if not lits:
                        continue
                    n += 1
                    ok = guarded or id(c) in in_try
                    ctx.ob(
                        f"{rel}:{fn.name}:{unparse(c)}",
                        ok,
                        "" if ok else f"`{unparse(c)}` in {fn.name}() converts the value of a literal to an integer with no test for infinity: `1E309` is accepted by the grammar, read as inf, and int(inf) raises OverflowError",
                        file=rel,
                        line=c.lineno,
                        witness="" if ok else "10 POKE 1E309,0",
                    )
        ctx.ob(f"{rel}:scanned", True, file=rel, line=1)


# ---------------------------------------------------------------------------
# E30 SAME-GUARD


@rule(
    "E30",
    "SAME-GUARD: when a construct prints one optional child in several layouts (the IF..ELSE..ENDIF form and the LOOP/EXITIF form of an IF), every layout decides with the same test whether the child is printed: the child is the same object whichever layout is chosen, so two different tests mean one layout drops (or invents) it for some programs",
    ["C02", "C06", "C07"],
    floor=1,
    default_props=["C02", "C06"],
)
def e30(ctx: Ctx):
    py = pyfacts(ctx)
    m = py.mod(ELEMENTS_REL)
    n = 0
    for ci in m.classes.values():
        fn = ci.methods.get("basic09_text")
        if fn is None:
            continue
        once = {}
        stores = {}
        for a in ast.walk(fn):
            if isinstance(a, (ast.Assign, ast.AnnAssign)):
                tg = a.targets[0] if isinstance(a, ast.Assign) else a.target
                if isinstance(tg, ast.Name) and a.value is not None:
                    stores[tg.id] = stores.get(tg.id, 0) + 1
                    once[tg.id] = a.value
        once = {k: v for k, v in once.items() if stores.get(k) == 1}

        def resolve(e: ast.AST, depth=0) -> ast.AST:
            import copy as _c

            class S(ast.NodeTransformer):
                def visit_Name(self, x):
                    if isinstance(x.ctx, ast.Load) and x.id in once and depth < 3 and not isinstance(once[x.id], (ast.JoinedStr, ast.IfExp)):
                        return resolve(_c.deepcopy(once[x.id]), depth + 1)
                    return x

            return S().visit(_c.deepcopy(e))

        sites = {}
        for node in ast.walk(fn):
            if isinstance(node, (ast.IfExp, ast.If)):
                test = resolve(node.test)
                tf = _self_fields(test)
                branches = ([node.body], [node.orelse]) if isinstance(node, ast.IfExp) else (node.body, node.orelse)
                for f in tf:
                    printed = any(isinstance(c, ast.Call) and isinstance(c.func, ast.Attribute) and c.func.attr == "basic09_text" and f in _self_fields(c.func.value) for br in branches for s in br for c in ast.walk(s))
                    # only "the child is printed or nothing is": the other branch is the empty text / absent
                    other_empty = (isinstance(node, ast.IfExp) and any(isinstance(b_, ast.Constant) and b_.value == "" for b_ in (node.body, node.orelse))) or (isinstance(node, ast.If) and not node.orelse)
                    if printed and other_empty:
                        # normal form: which truth value of the test prints the child
                        in_body = any(isinstance(c, ast.Call) and isinstance(c.func, ast.Attribute) and c.func.attr == "basic09_text" and f in _self_fields(c.func.value) for s in branches[0] for c in ast.walk(s))
                        t = test if in_body else ast.UnaryOp(op=ast.Not(), operand=test)
                        txt = unparse(t)
                        txt = {f"not self.{f} is None": f"self.{f} is not None", f"not (self.{f} is None)": f"self.{f} is not None"}.get(txt, txt)
                        sites.setdefault(f, []).append((txt, node.lineno))
        for f, ss in sites.items():
            if len(ss) < 2:
                continue
            n += 1
            texts = {}
            for txt, ln in ss:
                texts.setdefault(txt, []).append(ln)
            ok = len(texts) == 1
            if ok:
                ctx.ob(f"{ci.name}.{f}", True, file=ELEMENTS_REL, line=ss[0][1])
            else:
                common = max(texts.items(), key=lambda kv: len(kv[1]))[0]
                for txt, lns in texts.items():
                    if txt == common and len(texts[common]) > 1:
                        continue
                    ctx.ob(
                        f"{ci.name}.{f}:{txt}",
                        False,
                        f"`{ci.name}.basic09_text` prints `{f}` when `{txt}` (line {lns[0]}) in one layout and when `{[t for t in texts if t != txt][0]}` in another: for the programs on which the two tests differ one layout loses the child (an `ELSE <line>` arm that is a jump, not a statement block)",
                        file=ELEMENTS_REL,
                        line=lns[0],
                        witness="10 IF A=1 THEN 100 ELSE IF A=2 THEN 200 ELSE 300",
                    )
    ctx.need(n >= 1, "layouts", "no construct that prints one optional child in two layouts found (BasicIfElse prints its ELSE arm in two)")


# ---------------------------------------------------------------------------
# L17 FORMATTER-GUARD


def _implies_not_str(cond: ast.AST, positive: bool, target: str) -> bool:
    """Does `cond` (taken as true when positive, as false otherwise) imply `not <target>.is_str_expr`?"""
    want = f"{target}.is_str_expr"
    if positive:
        if isinstance(cond, ast.UnaryOp) and isinstance(cond.op, ast.Not):
            return _implies_not_str(cond.operand, False, target)
        if isinstance(cond, ast.BoolOp) and isinstance(cond.op, ast.And):
            return any(_implies_not_str(v, True, target) for v in cond.values)
        return False
    # cond is false
    if unparse(cond) == want:
        return True
    if isinstance(cond, ast.UnaryOp) and isinstance(cond.op, ast.Not):
        return _implies_not_str(cond.operand, True, target)
    if isinstance(cond, ast.BoolOp) and isinstance(cond.op, ast.Or):
        return any(_implies_not_str(v, False, target) for v in cond.values)
    return False


@rule(
    "L17",
    "FORMATTER-GUARD: a value is handed to the number formatter `ecb_str` (parameter `valin: real`) only on paths on which it is known not to be a string expression: the guard implies `not x.is_str_expr` - a disjunct that lets string expressions of some class through passes a string where a REAL is declared",
    ["C14", "C04", "C03"],
    floor=2,
    default_props=["C14"],
)
def l17(ctx: Ctx):
    py = pyfacts(ctx)
    n = 0
    for rel in ("coco/b09/parser.py", "coco/b09/visitors.py", "coco/b09/elements.py"):
        tree = py.mod(rel).tree
        parents = {}
        for p_ in ast.walk(tree):
            for c_ in ast.iter_child_nodes(p_):
                parents[id(c_)] = p_
        for c in ast.walk(tree):
            if not (isinstance(c, ast.Call) and isinstance(c.func, ast.Name) and c.func.id == "BasicFunctionalExpression" and c.args and isinstance(c.args[0], ast.Constant) and re.fullmatch(r"(?i)run\s+ecb_str", str(c.args[0].value).strip())):
                continue
            arg = None
            if len(c.args) > 1 and isinstance(c.args[1], ast.Call) and c.args[1].args and isinstance(c.args[1].args[0], ast.List) and len(c.args[1].args[0].elts) == 1:
                arg = c.args[1].args[0].elts[0]
            key = f"{rel}:{c.lineno}"
            if not isinstance(arg, ast.Name):
                ctx.undecided(key, "the value handed to ecb_str is not a plain local", file=rel, line=c.lineno)
                continue
            n += 1
            ok = False
            q = c
            conds = []
            while id(q) in parents:
                par = parents[id(q)]
                if isinstance(par, ast.IfExp):
                    if q is par.body:
                        conds.append((par.test, True))
                    elif q is par.orelse:
                        conds.append((par.test, False))
                elif isinstance(par, ast.If):
                    if q in par.body:
                        conds.append((par.test, True))
                    elif q in par.orelse:
                        conds.append((par.test, False))
                # guard clauses in front of the statement: `if T: return ...` leaves `not T` for what follows
                for fld in ("body", "orelse", "finalbody"):
                    seq = getattr(par, fld, None)
                    if isinstance(seq, list) and q in seq:
                        for prev in seq[: seq.index(q)]:
                            if isinstance(prev, ast.If) and not prev.orelse and prev.body and isinstance(prev.body[-1], (ast.Return, ast.Raise, ast.Continue, ast.Break)):
                                conds.append((prev.test, False))
                if isinstance(par, (ast.FunctionDef, ast.Lambda)):
                    break
                q = par
            ok = any(_implies_not_str(t, pos, arg.id) for t, pos in conds)
            shown = " and ".join((unparse(t) if pos else f"not ({unparse(t)})") for t, pos in conds) or "no condition"
            ctx.ob(
                f"{rel}:ecb_str({arg.id})",
                ok,
                "" if ok else f"`{arg.id}` is wrapped in `run ecb_str` under `{shown}`, which does not imply `not {arg.id}.is_str_expr`: a string expression that gets through is passed to `valin: real`, and the REAL temporary takes the place of the string operand",
                file=rel,
                line=c.lineno,
                witness="" if ok else '10 HPRINT (1,2), A$+"X"',
            )
    ctx.need(n >= 2, "ecb_str sites", f"only {n} places that wrap a value in `run ecb_str` found (PRINT items and the HPRINT item are two)")
