"""Rules added after seed round 10.
E25 TRAVERSAL-ORDER: a construct hands its children to a visitor in source order."""

from __future__ import annotations

import ast
from typing import List, Optional, Tuple

from .core import Ctx, rule
from .pyast import pyfacts, unparse

ELEMENTS_REL = "coco/b09/elements.py"
PROG_REL = "coco/b09/prog.py"


def _is_field(e: ast.AST) -> bool:
    """self.<name> (attribute or property), possibly `.exp_list` / `.statements` of one."""
    while isinstance(e, ast.Attribute):
        e = e.value
    return isinstance(e, ast.Name)


def _direction(it: ast.AST) -> Tuple[Optional[str], str]:
    """('forward' | 'backward' | None, the list walked).  None: a shape this rule does not read."""
    if isinstance(it, (ast.Attribute, ast.Name)) and _is_field(it):
        return "forward", unparse(it)
    if isinstance(it, ast.Subscript) and isinstance(it.slice, ast.Slice) and _is_field(it.value):
        s = it.slice
        if s.lower is None and s.upper is None:
            if s.step is None:
                return "forward", unparse(it.value)
            if isinstance(s.step, ast.UnaryOp) and isinstance(s.step.op, ast.USub) and isinstance(s.step.operand, ast.Constant) and s.step.operand.value == 1:
                return "backward", unparse(it.value)
            if isinstance(s.step, ast.Constant) and s.step.value == 1:
                return "forward", unparse(it.value)
        return None, unparse(it.value)
    if isinstance(it, ast.Call) and isinstance(it.func, ast.Name) and not it.keywords:
        f = it.func.id
        if f in ("enumerate", "list", "tuple", "iter") and len(it.args) == 1:
            return _direction(it.args[0])
        if f == "reversed" and len(it.args) == 1:
            d, what = _direction(it.args[0])
            return ({"forward": "backward", "backward": "forward"}.get(d) if d else None), what
        if f == "sorted" and it.args:
            return "backward", unparse(it.args[0])  # (an order other than the one of the source)
        if f == "range":
            a = it.args

            def is_len(e) -> Optional[str]:
                if isinstance(e, ast.Call) and isinstance(e.func, ast.Name) and e.func.id == "len" and len(e.args) == 1 and _is_field(e.args[0]):
                    return unparse(e.args[0])
                return None

            if len(a) == 1 and is_len(a[0]):
                return "forward", is_len(a[0])
            if len(a) == 2 and isinstance(a[0], ast.Constant) and a[0].value == 0 and is_len(a[1]):
                return "forward", is_len(a[1])
            if len(a) == 3 and isinstance(a[2], ast.UnaryOp) and isinstance(a[2].op, ast.USub):
                inner = [is_len(x) for x in ast.walk(a[0])]
                inner = [x for x in inner if x]
                return "backward", (inner[0] if inner else unparse(a[0]))
            return None, unparse(it)
    return None, unparse(it)


@rule(
    "E25",
    "TRAVERSAL-ORDER: a construct that holds a list of children hands them to a visitor first to last (the passes that pair a bare NEXT with its FOR, number temporaries and collect DATA items keep state between children: they are only right when they see the children in source order)",
    ["C02", "C03", "C09", "C01"],
    floor=5,
    default_props=["C02"],
)
def e25(ctx: Ctx):
    py = pyfacts(ctx)
    n_loops = 0
    for rel in (ELEMENTS_REL, PROG_REL):
        m = py.mod(rel)
        for ci in m.classes.values():
            fn = ci.methods.get("visit")
            if fn is None:
                continue
            for node in ast.walk(fn):
                iters: List[Tuple[ast.AST, ast.AST]] = []
                if isinstance(node, ast.For):
                    iters.append((node.iter, node))
                elif isinstance(node, (ast.ListComp, ast.GeneratorExp, ast.SetComp)):
                    iters += [(g.iter, node) for g in node.generators]
                for it, at in iters:
                    # only loops that hand something to the visitor / to the children
                    body_calls = [c for c in ast.walk(at) if isinstance(c, ast.Call) and isinstance(c.func, ast.Attribute) and c.func.attr.startswith("visit")]
                    if not body_calls:
                        continue
                    d, what = _direction(it)
                    n_loops += 1
                    key = f"{ci.name}.visit:{what}"
                    if d is None:
                        ctx.undecided(key, f"the children are walked through `{unparse(it)}`: a shape this rule does not read", file=rel, line=it.lineno)
                        continue
                    ok = d == "forward"
                    ctx.ob(
                        key,
                        ok,
                        "" if ok else f"`{ci.name}.visit` walks `{what}` through `{unparse(it)}`: the children reach the visitor in an order other than the source's, so a pass that keeps state between them (the FOR stack of the NEXT patcher, temporary numbering, DATA collection) pairs / numbers them wrongly",
                        file=rel,
                        line=it.lineno,
                        witness="" if ok else "10 FOR I=1 TO 3 / 20 FOR J=1 TO 2:PRINT I;J:NEXT / 30 NEXT",
                    )
    ctx.need(n_loops >= 5, "visit-loops", f"only {n_loops} child loops found in the visit methods of elements.py / prog.py (6 confirmed by hand)")
