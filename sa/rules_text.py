"""Rules about raw node text: G6 RAW-TEXT, G7 LITERAL-LANG, G9 VAR-IDENTITY, E8 IDENT-DISJOINT."""

from __future__ import annotations

import ast
import re
from typing import Dict, List, Optional, Set, Tuple

from .absint import Const, NodeV, NumV, Obj, Operand, Seq, StrV, Tmpl, Union, Unknown, V, alts_of, interp
from .core import AnalysisError, Ctx, rule
from .pyast import call_name, pyfacts, unparse
from .relang import Lang, confirm
from .rules_abs import rule_values, site_name, walk
from .textlang import NoLang, PositionMismatch, string_lang
from .visitormodel import PARSER_REL

FLOAT_RE = r"[ \t\n\r\f\v]*[+-]?((\d+(_\d+)*\.?(\d+(_\d+)*)?|\.\d+(_\d+)*)([eE][+-]?\d+(_\d+)*)?|[iI][nN][fF]([iI][nN][iI][tT][yY])?|[nN][aA][nN])[ \t\n\r\f\v]*"
INT_RE = r"[ \t\n\r\f\v]*[+-]?\d+(_\d+)*[ \t\n\r\f\v]*"
HEX_RE = r"[ \t\n\r\f\v]*[+-]?(0[xX])?_?[0-9a-fA-F]+(_[0-9a-fA-F]+)*[ \t\n\r\f\v]*"


def _text_sources(v: V, depth=0) -> List[NodeV]:
    """Parse nodes whose text a string value is derived from."""
    out: List[NodeV] = []
    if depth > 12:
        return out
    if isinstance(v, Union):
        for a in v.alts:
            out += _text_sources(a, depth + 1)
    elif isinstance(v, Tmpl):
        for p in v.parts:
            if isinstance(p, V):
                out += _text_sources(p, depth + 1)
    elif isinstance(v, StrV):
        if hasattr(v, "concat"):
            out += _text_sources(v.concat[0], depth + 1) + _text_sources(v.concat[1], depth + 1)
        elif hasattr(v, "op"):
            out += _text_sources(v.op[1], depth + 1)
        elif hasattr(v, "slice_of"):
            out += _text_sources(v.slice_of[0], depth + 1)
        elif getattr(v, "node", None) is not None:
            out.append(v.node)
    return out


@rule("G6", "RAW-TEXT: node text is only taken from terminals and reaches a converter / construct in a layout-free form", ["C08", "C15", "C07"], floor=12, default_props=["C08", "C15"])
def g6(ctx: Ctx):
    I = interp(ctx)
    vals = rule_values(ctx)
    seen: Set[str] = set()
    for r, v in sorted(vals.items()):
        vm = I.vm.methods.get("visit_" + r)
        if vm is None:
            continue
        for x, where in walk(v):
            if not isinstance(x, Obj):
                continue
            for f, fv in x.fields.items():
                strs: List[V] = []
                for y in alts_of(fv):
                    if isinstance(y, (StrV, Tmpl)):
                        strs.append(y)
                    elif isinstance(y, NumV) and hasattr(y, "conv"):
                        strs.append(y.conv[1][0])
                for sv in strs:
                    for node in _text_sources(sv):
                        # attribute the read to the visitor method of the rule that owns the node; only objects that
                        # this very visitor constructs are its responsibility (re-wrapped copies are derived values)
                        owner = _owner_rule(I, node)
                        key = f"visit_{owner}:{x.cls}.{f}"
                        if key in seen:
                            continue
                        if x.file != PARSER_REL or site_name(ctx, x) not in (f"visit_{owner}", f"visit_{r}"):
                            continue
                        seen.add(key)
                        terminal = I.peg.kind(node.expr) in ("regex", "literal") or I.peg.literal_set(node.expr) is not None
                        if not terminal and node.force != "present":
                            ctx.ob(
                                key,
                                False,
                                f"visit_{owner} copies the raw text of the non-terminal `{node.desc}` into `{x.cls}.{f}`: blanks between its tokens (layout) reach the output, so two spellings of the same program convert differently",
                                file=PARSER_REL,
                                line=x.line,
                                props=["C08"],
                                witness="`CLEAR  100` vs `CLEAR 100`" if owner == "clear_statement" else "",
                            )
                            continue
                        # terminal: can the text still contain a blank when it reaches the field?
                        try:
                            L = string_lang(I, sv)
                        except PositionMismatch as e:
                            ctx.ob(key, False, f"{e}: when the two texts differ (blanks were removed from one of them) the cut lands on the wrong character, so layout changes the value", file=PARSER_REL, line=getattr(x, "line", 1) or 1, props=["C08", "C15"])
                            continue
                        except NoLang as e:
                            raise AnalysisError("G6", key, f"cannot derive the language of the text: {e}")
                        content = _is_content_terminal(I, node)
                        blank = Lang.from_regex(r"[^\x00]* [^\x00]*") if False else None
                        has_blank = _lang_has_blank(L)
                        ok = content or not has_blank[0]
                        if not ok and L.approx and not _confirm_any(node, has_blank[1]):
                            ok = True
                        ctx.ob(
                            key,
                            ok,
                            "" if ok else f"text of terminal `{node.desc}` can still contain a blank (e.g. {has_blank[1]!r}) when visit_{owner} hands it on to `{x.cls}.{f}`: insignificant layout changes the result",
                            file=PARSER_REL,
                            line=x.line,
                            facts={"content_terminal": content},
                            # (a blank inside a name is no BASIC09 identifier: the emitted statement does not parse)
                            props=["C08", "C15", "C07"] if f in ("_name",) or "name" in f else None,
                        )


def _owner_rule(I, node: NodeV) -> str:
    return node.expr.name or node.desc


CONTENT_TERMINALS = {"str_literal", "partial_str_lit", "data_str_literal", "comment_text"}


def _is_content_terminal(I, node: NodeV) -> bool:
    """Strings, DATA items and comments: blanks are content and must be preserved."""
    return (node.expr.name or "") in CONTENT_TERMINALS


def _lang_has_blank(L: Lang) -> Tuple[bool, Optional[str]]:
    anyb = Lang.from_regex(r"(.|\n)* (.|\n)*")
    inter = L.intersect(anyb)
    w = inter.witness()
    return (w is not None, w)


def _confirm_any(node: NodeV, w: Optional[str]) -> bool:
    return True


@rule("G7", "LITERAL-LANG: every text handed to int()/float() is in the language the converter accepts", ["C15", "C01", "C08"], floor=4, default_props=["C15", "C01"])
def g7(ctx: Ctx):
    I = interp(ctx)
    vals = rule_values(ctx)
    targets = {"float": Lang.from_regex(FLOAT_RE), "int": Lang.from_regex(INT_RE), "int16": Lang.from_regex(HEX_RE)}
    seen: Set[str] = set()
    for r, v in sorted(vals.items()):
        for x, where in walk(v):
            if not (isinstance(x, NumV) and hasattr(x, "conv")):
                continue
            name, args = x.conv
            if not args:
                continue
            srcs = _text_sources(args[0])
            if not srcs:
                continue
            owner = _owner_rule(I, srcs[0])
            key = f"{owner}->{name}()"
            if key in seen:
                continue
            seen.add(key)
            which = name
            if name == "int" and len(args) > 1 and isinstance(args[1], Const) and args[1].value == 16:
                which = "int16"
            try:
                L = string_lang(I, args[0])
            except PositionMismatch as e:
                ctx.ob(key, False, f"{e}: blanks in front of the marker shift the cut, the converter receives a truncated or empty text", file=PARSER_REL, line=1, props=["C08", "C15", "C01"])
                continue
            except NoLang as e:
                raise AnalysisError("G7", key, f"cannot derive the language of the converted text: {e}")
            ok, w = L.included_in(targets[which])
            wit = None
            if not ok:
                # confirm witnesses against the original pattern when the automaton skipped look-arounds
                cands = L.minus(targets[which]).witnesses(limit=12)
                wit = _confirmed(I, srcs[0], cands, args[0])
                if wit is None and L.approx:
                    ok = True
                elif wit is None:
                    wit = cands[0] if cands else w
            layout_only = False
            if not ok:
                # would the blank-free spellings of the terminal all convert?  then the failure is an effect of layout
                from . import textlang as _tl

                _tl.NO_BLANK_SPELLINGS = True
                try:
                    layout_only = string_lang(I, args[0]).included_in(targets[which])[0]
                except Exception:
                    layout_only = False
                finally:
                    _tl.NO_BLANK_SPELLINGS = False
            ctx.ob(
                key,
                ok,
                "" if ok else f"terminal `{owner}` admits spellings whose normalised text {wit!r} is not accepted by {name}(): the conversion raises ValueError (an internal error, not a refusal)" + (" - only spellings with a blank inside the literal fail, the same literal written without blanks converts" if layout_only else ""),
                props=["C15", "C01", "C08"] if layout_only else None,
                file="coco/b09/grammar.py",
                line=I.peg.line(owner),
                witness="" if ok else f"10 A={wit}",
                facts={"converter": which},
                # the parked defect is "these spellings are admitted"; a terminal that admits further bad spellings is new
                signature=None if ok else "rejected by the converter: " + ", ".join(repr(x) for x in sorted(L.minus(targets[which]).witnesses(limit=6, maxlen=6), key=lambda x: (len(x), x))[:4]),
            )


def _confirmed(I, node: NodeV, cands: List[str], sv: V) -> Optional[str]:
    """A witness of the *normalised* language that corresponds to a real match of the terminal's regex.
    The normalisations used by the repository only delete blanks, so the witness itself is tried."""
    if I.peg.kind(node.expr) != "regex":
        return cands[0] if cands else None
    pat = node.expr.re.pattern
    for c in cands:
        raw = c[2:] if c.startswith("0x") else c
        for variant in (raw, "&H" + raw):
            if confirm(pat, variant):
                return c
    return None


# ---------------------------------------------------------------------------
# G9 VAR-IDENTITY / E8 IDENT-DISJOINT

USER_WIDTH = 2


def _user_langs(I) -> Dict[str, Lang]:
    vals = {}
    for r in ("var", "str_var"):
        v = I.eval_rule(r, (), top=True)
        objs = [a for a in alts_of(v) if isinstance(a, Obj) and a.cls == "BasicVar"]
        if len(objs) != 1:
            raise AnalysisError("G9", r, f"visit_{r} does not build exactly one BasicVar")
        nm = objs[0].fields.get("_name")
        try:
            vals[r] = (string_lang(I, nm), objs[0])
        except NoLang as e:
            raise AnalysisError("G9", r, f"cannot derive the identifier language: {e}")
    return vals


@rule("G9", "VAR-IDENTITY: identifiers are the first two characters (plus `$`), arrays get exactly one `arr_` prefix", ["C09", "C03", "C10"], floor=6, default_props=["C09"])
def g9(ctx: Ctx):
    I = interp(ctx)
    py = pyfacts(ctx)
    langs = _user_langs(I)
    want_num = Lang.from_regex(r"[A-Z][A-Z0-9]?")
    want_str = Lang.from_regex(r"[A-Z][A-Z0-9]?\$")
    Ln, on = langs["var"]
    Ls, os_ = langs["str_var"]
    # the full (untruncated) languages of the terminals, look-ahead ignored (over-approximation)
    ok, w = Ln.equals(want_num)
    ctx.ob("visit_var:two-characters", ok, "" if ok else f"scalar identifiers are not exactly the first two characters of the name (e.g. {w!r}): names Color BASIC treats as one variable map to different BASIC09 variables, or distinct ones collide", file=PARSER_REL, line=on.line, witness="10 ABC=1:ABD=2")
    ok, w = Ls.equals(want_str)
    ctx.ob("visit_str_var:two-characters+$", ok, "" if ok else f"string identifiers are not the first two characters followed by `$` (e.g. {w!r})", file=PARSER_REL, line=os_.line)
    # both kinds are flagged consistently
    s1, s2 = on.fields.get("_is_str_expr"), os_.fields.get("_is_str_expr")
    okk = isinstance(s1, Const) and s1.value is False and isinstance(s2, Const) and s2.value is True
    ctx.ob("var-kinds", okk, "" if okk else "visit_var / visit_str_var do not mark numeric / string variables as such", file=PARSER_REL, line=on.line)
    # the four kinds are pairwise disjoint languages
    arr = Lang.from_regex(r"arr_[A-Z][A-Z0-9]?\$?")
    for a, b, la, lb in (("scalar", "string", Ln, Ls), ("scalar", "array", Ln, arr), ("string", "array", Ls, arr)):
        inter = la.intersect(lb)
        w = inter.witness()
        ctx.ob(f"disjoint:{a}/{b}", w is None, "" if w is None else f"{a} and {b} identifiers can coincide ({w!r})", file=PARSER_REL, line=on.line)
    # array references: prefix applied once in BasicArrayRef.__init__, from var.name()
    for r in ("array_ref_exp", "str_array_ref_exp"):
        v = I.eval_rule(r, (), top=True)
        refs = [a for a in alts_of(v) if isinstance(a, Obj) and a.cls == "BasicArrayRef"]
        ctx.need(len(refs) == 1, r, "does not build exactly one BasicArrayRef")
        inner = refs[0].fields.get("_var")
        ctx.need(isinstance(inner, Obj) and inner.cls == "BasicVar", r, "BasicArrayRef._var is not a BasicVar")
        nm = inner.fields.get("_name")
        # exactly one `arr_` prefix in front of the name of the variable of the same kind
        want_arr = _fold(Lang.from_regex(r"arr_[A-Z][A-Z0-9]?\$" if r == "str_array_ref_exp" else r"arr_[A-Z][A-Z0-9]?"))
        try:
            okp, wdiff = _fold(string_lang(I, nm)).equals(want_arr)
        except NoLang as e:
            raise AnalysisError("G9", r, f"cannot derive the language of the array identifier {nm!r}: {e}")
        ctx.ob(f"{r}:arr_-prefix", bool(okp), "" if okp else f"array identifier is built as {nm!r} (e.g. {wdiff!r}), not `arr_` + the variable name: arrays and scalars of one name alias, or references and DIM disagree", file="coco/b09/elements.py", line=inner.line)
        sflag = refs[0].fields.get("_is_str_expr")
        want = r == "str_array_ref_exp"
        oks = isinstance(sflag, Const) and sflag.value is want
        ctx.ob(f"{r}:kind", oks, "" if oks else f"array reference built by {r} has is_str_expr={sflag!r}", file=PARSER_REL, line=refs[0].line)
    # every place that strips the prefix strips exactly len("arr_") characters
    n_strip = 0
    for rel in ("coco/b09/elements.py", "coco/b09/visitors.py"):
        m = py.mod(rel)
        parents = {id(c): pp for pp in ast.walk(m.tree) for c in ast.iter_child_nodes(pp)}
        def _slice_start(n_: ast.Subscript) -> Optional[int]:
            """Constant start of a slice: a number, or len(<string constant>) through a class-level / module-level name."""
            lo = n_.slice.lower
            if isinstance(lo, ast.Constant) and isinstance(lo.value, int) and not isinstance(lo.value, bool):
                return lo.value
            if isinstance(lo, ast.Call) and call_name(lo) == "len" and len(lo.args) == 1:
                a_ = lo.args[0]
                if isinstance(a_, ast.Constant) and isinstance(a_.value, str):
                    return len(a_.value)
                nm_ = a_.attr if isinstance(a_, ast.Attribute) else a_.id if isinstance(a_, ast.Name) else None
                if nm_ is not None:
                    cands_ = [m.assigns.get(nm_)] + [st_.value for ci_ in m.classes.values() for st_ in ci_.node.body if isinstance(st_, ast.Assign) and len(st_.targets) == 1 and isinstance(st_.targets[0], ast.Name) and st_.targets[0].id == nm_]
                    vals_ = {c_.value for c_ in cands_ if isinstance(c_, ast.Constant) and isinstance(c_.value, str)}
                    if len(vals_) == 1:
                        return len(next(iter(vals_)))
            return None

        # module-level helpers whose every call has been inlined by the normalised view are dead text
        dead_ids: Set[int] = set()
        for f_ in m.tree.body:
            if isinstance(f_, ast.FunctionDef) and not any(isinstance(x, ast.Name) and x.id == f_.name and isinstance(x.ctx, ast.Load) for x in ast.walk(m.tree)):
                dead_ids |= {id(x) for x in ast.walk(f_)}
        for n in ast.walk(m.tree):
            if id(n) in dead_ids:
                continue
            if isinstance(n, ast.Subscript) and isinstance(n.slice, ast.Slice) and n.slice.lower is not None and _slice_start(n) in (3, 4, 5):
                src = unparse(n.value)
                if src.endswith("name()") or isinstance(n.value, ast.Name):
                    n_strip += 1
                    ok = _slice_start(n) == len("arr_") and n.slice.upper is None
                    why = f"`{unparse(n)}` strips {_slice_start(n)} characters, the array prefix `arr_` has 4"
                    if n.slice.upper is not None:
                        why = f"`{unparse(n)}` also cuts the name after the prefix: the `$` of a two-character string array name is lost, so the string array is declared under the numeric array's identifier"
                    skey = f"{rel.split('/')[-1]}:{_func_at(m, n.lineno)}#{n_strip}"
                    ctx.ob(f"strip-prefix:{skey}", ok, "" if ok else why, file=rel, line=n.lineno, props=["C09", "C10"])
                    # a stripped (source-level) name may only be used to rebuild the variable of an array reference;
                    # everywhere else names are compared in their emitted form
                    par = parents.get(id(n))
                    okc = isinstance(par, ast.Call) and call_name(par) == "BasicVar" and par.args and par.args[0] is n
                    if not okc and isinstance(par, ast.Assign) and len(par.targets) == 1 and isinstance(par.targets[0], ast.Name):
                        # kept in a local first: every use of that local has to be the BasicVar(...) reconstruction
                        tmp_ = par.targets[0].id
                        fn_ = next((f_ for f_ in ast.walk(m.tree) if isinstance(f_, ast.FunctionDef) and any(x is par for x in ast.walk(f_))), None)
                        uses_ = [u for u in ast.walk(fn_) if isinstance(u, ast.Name) and u.id == tmp_ and isinstance(u.ctx, ast.Load)] if fn_ is not None else []
                        okc = bool(uses_) and all(isinstance(parents.get(id(u)), ast.Call) and call_name(parents.get(id(u))) == "BasicVar" and parents.get(id(u)).args and parents.get(id(u)).args[0] is u for u in uses_)
                    ctx.ob(
                        f"strip-prefix:{skey}:use",
                        bool(okc),
                        "" if okc else f"`{unparse(n)}` (array name without its `arr_` prefix) is used outside a `BasicVar(...)` reconstruction: the bare name is that of the scalar of the same name, so array and scalar are confused in whatever set or comparison it enters",
                        file=rel,
                        line=n.lineno,
                        props=["C09", "C03", "C10"],
                    )
    ctx.need(n_strip >= 3, "strip-prefix", f"only {n_strip} prefix-stripping sites found")
    # per-name string sizes are keyed by emitted names: X$ -> X$, X$() -> arr_X$
    sv = py.cls("SetDimStringStorageVisitor").methods.get("__init__")
    ctx.need(sv is not None, "SetDimStringStorageVisitor.__init__", "not found")
    src = unparse(sv)
    from .pyast import ast_contains

    # slots: the f-string that builds the array identifier (`arr_` + the key without its `$()` + `$`), under a test of
    # the key's last character - as a conditional expression, an if statement, or anything else that contains them
    fstrs = [n for n in ast.walk(sv) if isinstance(n, ast.JoinedStr) and n.values and isinstance(n.values[0], ast.Constant) and str(n.values[0].value).startswith("arr_")]
    okm = False
    for fs in fstrs:
        parts_ = fs.values
        if len(parts_) == 3 and parts_[0].value == "arr_" and isinstance(parts_[2], ast.Constant) and parts_[2].value == "$" and isinstance(parts_[1], ast.FormattedValue):
            sl_ = parts_[1].value
            if isinstance(sl_, ast.Subscript) and isinstance(sl_.slice, ast.Slice) and sl_.slice.lower is None and isinstance(sl_.slice.upper, ast.UnaryOp) and isinstance(sl_.slice.upper.operand, ast.Constant) and sl_.slice.upper.operand.value == 3:
                okm = any(isinstance(c, ast.Call) and isinstance(c.func, ast.Attribute) and c.func.attr == "endswith" and c.args and isinstance(c.args[0], ast.Constant) and c.args[0].value == "$" for c in ast.walk(sv))
    ctx.idiom("config-keys->emitted-names", bool(fstrs), okm, "" if okm else "configured names are no longer rewritten as `X$` -> `X$`, `X$()` -> `arr_X$`", file="coco/b09/visitors.py", line=sv.lineno, props=["C09", "C10"])


@rule("E8", "IDENT-DISJOINT: identifiers the tool invents cannot be user identifiers; no constant DIM declares a name twice", ["C09", "C10", "C07"], floor=8)
def e8(ctx: Ctx):
    I = interp(ctx)
    py = pyfacts(ctx)
    langs = _user_langs(I)
    user = [langs["var"][0], langs["str_var"][0], Lang.from_regex(r"(?i)arr_[A-Z][A-Z0-9]?\$?")]
    generated: Dict[str, Tuple[str, int]] = {}
    patterns: Dict[str, Tuple[str, int]] = {}
    for rel in ("coco/b09/parser.py", "coco/b09/elements.py", "coco/b09/visitors.py", "coco/b09/compiler.py", "coco/b09/error_handler.py"):
        m = py.mod(rel)
        for n in ast.walk(m.tree):
            if isinstance(n, ast.Call) and call_name(n) == "BasicVar" and n.args:
                a = n.args[0]
                if isinstance(a, ast.Constant) and isinstance(a.value, str):
                    generated.setdefault(a.value, (rel, n.lineno))
                elif isinstance(a, ast.JoinedStr) and not (rel.endswith("parser.py") and _func_at(m, n.lineno).split(".")[-1] in ("visit_var", "visit_str_var")):
                    # (the two callbacks that build the *user's* identifiers are judged by G9, on their languages)
                    pat = ""
                    for v in a.values:
                        pat += re.escape(str(v.value)) if isinstance(v, ast.Constant) else "@"
                    patterns.setdefault(pat, (rel, n.lineno))
            if isinstance(n, ast.Call) and call_name(n) == "Basic09CodeStatement" and n.args and isinstance(n.args[0], ast.Constant) and isinstance(n.args[0].value, str):
                txt = n.args[0].value
                md = re.match(r"(?i)\s*dim\s+(.*?):", txt)
                if md:
                    names = [x.strip() for x in md.group(1).split(",")]
                    dup = sorted({x for x in names if names.count(x) > 1})
                    ctx.ob(f"dim:{names[0]}..", not dup, "" if not dup else f"`{txt}` declares {dup} twice (and therefore omits another name)", file=rel, line=n.lineno, props=["C10", "C07"])
                    for x in names:
                        generated.setdefault(re.sub(r"\(.*\)$", "", x), (rel, n.lineno))
    # get_new_temp: f"tmp_{n}$" / f"tmp_{n}"
    gt = py.cls("AbstractBasicStatement").methods.get("get_new_temp")
    ctx.need(gt is not None, "AbstractBasicStatement.get_new_temp", "not found")
    temp_pats = []

    def const_alts(name: str) -> Optional[List[str]]:
        """String constants a local name is bound to in get_new_temp (plain or tuple assignments)."""
        alts_: List[str] = []
        for a_ in ast.walk(gt):
            if isinstance(a_, ast.Assign) and len(a_.targets) == 1:
                t_, v_ = a_.targets[0], a_.value
                if isinstance(t_, ast.Name) and t_.id == name and isinstance(v_, ast.Constant) and isinstance(v_.value, str):
                    alts_.append(v_.value)
                elif isinstance(t_, ast.Tuple) and isinstance(v_, ast.Tuple) and len(t_.elts) == len(v_.elts):
                    for te, ve in zip(t_.elts, v_.elts):
                        if isinstance(te, ast.Name) and te.id == name:
                            if isinstance(ve, ast.Constant) and isinstance(ve.value, str):
                                alts_.append(ve.value)
                            else:
                                return None
        return alts_ or None

    for n in ast.walk(gt):
        if isinstance(n, ast.JoinedStr):
            variants = [""]
            for v in n.values:
                if isinstance(v, ast.Constant):
                    variants = [x + re.escape(str(v.value)) for x in variants]
                elif isinstance(v, ast.FormattedValue) and isinstance(v.value, ast.Name) and const_alts(v.value.id) is not None:
                    variants = [x + re.escape(c_) for x in variants for c_ in const_alts(v.value.id)]
                elif isinstance(v, ast.FormattedValue) and isinstance(v.value, ast.IfExp) and all(isinstance(b_, ast.Constant) and isinstance(b_.value, str) for b_ in (v.value.body, v.value.orelse)):
                    # f"tmp_{n}{'$' if is_str else ''}": one pattern per arm
                    variants = [x + re.escape(b_.value) for x in variants for b_ in (v.value.body, v.value.orelse)]
                else:
                    variants = [x + r"\d+" for x in variants]
            for pat in variants:
                temp_pats.append((pat, n.lineno))
    ctx.need(len(temp_pats) == 2, "get_new_temp", f"expected a numeric and a string temporary name pattern, found {temp_pats}")
    for pat, ln in temp_pats:
        L = Lang.from_regex("(?i)" + pat)
        hit = None
        for u in user:
            w = _fold(L).intersect(_fold(u)).witness()
            if w is not None:
                hit = w
        ctx.ob(f"temp:{pat}", hit is None, "" if hit is None else f"temporaries named by `{pat}` can equal a user identifier ({hit!r}): a user variable and a temporary alias", file="coco/b09/elements.py", line=ln, props=["C09"])
    # string and numeric temporaries live in different name spaces
    sp = [p for p, _ in temp_pats]
    oks = any(p.endswith(r"\$") for p in sp) and any(not p.endswith(r"\$") for p in sp)
    ctx.ob("temp:kinds-distinct", oks, "" if oks else "string and numeric temporaries share one name space", file="coco/b09/elements.py", line=gt.lineno, props=["C09", "C05"])
    for name, (rel, ln) in sorted(generated.items()):
        base = name.split(".")[0]
        hit = any(_fold(u).accepts(base.upper()) for u in user)
        ctx.ob(f"generated:{name}", not hit, "" if not hit else f"generated identifier `{name}` is also a legal user identifier after truncation: the user's variable {base.upper()!r} and the tool's own variable collide", file=rel, line=ln, props=["C09"])
    for pat, (rel, ln) in sorted(patterns.items()):
        # f"arr_{...}" handled by G9; others must carry a fixed prefix that no user name has
        fixed = pat.split("@")[0]
        ok = len(re.sub(r"\\", "", fixed)) >= 3 or fixed.startswith("arr")
        ctx.ob(f"generated-pattern:{pat}", ok, "" if ok else f"identifier pattern `{pat}` has no fixed prefix that separates it from user identifiers", file=rel, line=ln, props=["C09"])


def _func_at(m, line: int) -> str:
    best = "<module>"
    for ci in m.classes.values():
        for fn in list(ci.methods.values()) + list(ci.properties.values()):
            if fn.lineno <= line <= getattr(fn, "end_lineno", fn.lineno):
                best = f"{ci.name}.{fn.name}"
    return best


def _fold(L: Lang) -> Lang:
    return L


def _delims(pattern: str) -> Tuple[int, int]:
    """Number of fixed delimiter characters (quotes) a terminal pattern starts / ends with."""
    import re._constants as sc
    import re._parser as sp

    items = list(sp.parse(pattern))
    lead = trail = 0
    for op, av in items:
        if op is sc.LITERAL and av == ord('"'):
            lead += 1
        else:
            break
    if lead < len(items):
        for op, av in reversed(items):
            if op is sc.LITERAL and av == ord('"'):
                trail += 1
            else:
                break
    return lead, trail


@rule("G12", "QUOTE-STRIP: the text of a quoted terminal loses exactly its delimiting quotes - no content character is cut off, no quote is kept", ["C13", "C03", "C08", "C07"], floor=3, default_props=["C03", "C13", "C07"])
def g12(ctx: Ctx):
    I = interp(ctx)
    vals = rule_values(ctx)
    from .textlang import _rel

    seen: Set[str] = set()
    for r, v in sorted(vals.items()):
        for x, where in walk(v):
            if not isinstance(x, Obj):
                continue
            for f, fv in x.fields.items():
                for y in alts_of(fv):
                    if not isinstance(y, StrV):
                        continue
                    if hasattr(y, "slice_of"):
                        base, lo, hi = y.slice_of
                    elif getattr(y, "node", None) is not None and not hasattr(y, "op") and not hasattr(y, "concat") and x.cls in ("BasicLiteral", "BasicComment"):
                        base, lo, hi = y, Const(0), Const(None)  # the whole text of the terminal, quotes included
                    else:
                        continue
                    node = getattr(base, "node", None) or getattr(y, "node", None)
                    if node is None or I.peg.kind(node.expr) != "regex":
                        continue
                    lead, trail = _delims(node.expr.re.pattern)
                    if lead == 0 and trail == 0:
                        continue
                    if getattr(base, "full", False):
                        lo_k, hi_e = _rel(lo, "start"), _rel(hi, "end")
                        hi_k = None if hi_e is None else -hi_e
                    else:
                        lo_k = (lo.value or 0) if isinstance(lo, Const) else None
                        hi_k = (0 if hi.value is None else (-hi.value if hi.value < 0 else None)) if isinstance(hi, Const) else None
                    meth = _func_at(pyfacts(ctx).modules[PARSER_REL], getattr(x, "line", 0) or 0).split(".")[-1]
                    key = f"{meth}:{x.cls}.{f}"
                    if key in seen:
                        continue
                    seen.add(key)
                    ok = lo_k == lead and hi_k == trail
                    ctx.ob(
                        key,
                        ok,
                        "" if ok else f"`{meth}` stores the text of `{node.desc}` ({node.expr.re.pattern!r}) with {lo_k} leading and {hi_k} trailing character(s) cut off; the terminal has {lead} opening and {trail} closing quote(s): a content character of the user's string is lost, or a quote is kept and unbalances the emitted literal",
                        file="coco/b09/parser.py",
                        line=getattr(x, "line", 1) or 1,
                    )


# ---------------------------------------------------------------------------
# G13 LINE-ENDS


@rule("G13", "LINE-ENDS: the line-separator terminal accepts LF, CR and CRLF alike, and no other terminal can swallow a line-end character as content (decided on the terminals' regular languages)", ["C08"], floor=8)
def g13(ctx: Ctx):
    from .peg import GRAMMAR_REL, peg

    P = peg(ctx)
    regexes = [(name, e) for name, e in P.rules.items() if P.kind(e) == "regex"]
    langs = {}
    for name, e in regexes:
        try:
            langs[name] = Lang.from_regex(e.re.pattern, e.re.flags)
        except Exception as ex:
            raise AnalysisError("G13", name, f"pattern {e.re.pattern!r} not analysable: {ex}")
    # the separator: a terminal whose whole language consists of line-end characters (by language, not by name)
    only_eol = Lang.from_regex(r"[\r\n]+")
    seps = [name for name, L_ in langs.items() if not L_.is_empty() and L_.included_in(only_eol)[0] and not L_.accepts("")]
    ctx.need(len(seps) >= 1, "grammar", "no terminal whose language is made of line-end characters found")
    for name in seps:
        pat = P.rules[name].re.pattern
        plus = Lang.from_regex(f"(?:{pat})+", P.rules[name].re.flags)
        for spelled, txt in (("LF", "\n"), ("CR", "\r"), ("CRLF", "\r\n")):
            ok = plus.accepts(txt)
            ctx.ob(f"{name}:{spelled}", ok, "" if ok else f"terminal `{name}` = {pat!r} does not match a {spelled} line end: the same program with {spelled} line ends is refused while its other spellings convert", file=GRAMMAR_REL, line=P.line(name), witness="" if ok else "10 A=1" + txt + "20 B=2")
    # the visitor's `this node is only layout` test covers every character the separator and the blank can be
    vm_ = interp(ctx).vm
    gv = vm_.methods.get("generic_visit")
    if gv is None:
        ctx.undecided("generic_visit:layout-test", "no generic_visit", file=PARSER_REL, line=1)
    else:
        layout_chars = {" "} | {ch for ch in "\r\n" if any(langs[n_].accepts(ch) for n_ in seps)}
        strips = [c for c in ast.walk(gv.fn) if isinstance(c, ast.Call) and isinstance(c.func, ast.Attribute) and c.func.attr == "strip" and isinstance(c.func.value, ast.Attribute) and c.func.value.attr == "text"]
        if not strips:
            ctx.undecided("generic_visit:layout-test", "the test that recognises layout-only nodes (`node.text.strip() == \"\"`) was not recognised", file=PARSER_REL, line=gv.fn.lineno)
        for c in strips:
            if not c.args:
                ctx.ob("generic_visit:layout-test", True, file=PARSER_REL, line=c.lineno)
            elif isinstance(c.args[0], ast.Constant) and isinstance(c.args[0].value, str):
                missing = sorted(layout_chars - set(c.args[0].value))
                ctx.ob("generic_visit:layout-test", not missing, "" if not missing else f"generic_visit treats a node as layout when `{unparse(c)}` is empty; {missing!r} can be matched by the line-separator / blank terminals but is not stripped: a source with such line ends is rejected by the visitor while its LF spelling converts", file=PARSER_REL, line=c.lineno, witness="" if not missing else "10 A=1\r\n20 B=2\r\n")
            else:
                ctx.undecided("generic_visit:layout-test", f"`{unparse(c)}` strips a computed set of characters", file=PARSER_REL, line=c.lineno)
    # every other terminal stops at a line end: a CR or LF inside its match would make the output depend on the line-end convention
    with_eol = Lang.from_regex(r"(?s).*[\r\n].*")
    for name, L_ in sorted(langs.items()):
        if name in seps:
            continue
        inter = L_.intersect(with_eol)
        ok = inter.is_empty()
        w = None if ok else inter.witness()
        ctx.ob(f"{name}:stops-at-line-end", ok, "" if ok else f"terminal `{name}` = {P.rules[name].re.pattern!r} can match {w!r}: with CR or CRLF line ends the line end (and what follows) becomes part of the token, so the output differs from the LF spelling", file=GRAMMAR_REL, line=P.line(name), witness="" if ok else "10 REM X\r20 A=1\r")


# ---------------------------------------------------------------------------
# G14 CONTENT-VERBATIM


@rule("G14", "CONTENT-VERBATIM: the text of a content terminal (comment, string literal, DATA item: blanks are content there) reaches its construct without strip / replace / case operations", ["C08", "C03", "C13"], floor=2, default_props=["C08"])
def g14(ctx: Ctx):
    I = interp(ctx)
    vals = rule_values(ctx)
    content: Dict[str, bool] = {}

    def is_content(node) -> bool:
        if node is None or I.peg.kind(node.expr) != "regex":
            return False
        pat = node.expr.re.pattern
        if pat not in content:
            try:
                L_ = Lang.from_regex(pat, node.expr.re.flags)
                content[pat] = any(L_.accepts(w) for w in ("G G", '"G G"', '"G G'))
            except Exception:
                content[pat] = False
        return content[pat]

    def chain(y, depth=0):
        """(operations applied, innermost value) of a derived string."""
        ops = []
        cur = y
        while depth < 8:
            depth += 1
            if hasattr(cur, "op"):
                ops.append(cur.op[0])
                cur = cur.op[1]
            elif hasattr(cur, "slice_of"):
                cur = cur.slice_of[0]
            else:
                break
        return ops, cur

    seen: Set[str] = set()
    n = 0
    for r, v in sorted(vals.items()):
        for x, where in walk(v):
            if not isinstance(x, Obj):
                continue
            for f, fv in x.fields.items():
                for y in alts_of(fv):
                    if not isinstance(y, StrV):
                        continue
                    ops, base = chain(y)
                    node = getattr(base, "node", None) or getattr(y, "node", None)
                    if not is_content(node):
                        continue
                    meth = _func_at(pyfacts(ctx).modules[PARSER_REL], getattr(x, "line", 0) or 0).split(".")[-1]
                    key = f"{meth}:{x.cls}.{f}<-{node.desc}"
                    if key in seen:
                        continue
                    seen.add(key)
                    n += 1
                    bad = [o for o in ops if o in ("strip", "lstrip", "rstrip", "replace", "lower", "upper", "title", "capitalize", "swapcase", "expandtabs")]
                    ctx.ob(key, not bad, "" if not bad else f"`{meth}` stores the text of `{node.desc}` after {['.' + o + '()' for o in bad]}: blanks (or letters) that are content of the comment / string / DATA item are changed, and two sources that differ in content convert to the same output", file=PARSER_REL, line=getattr(x, "line", 1) or 1)
    ctx.need(n >= 1, "content terminals", "no construct that stores the text of a comment / string / DATA terminal found")


# ---------------------------------------------------------------------------
# G16 SIGN-UNIFORM


@rule("G16", "SIGN-UNIFORM: a numeric terminal that takes a leading sign in one of its spellings takes it in all of them (otherwise `-1` is a unary expression whose operand swallows the following AND / OR, while `-1.0` is a literal)", ["C01", "C08"], floor=1)
def g16(ctx: Ctx):
    from .peg import GRAMMAR_REL, peg

    P = peg(ctx)
    shapes = ["1", "12", "1.", "1.5", ".5", "1E5", "1.5E5", "1E+5", "1E-5"]
    n = 0
    for name, e in sorted(P.rules.items()):
        if P.kind(e) != "regex":
            continue
        try:
            L_ = Lang.from_regex(e.re.pattern, e.re.flags)
        except Exception:
            continue
        plain = [s_ for s_ in shapes if L_.accepts(s_)]
        if len(plain) < 3:
            continue  # not a general numeric literal
        for sign in ("-", "+"):
            signed = [s_ for s_ in plain if L_.accepts(sign + s_)]
            if not signed:
                continue
            n += 1
            missing = [s_ for s_ in plain if s_ not in signed]
            ok = not missing
            ctx.ob(f"{name}:{sign}", ok, "" if ok else f"terminal `{name}` accepts `{sign}{signed[0]}` as one literal but not `{sign}{missing[0]}`: the latter becomes a unary expression, whose operand extends over a following AND / OR / comparison - `A={sign}{missing[0]} AND B` and `A={sign}{signed[0]} AND B` group differently", file=GRAMMAR_REL, line=P.line(name), witness="" if ok else f"10 A={sign}{missing[0]} AND B")
    ctx.need(n >= 1, "grammar", "no numeric terminal with a leading sign found")


# ---------------------------------------------------------------------------
# G17 TOKEN-BOUNDARY


@rule("G17", "TOKEN-BOUNDARY: a variable terminal takes a whole name or nothing: it never stops in front of further name characters or a `$` (the rest would be read as a second variable) - the terminal's own pattern is asked, look-arounds and backtracking included", ["C09", "C01"], floor=2)
def g17(ctx: Ctx):
    import re as _re

    from .peg import GRAMMAR_REL, peg

    P = peg(ctx)
    names = ["A", "Z", "AB", "A1", "ABC", "AB1", "X12", "A1B", "X9Y", "B2CD", "A1B2"]
    n = 0
    for tname, e in sorted(P.rules.items()):
        if P.kind(e) != "regex":
            continue
        pat, fl = e.re.pattern, e.re.flags
        try:
            rx = _re.compile(pat, fl)
        except _re.error:
            continue
        num = all(rx.fullmatch(x) for x in ("A", "AB")) and not rx.fullmatch("1") and not rx.fullmatch("A$") and not rx.fullmatch("A B")
        strv = all(rx.fullmatch(x) for x in ("A$", "AB$")) and not rx.fullmatch("A") and not rx.fullmatch("1$") and not rx.fullmatch('"A$"')
        if not (num or strv):
            continue
        n += 1
        bad = []
        for nm in names:
            if num:
                m = rx.match(nm + "$")
                if m is not None:
                    bad.append(f"`{nm}$` -> `{m.group(0)}` + `{(nm + '$')[m.end():]}`")
                m2 = rx.match(nm + "=1")
                if m2 is not None and m2.end() != len(nm):
                    bad.append(f"`{nm}=1` -> `{m2.group(0)}`")
            else:
                m = rx.match(nm + "$=")
                if m is not None and m.end() != len(nm) + 1:
                    bad.append(f"`{nm}$` -> `{m.group(0)}`")
        ok = not bad
        ctx.ob(f"{tname}", ok, "" if ok else f"terminal `{tname}` stops inside a name: {'; '.join(bad[:3])}: where the grammar tries this terminal first (PRINT items), one source variable is read as two different ones", file=GRAMMAR_REL, line=P.line(tname), witness="" if ok else '10 AB$="X":PRINT AB$')
    ctx.need(n >= 2, "grammar", f"only {n} variable terminals recognised")


# ---------------------------------------------------------------------------
# G21 SAME-TOKEN


@rule("G21", "SAME-TOKEN: two terminals with the same blank-free spellings are one token standing in two syntactic positions (a hex constant in an expression / as a DIM bound); they admit blanks in the same places - otherwise `&H FF` is accepted in one position and refused in the other", ["C08"], floor=1)
def g21(ctx: Ctx):
    from .peg import GRAMMAR_REL, peg
    from .relang import SPACE, erase_chars

    P = peg(ctx)
    terms = {n: e for n, e in P.rules.items() if P.kind(e) == "regex" and (e.name or n) == n}
    full: Dict[str, Lang] = {}
    core: Dict[str, Lang] = {}
    for n, e in sorted(terms.items()):
        try:
            nfa = Lang.nfa_from_regex(e.re.pattern, e.re.flags & ~32)
        except Exception:
            continue
        if nfa.approx:
            continue  # look-arounds: the automaton over-approximates, no verdict on these
        full[n] = Lang.from_nfa(nfa)
        core[n] = Lang.from_nfa(erase_chars(nfa, SPACE))
    names = sorted(full)
    pairs = 0
    for i, a in enumerate(names):
        for b in names[i + 1 :]:
            if core[a].is_empty() or not (core[a].included_in(core[b])[0] and core[b].included_in(core[a])[0]):
                continue
            if core[a].accepts(""):
                continue  # content terminals that may be empty
            pairs += 1
            ok, w = full[a].equals(full[b])
            ctx.ob(
                f"{a}={b}",
                ok,
                "" if ok else f"terminals `{a}` and `{b}` spell the same token (their blank-free spellings coincide) but differ on where blanks may stand: {w!r} is accepted by one and refused by the other - the same constant is translated in one position and refused in the other, depending on layout",
                file=GRAMMAR_REL,
                line=P.line(a),
                witness="" if ok else f"10 A={w}" if w else "",
            )
    ctx.need(pairs >= 1, "token pairs", "no two terminals with coinciding blank-free spellings found")
