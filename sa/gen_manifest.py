"""Writes /verif/MANIFEST.json from the property table and the registered rules."""

from __future__ import annotations

import json
import sys

from . import core
from .check import load_rules
from .props import PROPS

BASELINE = "cd /repo && /venv/bin/python -m pytest -ra -q -p no:cacheprovider --timeout=900 --continue-on-collection-errors"


def main():
    load_rules()
    fixes = []
    kf = core.KNOWN_FILE
    if kf.exists():
        data = json.loads(kf.read_text())
        for f in data.get("fixed", []):
            parts = f.split()
            if len(parts) > 2:
                fixes.append(parts[2])
    checks = []
    claimed = [p for p in sorted(PROPS) if core.rules_for(p)]
    for pid in claimed:
        meta = PROPS[pid]
        rids = core.rules_for(pid)
        checks.append(
            {
                "property_id": pid,
                "quick_cmd": f"PYTHONHASHSEED=0 /venv/bin/python -m sa.check {pid} --tier quick",
                "thorough_cmd": f"PYTHONHASHSEED=0 /venv/bin/python -m sa.check {pid} --tier thorough",
                "evidence_file": f"/verif/evidence/{pid}.json",
                "replay_cmd_template": "/venv/bin/python -m sa.check --replay {path}",
                "engine": "sa",
                "level_claimed": {
                    "category": "other",
                    "text": "Static rule checking: every instance of the rules "
                    + ", ".join(rids)
                    + " found in the current source is either discharged or reported with file:line. "
                    + "Structural clause decided: "
                    + meta["clause"]
                    + ". Not decided: "
                    + meta["not"]
                    + ".",
                    "design_ref": "DESIGN.md section " + meta["design"],
                },
                "level_note": "Trusted: CPython ast, parsimonious' grammar front-end on the reconstructed grammar text, re._parser, the frozen oracle tables and per-rule exception tables in /verif/sa (one reason per entry). "
                "Exit 0 held / 1 VIOLATION / 2 ANALYSIS-ERROR (vanished anchor or unmodelled syntax; never a silent pass).",
                "technique": "static analysis: custom AST / PEG-grammar / BASIC09-library rule checkers (def-use, abstract construct building, template and traversal models, regular-language inclusion, bit-vector and polynomial evaluation)",
            }
        )
    man = {
        "version": 1,
        "setup_cmd": "cd /verif && /venv/bin/python -c \"import parsimonious, compileall, sys; sys.exit(0 if compileall.compile_dir('sa', quiet=1) else 1)\"",
        "hooks": {
            "guard": "COCO_TOOLS_VERIF",
            "enable": "none needed: the checkers read the source, no instrumentation is compiled in",
            "baseline_off_cmd": BASELINE,
            "source_commits": fixes,
            "add_only": True,
        },
        "engines": [
            {
                "name": "sa",
                "path": "/verif/sa",
                "serves_properties": claimed,
                "kind_free_text": "repository-specific static analysers in Python (stdlib ast + parsimonious grammar front-end); no repository code is imported or executed",
            }
        ],
        "checks": checks,
        "not_applicable": [
            {"property_id": p, "reason": "no structural clause implemented yet that is a necessary condition of the property"} for p in sorted(PROPS) if p not in claimed
        ],
        "notes": "All checks are one family: static analysis. `fix:` commits in /repo are listed under hooks.source_commits (they are unguarded repairs, not hooks). "
        "Known findings live in /verif/known_findings.json.",
    }
    (core.VERIF / "MANIFEST.json").write_text(json.dumps(man, indent=1) + "\n")
    print(f"MANIFEST.json: {len(checks)} checks, {len(man['not_applicable'])} not applicable")


if __name__ == "__main__":
    main()
