"""M2: constant folder for grammar.py + PEG model.

`coco.b09.grammar` is never imported.  The module-level assignments of
grammar.py are folded by a small evaluator over the AST (dict/list/tuple
literals, comprehensions over them, str.join, itertools.chain, .keys(),
f-strings, re.compile); the exact grammar text is reconstructed and handed to
`parsimonious.grammar.Grammar`, the language front-end the repository itself
uses.  Anything the folder does not model is an AnalysisError (exit 2).
"""

from __future__ import annotations

import ast
import itertools
from typing import Any, Dict, List, Optional, Set, Tuple

from .core import AnalysisError, Ctx
from .pyast import pyfacts

GRAMMAR_REL = "coco/b09/grammar.py"


class RegexConst:
    def __init__(self, pattern: str, flags: int = 0):
        self.pattern = pattern
        self.flags = flags

    def __repr__(self):
        return f"re.compile({self.pattern!r})"


class GrammarSrc:
    def __init__(self, text: str, lineno: int):
        self.text = text
        self.lineno = lineno


class Unfoldable(Exception):
    pass


class ConstFolder:
    def __init__(self, env: Dict[str, Any]):
        self.env = env

    def ev(self, n: ast.AST, local: Optional[Dict[str, Any]] = None) -> Any:
        local = local or {}
        if isinstance(n, ast.Constant):
            return n.value
        if isinstance(n, ast.Name):
            if n.id in local:
                return local[n.id]
            if n.id in self.env:
                v = self.env[n.id]
                if isinstance(v, Unfoldable):
                    raise Unfoldable(f"name {n.id} ({v})")
                return v
            raise Unfoldable(f"name {n.id}")
        if isinstance(n, ast.Dict):
            d = {}
            for k, v in zip(n.keys, n.values):
                if k is None:
                    d.update(self.ev(v, local))
                else:
                    d[self.ev(k, local)] = self.ev(v, local)
            return d
        if isinstance(n, ast.List):
            return [self.ev(e, local) for e in n.elts]
        if isinstance(n, ast.Tuple):
            return tuple(self.ev(e, local) for e in n.elts)
        if isinstance(n, ast.Set):
            return set(self.ev(e, local) for e in n.elts)
        if isinstance(n, ast.JoinedStr):
            out = []
            for v in n.values:
                if isinstance(v, ast.Constant):
                    out.append(str(v.value))
                elif isinstance(v, ast.FormattedValue):
                    if v.format_spec is not None or v.conversion not in (-1, 115):
                        raise Unfoldable("format spec")
                    out.append(str(self.ev(v.value, local)))
                else:
                    raise Unfoldable("joinedstr part")
            return "".join(out)
        if isinstance(n, (ast.ListComp, ast.GeneratorExp, ast.SetComp)):
            res = []
            self._comp(n.generators, 0, dict(local), lambda env: res.append(self.ev(n.elt, env)))
            return set(res) if isinstance(n, ast.SetComp) else res
        if isinstance(n, ast.DictComp):
            res = {}

            def add(env):
                res[self.ev(n.key, env)] = self.ev(n.value, env)

            self._comp(n.generators, 0, dict(local), add)
            return res
        if isinstance(n, ast.BinOp) and isinstance(n.op, ast.Add):
            a, b = self.ev(n.left, local), self.ev(n.right, local)
            if type(a) in (str, list, tuple) and type(a) is type(b):
                return a + b
            raise Unfoldable("+ operands")
        if isinstance(n, ast.BinOp) and isinstance(n.op, ast.Mod):
            a, b = self.ev(n.left, local), self.ev(n.right, local)
            if isinstance(a, str):
                return a % b
            raise Unfoldable("% operands")
        if isinstance(n, ast.Compare) and len(n.ops) == 1:
            a, b = self.ev(n.left, local), self.ev(n.comparators[0], local)
            op = n.ops[0]
            if isinstance(op, ast.Eq):
                return a == b
            if isinstance(op, ast.NotEq):
                return a != b
            if isinstance(op, ast.In):
                return a in b
            if isinstance(op, ast.NotIn):
                return a not in b
            raise Unfoldable("compare")
        if isinstance(n, ast.Subscript):
            a = self.ev(n.value, local)
            if isinstance(n.slice, ast.Slice):
                lo = self.ev(n.slice.lower, local) if n.slice.lower else None
                hi = self.ev(n.slice.upper, local) if n.slice.upper else None
                return a[lo:hi]
            return a[self.ev(n.slice, local)]
        if isinstance(n, ast.Call):
            return self._call(n, local)
        if isinstance(n, ast.Attribute):
            base = n.value
            if isinstance(base, ast.Name) and base.id == "re":
                import re as _re

                if n.attr.isupper() and hasattr(_re, n.attr):
                    return int(getattr(_re, n.attr))
            raise Unfoldable(f"attribute {ast.unparse(n)}")
        raise Unfoldable(type(n).__name__)

    def _comp(self, gens, i, env, emit):
        if i == len(gens):
            emit(env)
            return
        g = gens[i]
        it = self.ev(g.iter, env)
        if isinstance(it, dict):
            it = list(it.keys())
        for v in it:
            e2 = dict(env)
            self._bind(g.target, v, e2)
            if all(self.ev(c, e2) for c in g.ifs):
                self._comp(gens, i + 1, e2, emit)

    def _bind(self, t, v, env):
        if isinstance(t, ast.Name):
            env[t.id] = v
        elif isinstance(t, (ast.Tuple, ast.List)):
            v = list(v)
            if len(v) != len(t.elts):
                raise Unfoldable("unpack")
            for tt, vv in zip(t.elts, v):
                self._bind(tt, vv, env)
        else:
            raise Unfoldable("target")

    def _call(self, n: ast.Call, local):
        f = n.func
        if n.keywords and not (isinstance(f, ast.Attribute) and f.attr == "compile"):
            raise Unfoldable("keywords")
        args = [self.ev(a, local) for a in n.args]
        if isinstance(f, ast.Attribute):
            # re.compile
            if isinstance(f.value, ast.Name) and f.value.id == "re" and f.attr == "escape" and len(args) == 1 and isinstance(args[0], str):
                import re as _re

                return _re.escape(args[0])
            if isinstance(f.value, ast.Name) and f.value.id == "re" and f.attr == "compile":
                if not isinstance(args[0], str):
                    raise Unfoldable("re.compile arg")
                return RegexConst(args[0], args[1] if len(args) > 1 else 0)
            if isinstance(f.value, ast.Name) and f.value.id == "itertools" and f.attr == "chain":
                return list(itertools.chain(*[list(a) for a in args]))
            recv = self.ev(f.value, local)
            if isinstance(recv, str):
                if f.attr == "join":
                    return recv.join(list(args[0]))
                if f.attr in ("lower", "upper", "strip", "format", "replace"):
                    return getattr(recv, f.attr)(*args)
            if isinstance(recv, dict) and f.attr in ("keys", "values", "items") and not args:
                return list(getattr(recv, f.attr)())
            raise Unfoldable(f"method {f.attr}")
        if isinstance(f, ast.Name):
            if f.id == "chain":
                return list(itertools.chain(*[list(a) if not isinstance(a, dict) else list(a) for a in args]))
            if f.id in ("list", "tuple", "sorted", "set", "frozenset", "len", "str", "int"):
                return {"list": list, "tuple": tuple, "sorted": sorted, "set": set, "frozenset": frozenset, "len": len, "str": str, "int": int}[
                    f.id
                ](*args)
            if f.id == "Grammar":
                if len(args) != 1 or not isinstance(args[0], str):
                    raise Unfoldable("Grammar() argument")
                return GrammarSrc(args[0], n.lineno)
        raise Unfoldable(f"call {ast.unparse(f)}")


def fold_module(ctx: Ctx, rel: str) -> Dict[str, Any]:
    """Fold every module-level simple assignment of `rel`; unfoldable ones map to Unfoldable instances."""
    m = pyfacts(ctx).mod(rel)
    env: Dict[str, Any] = {}
    cf = ConstFolder(env)
    for st in m.tree.body:
        tgt = None
        val = None
        if isinstance(st, ast.Assign) and len(st.targets) == 1 and isinstance(st.targets[0], ast.Name):
            tgt, val = st.targets[0].id, st.value
        elif isinstance(st, ast.AnnAssign) and isinstance(st.target, ast.Name) and st.value is not None:
            tgt, val = st.target.id, st.value
        if tgt is None:
            continue
        try:
            env[tgt] = cf.ev(val)
        except Unfoldable as e:
            env[tgt] = e
        except Exception as e:  # arithmetic on folded constants failed
            env[tgt] = Unfoldable(f"{type(e).__name__}: {e}")
    return env


# ---------------------------------------------------------------------------
# PEG model


class Peg:
    def __init__(self, ctx: Ctx):
        from parsimonious.grammar import Grammar  # language front-end only

        self.ctx = ctx
        self.env = fold_module(ctx, GRAMMAR_REL)
        g = self.env.get("grammar")
        if not isinstance(g, GrammarSrc):
            raise AnalysisError("M2", "grammar", f"module-level `grammar = Grammar(...)` could not be folded: {g}")
        self.text = g.text
        self.lineno = g.lineno
        try:
            self.grammar = Grammar(self.text)
        except Exception as e:
            raise AnalysisError("M2", "grammar", f"reconstructed grammar text rejected by parsimonious: {e}")
        self.rules: Dict[str, Any] = dict(self.grammar.items())
        self.default = self.grammar.default_rule.name if self.grammar.default_rule is not None else None
        # source line of each rule definition inside grammar.py
        self.rule_line: Dict[str, int] = {}
        for i, ln in enumerate(self.text.split("\n")):
            s = ln.strip()
            if "=" in s:
                nm = s.split("=", 1)[0].strip()
                if nm.isidentifier() and nm not in self.rule_line:
                    self.rule_line[nm] = self.lineno + i
        ctx.units["peg_rules"] = len(self.rules)
        self._memo: Dict[Tuple[str, int], Any] = {}

    # -- shape -----------------------------------------------------------
    @staticmethod
    def kind(e) -> str:
        n = type(e).__name__
        return {
            "Sequence": "seq",
            "OneOf": "oneof",
            "Quantifier": "quant",
            "Regex": "regex",
            "Literal": "literal",
            "Lookahead": "lookahead",
            "LazyReference": "ref",
        }.get(n, n)

    def rule(self, name: str):
        if name not in self.rules:
            raise AnalysisError("M2", name, "PEG rule not found in grammar")
        return self.rules[name]

    def line(self, name: str) -> int:
        return self.rule_line.get(name, self.lineno)

    def effective_name(self, name: str) -> str:
        """`a = b` makes a an alias of b's expression: nodes are named b."""
        e = self.rule(name)
        return e.name or name

    def quant(self, e) -> Tuple[int, float]:
        return (e.min, e.max)

    def describe(self, e) -> str:
        if e.name:
            return e.name
        k = self.kind(e)
        if k == "literal":
            return repr(e.literal)
        if k == "regex":
            return f"~{e.re.pattern!r}"
        if k == "quant":
            mn, mx = self.quant(e)
            suf = "?" if (mn, mx) == (0, 1) else "*" if mn == 0 else "+" if mn == 1 and mx == float("inf") else f"{{{mn},{mx}}}"
            return self.describe(e.members[0]) + suf
        if k == "seq":
            return "(" + " ".join(self.describe(m) for m in e.members) + ")"
        if k == "oneof":
            return "(" + " / ".join(self.describe(m) for m in e.members) + ")"
        if k == "lookahead":
            return ("!" if e.negativity else "&") + self.describe(e.members[0])
        return k

    # -- derived languages --------------------------------------------------
    def literal_set(self, e, depth=0) -> Optional[Set[str]]:
        """The finite set of strings e can match, if e is built from literals only (else None)."""
        if depth > 20:
            return None
        k = self.kind(e)
        if k == "literal":
            return {e.literal}
        if k == "oneof":
            out: Set[str] = set()
            for m in e.members:
                s = self.literal_set(m, depth + 1)
                if s is None:
                    return None
                out |= s
            return out
        if k == "seq" and len(e.members) == 1:
            return self.literal_set(e.members[0], depth + 1)
        return None

    def is_space_star(self, e) -> bool:
        if self.kind(e) != "quant":
            return False
        mn, mx = self.quant(e)
        return mn == 0 and mx == float("inf") and self._is_space(e.members[0])

    def _is_space(self, e) -> bool:
        k = self.kind(e)
        if k == "literal":
            return e.literal == " "
        if k == "regex":
            return e.re.pattern in (" ", r"\ ", "[ ]")
        return False

    def _fix(self, tag: str, fn_local, init: bool) -> Dict[int, bool]:
        """Boolean least/greatest fix-point over all expressions reachable from the rules."""
        exprs = self.all_exprs()
        val = {id(e): init for e in exprs}
        changed = True
        while changed:
            changed = False
            for e in exprs:
                v = fn_local(e, val)
                if v != val[id(e)]:
                    val[id(e)] = v
                    changed = True
        return val

    def all_exprs(self) -> List[Any]:
        if "all" in self._memo:
            return self._memo["all"]
        seen: Dict[int, Any] = {}
        stack = list(self.rules.values())
        while stack:
            e = stack.pop()
            if id(e) in seen:
                continue
            seen[id(e)] = e
            for m in getattr(e, "members", ()) or ():
                stack.append(m)
        self._memo["all"] = list(seen.values())
        return self._memo["all"]

    def nullable(self) -> Dict[int, bool]:
        if "nullable" in self._memo:
            return self._memo["nullable"]
        import re as _re

        def loc(e, val):
            k = self.kind(e)
            if k == "literal":
                return e.literal == ""
            if k == "regex":
                return e.re.match("") is not None
            if k == "lookahead":
                return True
            if k == "quant":
                return e.min == 0 or val[id(e.members[0])]
            if k == "seq":
                return all(val[id(m)] for m in e.members)
            if k == "oneof":
                return any(val[id(m)] for m in e.members)
            return False

        self._memo["nullable"] = self._fix("nullable", loc, False)
        return self._memo["nullable"]

    def blank_only(self) -> Dict[int, bool]:
        """e can only ever match text made of blanks (possibly empty)."""
        if "blank_only" in self._memo:
            return self._memo["blank_only"]

        def loc(e, val):
            k = self.kind(e)
            if k == "literal":
                return e.literal.strip(" ") == ""
            if k == "regex":
                return e.re.pattern in (" ", " *", " +", r"\ ", "[ ]", "[ ]*", "")
            if k == "lookahead":
                return True
            if k == "quant":
                return val[id(e.members[0])]
            if k == "seq":
                return all(val[id(m)] for m in e.members)
            if k == "oneof":
                return all(val[id(m)] for m in e.members)
            return False

        # greatest fix-point (recursive rules made of blanks only stay True)
        self._memo["blank_only"] = self._fix("blank_only", loc, True)
        return self._memo["blank_only"]

    def absorbs_leading_blanks(self) -> Dict[int, bool]:
        """On every way of matching, e starts with a `space*`-like part that takes all blanks
        (so optional blanks in front of e are always accepted)."""
        if "lead" in self._memo:
            return self._memo["lead"]
        nullable = self.nullable()
        blank = self.blank_only()

        def loc(e, val):
            k = self.kind(e)
            if self.is_space_star(e):
                return True
            if k == "regex":
                p = e.re.pattern
                return p.startswith(" *") or p.startswith(r"\s*") or p.startswith("[ ]*")
            if k == "quant":
                return False
            if k == "seq":
                for m in e.members:
                    if val[id(m)]:
                        return True
                    if self.kind(m) == "lookahead":
                        continue
                    if blank[id(m)] and nullable[id(m)]:
                        continue
                    return False
                return False
            if k == "oneof":
                return all(val[id(m)] for m in e.members)
            return False

        self._memo["lead"] = self._fix("lead", loc, False)
        return self._memo["lead"]

    def absorbs_trailing_blanks(self) -> Dict[int, bool]:
        """On every way of matching, e ends with a `space*`-like part (blanks after e are accepted)."""
        if "trail" in self._memo:
            return self._memo["trail"]
        nullable = self.nullable()
        blank = self.blank_only()

        def loc(e, val):
            k = self.kind(e)
            if self.is_space_star(e):
                return True
            if k == "regex":
                p = e.re.pattern
                return p.endswith(" *") or p.endswith(r"\s*")
            if k == "quant":
                # x+ / x* where x ends with blanks: if at least one repetition it ends with blanks;
                # zero repetitions -> nothing matched, the boundary moves to the previous member
                return False
            if k == "seq":
                for m in reversed(e.members):
                    if val[id(m)]:
                        return True
                    if self.kind(m) == "lookahead":
                        continue
                    if blank[id(m)] and nullable[id(m)]:
                        continue
                    return False
                return False
            if k == "oneof":
                return all(val[id(m)] for m in e.members)
            return False

        self._memo["trail"] = self._fix("trail", loc, False)
        return self._memo["trail"]


def peg(ctx: Ctx) -> Peg:
    return ctx.engine("peg", Peg)
