"""M2: constant folder for grammar.py + PEG model.

`coco.b09.grammar` is never imported.  The module-level assignments of
grammar.py are folded by a small evaluator over the AST (dict/list/tuple
literals, comprehensions over them, str.join, itertools.chain, .keys(),
f-strings, re.compile); the exact grammar text is reconstructed and handed to
`parsimonious.grammar.Grammar`, the language front-end the repository itself
uses.  Anything the folder does not model is an AnalysisError (exit 2).
"""

from __future__ import annotations

import ast
import itertools
from typing import Any, Dict, List, Optional, Set, Tuple

from .core import AnalysisError, Ctx
from .pyast import pyfacts

GRAMMAR_REL = "coco/b09/grammar.py"


class RegexConst:
    def __init__(self, pattern: str, flags: int = 0):
        self.pattern = pattern
        self.flags = flags

    def __repr__(self):
        return f"re.compile({self.pattern!r})"


class GrammarSrc:
    def __init__(self, text: str, lineno: int):
        self.text = text
        self.lineno = lineno


class Unfoldable(Exception):
    pass


_NORETURN = object()


class ConstFolder:
    def __init__(self, env: Dict[str, Any], functions: Optional[Dict[str, ast.FunctionDef]] = None):
        self.env = env
        self.functions = functions or {}  # module-level helper functions (`def _quoted(names): return [...]`)
        self._depth = 0

    def _user_call(self, fn: ast.FunctionDef, args: List[Any], kwargs: Dict[str, Any]) -> Any:
        """A module-level helper applied to folded arguments: straight-line body (assignments, for-loops that append /
        update, if/else on folded tests) ending in `return <expr>`."""
        if self._depth > 6 or fn.args.kwarg or fn.decorator_list:
            raise Unfoldable(f"call {fn.name}")
        params = [a.arg for a in fn.args.args] + [a.arg for a in fn.args.kwonlyargs]
        local: Dict[str, Any] = {}
        defaults = fn.args.defaults
        pos = [a.arg for a in fn.args.args]
        for i, p_ in enumerate(pos):
            if i < len(args):
                local[p_] = args[i]
            elif p_ in kwargs:
                local[p_] = kwargs[p_]
            else:
                di = i - (len(pos) - len(defaults))
                if 0 <= di < len(defaults):
                    local[p_] = self.ev(defaults[di], {})
                else:
                    raise Unfoldable(f"call {fn.name}: missing argument {p_}")
        for a, d in zip(fn.args.kwonlyargs, fn.args.kw_defaults):
            if a.arg in kwargs:
                local[a.arg] = kwargs[a.arg]
            elif d is not None:
                local[a.arg] = self.ev(d, {})
            else:
                raise Unfoldable(f"call {fn.name}: missing argument {a.arg}")
        if fn.args.vararg is not None:
            local[fn.args.vararg.arg] = tuple(args[len(pos) :])
        elif len(args) > len(pos):
            raise Unfoldable(f"call {fn.name}: arguments")
        if set(kwargs) - set(params):
            raise Unfoldable(f"call {fn.name}: arguments")
        self._depth += 1
        try:
            r = self._run(fn.body, local)
        finally:
            self._depth -= 1
        if r is _NORETURN:
            return None
        return r

    def _run(self, stmts: List[ast.stmt], local: Dict[str, Any]) -> Any:
        for st in stmts:
            if isinstance(st, ast.Expr) and isinstance(st.value, ast.Constant):
                continue
            if isinstance(st, ast.Return):
                return self.ev(st.value, local) if st.value is not None else None
            if isinstance(st, (ast.Assign, ast.AnnAssign)):
                tg = st.targets[0] if isinstance(st, ast.Assign) and len(st.targets) == 1 else getattr(st, "target", None)
                if tg is None or st.value is None:
                    raise Unfoldable("assignment form")
                self._bind(tg, self.ev(st.value, local), local)
                continue
            if isinstance(st, ast.AugAssign) and isinstance(st.target, ast.Name) and isinstance(st.op, ast.Add):
                local[st.target.id] = self.ev(ast.BinOp(left=ast.Name(id=st.target.id, ctx=ast.Load()), op=ast.Add(), right=st.value), local)
                continue
            if isinstance(st, ast.If):
                r = self._run(st.body if self.ev(st.test, local) else st.orelse, local)
                if r is not _NORETURN:
                    return r
                continue
            if isinstance(st, ast.For) and not st.orelse:
                it = self.ev(st.iter, local)
                if isinstance(it, dict):
                    it = list(it)
                for v in list(it):
                    self._bind(st.target, v, local)
                    r = self._run(st.body, local)
                    if r is not _NORETURN:
                        return r
                continue
            if isinstance(st, ast.Expr) and isinstance(st.value, ast.Call) and isinstance(st.value.func, ast.Attribute) and isinstance(st.value.func.value, ast.Name) and st.value.func.value.id in local and st.value.func.attr in ("append", "extend", "add", "update") and not st.value.keywords:
                recv = local[st.value.func.value.id]
                getattr(recv, st.value.func.attr)(*[self.ev(a, local) for a in st.value.args])
                continue
            raise Unfoldable(f"statement {type(st).__name__} in helper")
        return _NORETURN

    def ev(self, n: ast.AST, local: Optional[Dict[str, Any]] = None) -> Any:
        local = local or {}
        if isinstance(n, ast.Constant):
            return n.value
        if isinstance(n, ast.Name):
            if n.id in local:
                return local[n.id]
            if n.id in self.functions and n.id not in self.env:
                fdef = self.functions[n.id]
                return lambda *a, **k: self._user_call(fdef, list(a), k)
            if n.id in self.env:
                v = self.env[n.id]
                if isinstance(v, Unfoldable):
                    raise Unfoldable(f"name {n.id} ({v})")
                return v
            raise Unfoldable(f"name {n.id}")
        if isinstance(n, ast.Dict):
            d = {}
            for k, v in zip(n.keys, n.values):
                if k is None:
                    d.update(self.ev(v, local))
                else:
                    d[self.ev(k, local)] = self.ev(v, local)
            return d
        if isinstance(n, (ast.List, ast.Tuple, ast.Set)):
            items: List[Any] = []
            for e in n.elts:
                if isinstance(e, ast.Starred):
                    v_ = self.ev(e.value, local)
                    items.extend(list(v_) if not isinstance(v_, dict) else list(v_.keys()))
                else:
                    items.append(self.ev(e, local))
            return items if isinstance(n, ast.List) else tuple(items) if isinstance(n, ast.Tuple) else set(items)
        if isinstance(n, ast.IfExp):
            return self.ev(n.body, local) if self.ev(n.test, local) else self.ev(n.orelse, local)
        if isinstance(n, ast.BoolOp):
            vals_ = None
            for v_ in n.values:
                vals_ = self.ev(v_, local)
                if isinstance(n.op, ast.And) and not vals_:
                    return vals_
                if isinstance(n.op, ast.Or) and vals_:
                    return vals_
            return vals_
        if isinstance(n, ast.UnaryOp) and isinstance(n.op, ast.Not):
            return not self.ev(n.operand, local)
        if isinstance(n, ast.JoinedStr):
            out = []
            for v in n.values:
                if isinstance(v, ast.Constant):
                    out.append(str(v.value))
                elif isinstance(v, ast.FormattedValue):
                    if v.format_spec is not None or v.conversion not in (-1, 115):
                        raise Unfoldable("format spec")
                    out.append(str(self.ev(v.value, local)))
                else:
                    raise Unfoldable("joinedstr part")
            return "".join(out)
        if isinstance(n, (ast.ListComp, ast.GeneratorExp, ast.SetComp)):
            res = []
            self._comp(n.generators, 0, dict(local), lambda env: res.append(self.ev(n.elt, env)))
            return set(res) if isinstance(n, ast.SetComp) else res
        if isinstance(n, ast.DictComp):
            res = {}

            def add(env):
                res[self.ev(n.key, env)] = self.ev(n.value, env)

            self._comp(n.generators, 0, dict(local), add)
            return res
        if isinstance(n, ast.BinOp) and isinstance(n.op, ast.Add):
            a, b = self.ev(n.left, local), self.ev(n.right, local)
            if type(a) in (str, list, tuple) and type(a) is type(b):
                return a + b
            raise Unfoldable("+ operands")
        if isinstance(n, ast.BinOp) and isinstance(n.op, ast.Mod):
            a, b = self.ev(n.left, local), self.ev(n.right, local)
            if isinstance(a, str):
                return a % b
            raise Unfoldable("% operands")
        if isinstance(n, ast.Compare) and len(n.ops) == 1:
            a, b = self.ev(n.left, local), self.ev(n.comparators[0], local)
            op = n.ops[0]
            if isinstance(op, ast.Eq):
                return a == b
            if isinstance(op, ast.NotEq):
                return a != b
            if isinstance(op, ast.In):
                return a in b
            if isinstance(op, ast.NotIn):
                return a not in b
            raise Unfoldable("compare")
        if isinstance(n, ast.Subscript):
            a = self.ev(n.value, local)
            if isinstance(n.slice, ast.Slice):
                lo = self.ev(n.slice.lower, local) if n.slice.lower else None
                hi = self.ev(n.slice.upper, local) if n.slice.upper else None
                return a[lo:hi]
            return a[self.ev(n.slice, local)]
        if isinstance(n, ast.Call):
            return self._call(n, local)
        if isinstance(n, ast.Attribute):
            base = n.value
            if isinstance(base, ast.Name) and base.id == "re":
                import re as _re

                if n.attr.isupper() and hasattr(_re, n.attr):
                    return int(getattr(_re, n.attr))
                if n.attr == "escape":
                    return _re.escape  # a pure function used as a value (map(re.escape, words))
            if isinstance(base, ast.Name) and base.id == "str" and n.attr in ("upper", "lower", "strip"):
                return getattr(str, n.attr)
            raise Unfoldable(f"attribute {ast.unparse(n)}")
        raise Unfoldable(type(n).__name__)

    def _comp(self, gens, i, env, emit):
        if i == len(gens):
            emit(env)
            return
        g = gens[i]
        it = self.ev(g.iter, env)
        if isinstance(it, dict):
            it = list(it.keys())
        for v in it:
            e2 = dict(env)
            self._bind(g.target, v, e2)
            if all(self.ev(c, e2) for c in g.ifs):
                self._comp(gens, i + 1, e2, emit)

    def _bind(self, t, v, env):
        if isinstance(t, ast.Name):
            env[t.id] = v
        elif isinstance(t, (ast.Tuple, ast.List)):
            v = list(v)
            if len(v) != len(t.elts):
                raise Unfoldable("unpack")
            for tt, vv in zip(t.elts, v):
                self._bind(tt, vv, env)
        else:
            raise Unfoldable("target")

    def _call(self, n: ast.Call, local):
        f = n.func
        if isinstance(f, ast.Name) and f.id in self.functions and f.id not in local:
            if any(k.arg is None for k in n.keywords) or any(isinstance(a, ast.Starred) for a in n.args):
                raise Unfoldable("star arguments")
            return self._user_call(self.functions[f.id], [self.ev(a, local) for a in n.args], {k.arg: self.ev(k.value, local) for k in n.keywords})
        if isinstance(f, ast.Name) and f.id == "dict" and not n.args:
            return {k.arg: self.ev(k.value, local) for k in n.keywords if k.arg}
        if isinstance(f, ast.Attribute) and f.attr == "join" and n.keywords == []:
            pass
        if n.keywords and not (isinstance(f, ast.Attribute) and f.attr == "compile"):
            if isinstance(f, ast.Name) and f.id == "sorted" and all(k.arg == "reverse" for k in n.keywords):
                return sorted(self.ev(n.args[0], local), reverse=bool(self.ev(n.keywords[0].value, local)))
            raise Unfoldable("keywords")
        args = []
        for a in n.args:
            if isinstance(a, ast.Starred):
                args.extend(list(self.ev(a.value, local)))
            else:
                args.append(self.ev(a, local))
        if isinstance(f, ast.Attribute) and isinstance(f.value, ast.Name) and f.value.id == "dict" and f.attr == "fromkeys" and args:
            return dict.fromkeys(list(args[0]) if not isinstance(args[0], dict) else list(args[0].keys()), *(args[1:2]))
        if isinstance(f, ast.Attribute):
            # re.compile
            if isinstance(f.value, ast.Name) and f.value.id == "re" and f.attr == "escape" and len(args) == 1 and isinstance(args[0], str):
                import re as _re

                return _re.escape(args[0])
            if isinstance(f.value, ast.Name) and f.value.id == "re" and f.attr == "compile":
                if not isinstance(args[0], str):
                    raise Unfoldable("re.compile arg")
                return RegexConst(args[0], args[1] if len(args) > 1 else 0)
            if isinstance(f.value, ast.Name) and f.value.id == "itertools" and f.attr == "chain":
                return list(itertools.chain(*[list(a) for a in args]))
            recv = self.ev(f.value, local)
            if isinstance(recv, str):
                if f.attr == "join":
                    return recv.join(list(args[0]))
                if f.attr in ("lower", "upper", "strip", "lstrip", "rstrip", "format", "replace", "split", "startswith", "endswith", "removeprefix", "removesuffix", "capitalize"):
                    return getattr(recv, f.attr)(*args)
            if isinstance(recv, dict) and f.attr in ("keys", "values", "items") and not args:
                return list(getattr(recv, f.attr)())
            if isinstance(recv, dict) and f.attr == "get" and args:
                return recv.get(*args)
            raise Unfoldable(f"method {f.attr}")
        if isinstance(f, ast.Name):
            if f.id == "map" and len(args) == 2:
                fn_ = args[0]
                if callable(fn_):
                    return [fn_(x) for x in (list(args[1].keys()) if isinstance(args[1], dict) else list(args[1]))]
                raise Unfoldable("map over an unknown function")
            if f.id == "chain":
                return list(itertools.chain(*[list(a) if not isinstance(a, dict) else list(a) for a in args]))
            if f.id in ("list", "tuple", "sorted", "set", "frozenset", "len", "str", "int"):
                return {"list": list, "tuple": tuple, "sorted": sorted, "set": set, "frozenset": frozenset, "len": len, "str": str, "int": int}[
                    f.id
                ](*args)
            if f.id == "Grammar":
                if len(args) != 1 or not isinstance(args[0], str):
                    raise Unfoldable("Grammar() argument")
                return GrammarSrc(args[0], n.lineno)
        raise Unfoldable(f"call {ast.unparse(f)}")


def fold_module(ctx: Ctx, rel: str) -> Dict[str, Any]:
    """Fold every module-level simple assignment of `rel`; unfoldable ones map to Unfoldable instances."""
    m = pyfacts(ctx).mod(rel)
    env: Dict[str, Any] = {}
    cf = ConstFolder(env, {f.name: f for f in m.tree.body if isinstance(f, ast.FunctionDef)})
    for st in m.tree.body:
        tgt = None
        val = None
        if isinstance(st, ast.Assign) and len(st.targets) == 1 and isinstance(st.targets[0], ast.Name):
            tgt, val = st.targets[0].id, st.value
        elif isinstance(st, ast.AnnAssign) and isinstance(st.target, ast.Name) and st.value is not None:
            tgt, val = st.target.id, st.value
        if tgt is None:
            continue
        try:
            env[tgt] = cf.ev(val)
        except Unfoldable as e:
            env[tgt] = e
        except Exception as e:  # arithmetic on folded constants failed
            env[tgt] = Unfoldable(f"{type(e).__name__}: {e}")
    return env


# ---------------------------------------------------------------------------
# PEG model


class Peg:
    def __init__(self, ctx: Ctx):
        from parsimonious.grammar import Grammar  # language front-end only

        self.ctx = ctx
        self.env = fold_module(ctx, GRAMMAR_REL)
        g = self.env.get("grammar")
        if not isinstance(g, GrammarSrc):
            raise AnalysisError("M2", "grammar", f"module-level `grammar = Grammar(...)` could not be folded: {g}")
        self.text = g.text
        self.lineno = g.lineno
        try:
            self.grammar = Grammar(self.text)
        except Exception as e:
            raise AnalysisError("M2", "grammar", f"reconstructed grammar text rejected by parsimonious: {e}")
        self.rules: Dict[str, Any] = dict(self.grammar.items())
        self.default = self.grammar.default_rule.name if self.grammar.default_rule is not None else None
        # source line of each rule definition inside grammar.py
        self.rule_line: Dict[str, int] = {}
        for i, ln in enumerate(self.text.split("\n")):
            s = ln.strip()
            if "=" in s:
                nm = s.split("=", 1)[0].strip()
                if nm.isidentifier() and nm not in self.rule_line:
                    self.rule_line[nm] = self.lineno + i
        ctx.units["peg_rules"] = len(self.rules)
        self._memo: Dict[Tuple[str, int], Any] = {}

    # -- shape -----------------------------------------------------------
    @staticmethod
    def kind(e) -> str:
        n = type(e).__name__
        return {
            "Sequence": "seq",
            "OneOf": "oneof",
            "Quantifier": "quant",
            "Regex": "regex",
            "Literal": "literal",
            "Lookahead": "lookahead",
            "LazyReference": "ref",
        }.get(n, n)

    def rule(self, name: str):
        if name not in self.rules:
            raise AnalysisError("M2", name, "PEG rule not found in grammar")
        return self.rules[name]

    def line(self, name: str) -> int:
        return self.rule_line.get(name, self.lineno)

    def effective_name(self, name: str) -> str:
        """`a = b` makes a an alias of b's expression: nodes are named b."""
        e = self.rule(name)
        return e.name or name

    def quant(self, e) -> Tuple[int, float]:
        return (e.min, e.max)

    def describe(self, e) -> str:
        if e.name:
            return e.name
        k = self.kind(e)
        if k == "literal":
            return repr(e.literal)
        if k == "regex":
            return f"~{e.re.pattern!r}"
        if k == "quant":
            mn, mx = self.quant(e)
            suf = "?" if (mn, mx) == (0, 1) else "*" if mn == 0 else "+" if mn == 1 and mx == float("inf") else f"{{{mn},{mx}}}"
            return self.describe(e.members[0]) + suf
        if k == "seq":
            return "(" + " ".join(self.describe(m) for m in e.members) + ")"
        if k == "oneof":
            return "(" + " / ".join(self.describe(m) for m in e.members) + ")"
        if k == "lookahead":
            return ("!" if e.negativity else "&") + self.describe(e.members[0])
        return k

    # -- derived languages --------------------------------------------------
    def literal_set(self, e, depth=0) -> Optional[Set[str]]:
        """The finite set of strings e can match, if e is built from literals only (else None)."""
        if depth > 20:
            return None
        k = self.kind(e)
        if k == "literal":
            return {e.literal}
        if k == "oneof":
            out: Set[str] = set()
            for m in e.members:
                s = self.literal_set(m, depth + 1)
                if s is None:
                    return None
                out |= s
            return out
        if k == "seq" and len(e.members) == 1:
            return self.literal_set(e.members[0], depth + 1)
        return None

    def is_space_star(self, e) -> bool:
        if self.kind(e) != "quant":
            return False
        mn, mx = self.quant(e)
        return mn == 0 and mx == float("inf") and self._is_space(e.members[0])

    def _is_space(self, e) -> bool:
        k = self.kind(e)
        if k == "literal":
            return e.literal == " "
        if k == "regex":
            return e.re.pattern in (" ", r"\ ", "[ ]")
        return False

    def _fix(self, tag: str, fn_local, init: bool) -> Dict[int, bool]:
        """Boolean least/greatest fix-point over all expressions reachable from the rules."""
        exprs = self.all_exprs()
        val = {id(e): init for e in exprs}
        changed = True
        while changed:
            changed = False
            for e in exprs:
                v = fn_local(e, val)
                if v != val[id(e)]:
                    val[id(e)] = v
                    changed = True
        return val

    def all_exprs(self) -> List[Any]:
        if "all" in self._memo:
            return self._memo["all"]
        seen: Dict[int, Any] = {}
        stack = list(self.rules.values())
        while stack:
            e = stack.pop()
            if id(e) in seen:
                continue
            seen[id(e)] = e
            for m in getattr(e, "members", ()) or ():
                stack.append(m)
        self._memo["all"] = list(seen.values())
        return self._memo["all"]

    def nullable(self) -> Dict[int, bool]:
        if "nullable" in self._memo:
            return self._memo["nullable"]
        import re as _re

        def loc(e, val):
            k = self.kind(e)
            if k == "literal":
                return e.literal == ""
            if k == "regex":
                return e.re.match("") is not None
            if k == "lookahead":
                return True
            if k == "quant":
                return e.min == 0 or val[id(e.members[0])]
            if k == "seq":
                return all(val[id(m)] for m in e.members)
            if k == "oneof":
                return any(val[id(m)] for m in e.members)
            return False

        self._memo["nullable"] = self._fix("nullable", loc, False)
        return self._memo["nullable"]

    def blank_only(self) -> Dict[int, bool]:
        """e can only ever match text made of blanks (possibly empty)."""
        if "blank_only" in self._memo:
            return self._memo["blank_only"]

        def loc(e, val):
            k = self.kind(e)
            if k == "literal":
                return e.literal.strip(" ") == ""
            if k == "regex":
                return e.re.pattern in (" ", " *", " +", r"\ ", "[ ]", "[ ]*", "")
            if k == "lookahead":
                return True
            if k == "quant":
                return val[id(e.members[0])]
            if k == "seq":
                return all(val[id(m)] for m in e.members)
            if k == "oneof":
                return all(val[id(m)] for m in e.members)
            return False

        # greatest fix-point (recursive rules made of blanks only stay True)
        self._memo["blank_only"] = self._fix("blank_only", loc, True)
        return self._memo["blank_only"]

    def absorbs_leading_blanks(self) -> Dict[int, bool]:
        """On every way of matching, e starts with a `space*`-like part that takes all blanks
        (so optional blanks in front of e are always accepted)."""
        if "lead" in self._memo:
            return self._memo["lead"]
        nullable = self.nullable()
        blank = self.blank_only()

        def loc(e, val):
            k = self.kind(e)
            if self.is_space_star(e):
                return True
            if k == "regex":
                p = e.re.pattern
                return p.startswith(" *") or p.startswith(r"\s*") or p.startswith("[ ]*")
            if k == "quant":
                return False
            if k == "seq":
                for m in e.members:
                    if val[id(m)]:
                        return True
                    if self.kind(m) == "lookahead":
                        continue
                    if blank[id(m)] and nullable[id(m)]:
                        continue
                    return False
                return False
            if k == "oneof":
                return all(val[id(m)] for m in e.members)
            return False

        self._memo["lead"] = self._fix("lead", loc, False)
        return self._memo["lead"]

    def absorbs_trailing_blanks(self) -> Dict[int, bool]:
        """On every way of matching, e ends with a `space*`-like part (blanks after e are accepted)."""
        if "trail" in self._memo:
            return self._memo["trail"]
        nullable = self.nullable()
        blank = self.blank_only()

        def loc(e, val):
            k = self.kind(e)
            if self.is_space_star(e):
                return True
            if k == "regex":
                p = e.re.pattern
                return p.endswith(" *") or p.endswith(r"\s*")
            if k == "quant":
                # x+ / x* where x ends with blanks: if at least one repetition it ends with blanks;
                # zero repetitions -> nothing matched, the boundary moves to the previous member
                return False
            if k == "seq":
                for m in reversed(e.members):
                    if val[id(m)]:
                        return True
                    if self.kind(m) == "lookahead":
                        continue
                    if blank[id(m)] and nullable[id(m)]:
                        continue
                    return False
                return False
            if k == "oneof":
                return all(val[id(m)] for m in e.members)
            return False

        self._memo["trail"] = self._fix("trail", loc, False)
        return self._memo["trail"]


def peg(ctx: Ctx) -> Peg:
    return ctx.engine("peg", Peg)
