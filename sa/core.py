"""Driver, obligations, findings, evidence and known-findings handling.

Nothing in this package imports or runs ``coco.*``.  Every engine parses the
current working tree of the repository (``REPO``) and decides rules over the
shape of that source.
"""

from __future__ import annotations

import json
import os
import re
import sys
import time
import traceback
from dataclasses import dataclass, field
from pathlib import Path
from typing import Any, Callable, Dict, Iterable, List, Optional, Tuple

VERIF = Path(__file__).resolve().parent.parent
REPO = Path(os.environ.get("SA_REPO", "/repo"))
KNOWN_FILE = VERIF / "known_findings.json"
EVIDENCE_DIR = Path(os.environ.get("SA_EVIDENCE_DIR", str(VERIF / "evidence")))
REPLAY_DIR = EVIDENCE_DIR / "replay"


class AnalysisError(Exception):
    """The analysis itself cannot stand (vanished anchor, unmodelled syntax
    under a verdict).  Exit status 2, never a VIOLATION."""

    def __init__(self, rule: str, construct: str, reason: str):
        super().__init__(f"{rule} {construct}: {reason}")
        self.rule = rule
        self.construct = construct
        self.reason = reason


@dataclass
class Obligation:
    rule: str
    construct: str
    ok: bool
    message: str = ""
    file: str = ""
    line: int = 0
    facts: Any = None
    props: Optional[List[str]] = None  # None = all properties of the rule
    witness: str = ""
    info: bool = False  # informational only (never a violation)
    signature: Optional[str] = None  # what exactly fails (name-free); a parked finding with a signature covers only that

    @property
    def key(self) -> str:
        return f"{self.rule}:{self.construct}"

    def to_json(self):
        d = {
            "rule": self.rule,
            "construct": self.construct,
            "verdict": "info" if self.info else ("ok" if self.ok else "finding"),
        }
        if self.message:
            d["message"] = self.message
        if self.file:
            d["where"] = f"{self.file}:{self.line}"
        if self.facts is not None:
            d["facts"] = self.facts
        if self.witness:
            d["witness"] = self.witness
        if self.signature and not self.ok:
            d["signature"] = self.signature
        return d


@dataclass
class RuleInfo:
    rid: str
    title: str
    props: List[str]
    fn: Callable
    floor: int = 1
    soft: bool = False  # idiom rule: SKIPPED instead of ANALYSIS-ERROR
    default_props: Optional[List[str]] = None  # attribution of obligations that name no property themselves


RULES: Dict[str, RuleInfo] = {}


def rule(rid: str, title: str, props: Iterable[str], floor: int = 1, soft: bool = False, default_props: Optional[Iterable[str]] = None):
    def deco(fn):
        RULES[rid] = RuleInfo(rid, title, list(props), fn, floor, soft, list(default_props) if default_props else None)
        return fn

    return deco


class IdiomNotFound(Exception):
    """Raised by a soft (idiom) rule when the implementation idiom it knows is
    not recognisable: reported as SKIPPED, never as an alarm."""


class Ctx:
    """Shared analysis context: lazily built engines + obligation log."""

    def __init__(self, repo: Path = REPO, tier: str = "quick"):
        self.repo = Path(repo)
        self.tier = tier
        self._cache: Dict[str, Any] = {}
        self.obligations: Dict[str, List[Obligation]] = {}
        self.skipped: Dict[str, str] = {}
        self.undecided_list: List[Tuple[str, str, str]] = []
        self.errors: List[AnalysisError] = []
        self._current: Optional[RuleInfo] = None
        self.units: Dict[str, Any] = {}

    # -- engines ---------------------------------------------------------
    def engine(self, name: str, build: Callable[["Ctx"], Any]):
        if name not in self._cache:
            self._cache[name] = build(self)
        return self._cache[name]

    def path(self, rel: str) -> Path:
        p = self.repo / rel
        if not p.exists():
            raise AnalysisError("ANCHOR", rel, "file not found in repository")
        return p

    # -- obligations -----------------------------------------------------
    def ob(
        self,
        construct: str,
        ok: bool,
        message: str = "",
        *,
        file: str = "",
        line: int = 0,
        facts: Any = None,
        props: Optional[List[str]] = None,
        witness: str = "",
        rule: Optional[str] = None,
        info: bool = False,
        signature: Optional[str] = None,
    ) -> Obligation:
        rid = rule or self._current.rid
        o = Obligation(rid, construct, bool(ok), message, file, line, facts, props, witness, info, signature)
        self.obligations.setdefault(rid, []).append(o)
        return o

    def info(self, construct: str, message: str, **kw):
        return self.ob(construct, True, message, info=True, **kw)

    def undecided(self, construct: str, reason: str, **kw):
        """A sub-check whose idiom is not present in the current source: recorded, reported as UNDECIDED, never an alarm.
        (A frozen source fragment must not be demanded: code that does the same thing differently is not a violation.)"""
        rid = kw.pop("rule", None) or self._current.rid
        self.undecided_list.append((rid, construct, reason))
        return self.ob(construct, True, "not decided: " + reason, info=True, rule=rid, **kw)

    def idiom(self, construct: str, shape: Optional[bool], ok: bool, message: str = "", **kw):
        """shape None/False: the idiom the check reads is not in the source -> undecided; else an ordinary obligation."""
        if not shape:
            return self.undecided(construct, "the code no longer has the shape this sub-check reads", **{k: v for k, v in kw.items() if k in ("file", "line", "props", "rule")})
        return self.ob(construct, ok, message, **kw)

    def need(self, cond: bool, construct: str, reason: str):
        if not cond:
            raise AnalysisError(self._current.rid if self._current else "?", construct, reason)

    # -- running ---------------------------------------------------------
    def run_rule(self, rid: str):
        if rid in self.obligations or rid in self.skipped:
            return
        info = RULES[rid]
        self._current = info
        self.obligations[rid] = []
        try:
            info.fn(self)
            n = len([o for o in self.obligations[rid] if not o.info]) + len([u for u in self.undecided_list if u[0] == rid])
            if n < info.floor:
                if info.soft:
                    self.skipped[rid] = f"idiom not found ({n} < {info.floor} instances)"
                else:
                    raise AnalysisError(
                        rid,
                        "floor",
                        f"only {n} rule instances found, hand-confirmed floor is {info.floor}",
                    )
        except IdiomNotFound as e:
            if info.soft:
                self.skipped[rid] = f"idiom not found: {e}"
                self.obligations[rid] = [o for o in self.obligations[rid] if o.ok]
            else:
                self.errors.append(AnalysisError(rid, "idiom", str(e)))
        except AnalysisError as e:
            # an error raised inside a shared engine (library parser, PEG model, pipeline ...) carries the engine's tag:
            # it is charged to the rule that needed the engine - a rule that could not run must never count as silent
            if e.rule != rid:
                e = AnalysisError(rid, e.construct if e.rule in ("?", "ANCHOR") else f"{e.rule}:{e.construct}", e.reason)
            self.errors.append(e)
        except Exception as e:  # internal error of the checker: exit 2
            tb = traceback.format_exc(limit=6)
            self.errors.append(AnalysisError(rid, "internal", f"{type(e).__name__}: {e}\n{tb}"))
        finally:
            self._current = None


# ---------------------------------------------------------------------------
# known findings


def load_known() -> Dict[str, dict]:
    if not KNOWN_FILE.exists():
        return {}
    data = json.loads(KNOWN_FILE.read_text())
    return {f["key"]: f for f in data.get("findings", [])}


def rules_for(prop: str) -> List[str]:
    return [rid for rid, r in RULES.items() if prop in r.props]


def evaluate_property(ctx: Ctx, prop: str):
    """Run every rule that serves `prop`; returns (rule ids, obligations, errors, new findings, known findings)."""
    rids = rules_for(prop)
    for rid in rids:
        ctx.run_rule(rid)
    known = load_known()
    obligations: List[Obligation] = []
    for rid in rids:
        for o in ctx.obligations.get(rid, []):
            eff = o.props if o.props is not None else (RULES[rid].default_props or RULES[rid].props)
            if prop in eff:
                obligations.append(o)
    errors = [e for e in ctx.errors if e.rule in rids]
    findings = [o for o in obligations if not o.ok and not o.info]
    new = []
    known_hit = []
    for f in findings:
        k = known.get(f.key)
        if k is not None and prop in k.get("properties", []) and (k.get("signature") is None or k.get("signature") == f.signature):
            known_hit.append(f)
        else:
            if k is not None and k.get("signature") is not None and k.get("signature") != f.signature:
                f.message += f" [the parked finding for this construct is `{k.get('signature')}`; what fails now is `{f.signature}`]"
            new.append(f)
    return rids, obligations, errors, new, known_hit


def check_property(ctx: Ctx, prop: str, meta: dict, seed: int = 0, out=sys.stdout, extra: Optional[dict] = None) -> int:
    """Run every rule that serves `prop`, print report lines, write evidence,
    return the exit status."""
    t0 = time.time()
    rids, obligations, errors, new, known_hit = evaluate_property(ctx, prop)
    known = load_known()
    findings = [o for o in obligations if not o.ok and not o.info]
    fired = {f.key for f in findings}
    stale = [
        k
        for k, v in known.items()
        if prop in v.get("properties", []) and k not in fired and k.split(":")[0] in rids
        and k.split(":")[0] not in ctx.skipped
        and not any(e.rule == k.split(":")[0] for e in errors)
    ]

    status = 0
    REPLAY_DIR.mkdir(parents=True, exist_ok=True)
    for f in known_hit:
        print(
            f"KNOWN-FINDING: property={prop} {f.rule} {f.construct}: {f.message}"
            + (f" [witness: {f.witness}]" if f.witness else ""),
            file=out,
        )
    for k in stale:
        print(f"STALE-FINDING: property={prop} {k} (listed in known_findings.json, no longer reported)", file=out)
    for rid, why in ctx.skipped.items():
        if rid in rids:
            print(f"SKIPPED {rid}: {why}", file=out)
    for rid, construct, why in ctx.undecided_list:
        if rid in rids:
            print(f"UNDECIDED {rid} {construct}: {why}", file=out)
    for f in new:
        status = 1
        safe = re.sub(r"[^A-Za-z0-9_.-]+", "_", f.key)
        rp = REPLAY_DIR / f"{prop}.{safe}.json"
        rp.write_text(json.dumps({"property": prop, **f.to_json()}, indent=1, default=str))
        print(f"{f.file}:{f.line}: {f.rule} {f.construct}: {f.message}" + (f" [witness: {f.witness}]" if f.witness else ""), file=out)
        print(f"VIOLATION property={prop} replay={rp}", file=out)
    for e in errors:
        status = 2 if status != 1 else status
        print(f"ANALYSIS-ERROR {e.rule} {e.construct}: {e.reason}", file=out)
    if errors and status == 1:
        # a violation was established independently of the failed rules; keep 1
        pass

    # evidence
    real = [o for o in obligations if not o.info]
    distinct = {(o.rule, o.construct) for o in real}
    samples = []
    per_rule: Dict[str, int] = {}
    for o in obligations:
        c = per_rule.get(o.rule, 0)
        if c < 3 or not o.ok:
            samples.append(o.to_json())
        per_rule[o.rule] = c + 1
    ev = {
        "property_id": prop,
        "tier": ctx.tier,
        "seed": seed,
        "level": "other",
        "coverage": {
            "explanation": meta.get("explanation", "")
            + " Rules applied: "
            + "; ".join(f"{rid} {RULES[rid].title}" for rid in rids)
            + ".",
            "evaluations": len(real),
            "distinct_nontrivial": len(distinct),
            "rule": "one evaluation per rule instance found in the current source (class/field, grammar member, call site, "
            "procedure, loop nest ...); distinct = distinct (rule, construct) pairs; every instance needs at least one "
            "engine fact (resolved method, grammar member, parsed procedure), none is a trivial leaf",
            "obligations": len(real),
            "discharged": len([o for o in real if o.ok]),
            "exhaustive": not errors and not any(r in ctx.skipped for r in rids) and not any(r in rids for r, _, _ in ctx.undecided_list),
            "samples": samples[:80],
            "instances_per_rule": {rid: len([o for o in ctx.obligations.get(rid, []) if not o.info]) for rid in rids},
            "known_findings": sorted(f.key for f in known_hit),
            "new_findings": sorted(f.key for f in new),
            "skipped_rules": {r: w for r, w in ctx.skipped.items() if r in rids},
            "undecided": [f"{r}:{c}: {w}" for r, c, w in ctx.undecided_list if r in rids],
            "analysis_errors": [str(e) for e in errors],
            "units_analysed": ctx.units,
            "checker_cmd": f"/venv/bin/python -m sa.check {prop} --tier {ctx.tier}",
            "trusted_base": meta.get("trusted", []),
            **({"self_validation": extra} if extra else {}),
        },
        "assumptions": meta.get("assumptions", []),
        "wall_s": round(time.time() - t0, 3),
        "violations": len(new),
    }
    EVIDENCE_DIR.mkdir(parents=True, exist_ok=True)
    (EVIDENCE_DIR / f"{prop}.json").write_text(json.dumps(ev, indent=1, default=str) + "\n")
    n_ok = len([o for o in real if o.ok])
    print(
        f"{prop}: {len(real)} rule instances over {len(rids)} rules, {n_ok} discharged, "
        f"{len(known_hit)} known findings, {len(new)} new violations, {len(errors)} analysis errors "
        f"({ev['wall_s']}s)",
        file=out,
    )
    return status
