"""Pipeline / command-line / pass-effect rules P1..P8, E6."""

from __future__ import annotations

import ast
import re
from typing import Dict, List, Optional, Set, Tuple

from .core import AnalysisError, Ctx, IdiomNotFound, rule
from .pipeline import CLI_REL, COMPILER_REL, VISITORS_REL, option_slice, pipeline
from .pyast import ClassInfo, ast_contains, call_name, is_self_attr, names_loaded, pyfacts, resolve_alias, unparse, walk_no_nested

BASE_VISITOR = "BasicConstructVisitor"


def _visitor_classes(py) -> List[str]:
    return [c for c in py.classes if py.is_subclass(c, BASE_VISITOR) and c != BASE_VISITOR]


def _own_methods(py, cls: str) -> Dict[str, ast.FunctionDef]:
    out: Dict[str, ast.FunctionDef] = {}
    for ci in reversed(py.mro(cls)):
        if ci.name == BASE_VISITOR:
            continue
        out.update(ci.methods)
        out.update(ci.properties)
    return out


def _constructs(fn: ast.AST, py, base: str) -> Set[str]:
    return {
        n.func.id
        for n in ast.walk(fn)
        if isinstance(n, ast.Call) and isinstance(n.func, ast.Name) and n.func.id in py.classes and py.is_subclass(n.func.id, base)
    }


def _roles(py) -> Dict[str, Set[str]]:
    roles: Dict[str, Set[str]] = {
        k: set()
        for k in ("creator", "temp_creator", "hoister", "var_collector", "dim_configurer", "dim_producer", "ref_collector", "label_filter", "line_checker", "data_detector", "read_patcher")
    }
    for cls in _visitor_classes(py):
        ms = _own_methods(py, cls)
        ci = py.cls(cls)
        for name, fn in ms.items():
            is_prop = any(name in c.properties for c in py.mro(cls))
            if name.startswith("visit_") and not is_prop:
                if _constructs(fn, py, "AbstractBasicConstruct"):
                    roles["creator"].add(cls)
                for n in ast.walk(fn):
                    if isinstance(n, ast.Call) and isinstance(n.func, ast.Attribute):
                        if n.func.attr == "transform_function_to_call":
                            roles["hoister"].add(cls)
                        if n.func.attr == "get_new_temp":
                            roles["temp_creator"].add(cls)
                        if n.func.attr == "set_is_referenced":
                            roles["label_filter"].add(cls)
                    if isinstance(n, ast.Raise) and n.exc is not None and "LineNumberTooLarge" in unparse(n.exc):
                        roles["line_checker"].add(cls)
                    if isinstance(n, (ast.Assign, ast.AugAssign)):
                        tg = n.targets if isinstance(n, ast.Assign) else [n.target]
                        for t in tg:
                            if isinstance(t, ast.Attribute) and t.attr in ("default_str_storage", "strname_to_size") and not is_self_attr(t):
                                roles["dim_configurer"].add(cls)
            if is_prop and "BasicDimStatement" in _constructs(fn, py, "AbstractBasicConstruct"):
                roles["dim_producer"].add(cls + "." + name)
        if "visit_var" in ms:
            roles["var_collector"].add(cls)
        if "visit_go_statement" in ms:
            roles["ref_collector"].add(cls)
        if "visit_data_statement" in ms and "visit_read_statement" not in ms:
            roles["data_detector"].add(cls)
        if "visit_read_statement" in ms:
            roles["read_patcher"].add(cls)
    return roles


@rule("P1", "PASS-ORDER: producer passes run before the passes that consume what they produce", ["C05", "C10", "C03", "C06"], floor=10)
def p1(ctx: Ctx):
    P = pipeline(ctx)
    py = P.py
    roles = _roles(py)
    for k in ("hoister", "ref_collector", "label_filter", "line_checker", "dim_configurer", "var_collector"):
        ctx.need(roles[k], k, f"no visitor class with role `{k}` found in visitors.py")
    idx: Dict[str, int] = {}
    line: Dict[str, int] = {}
    for p in P.passes:
        idx.setdefault(p.cls, p.index)
        line.setdefault(p.cls, p.line)

    def before(a: str, ia: int, b: str, ib: int, why: str, ln: int, props=None):
        ok = ia < ib
        ctx.ob(f"{a}<{b}", ok, "" if ok else f"`{a}` runs after `{b}` in convert(): {why}", file=COMPILER_REL, line=ln, facts={"index": [ia, ib]}, props=props)

    hoisters = [c for c in roles["hoister"] if c in idx]
    ctx.need(hoisters, "hoister", "the hoisting pass is not run by convert()")
    h = hoisters[0]
    for c in sorted(roles["creator"]):
        if c in idx and c != h:
            before(c, idx[c], h, idx[h], "constructs it creates are never seen by the hoisting pass, their procedure calls are not emitted", line[c], ["C05", "C03"])
    for c in sorted(roles["var_collector"]):
        if c in idx:
            before(h, idx[h], c, idx[c], "temporaries created by hoisting are not declared / initialised", line[c], ["C05", "C10", "C03"])
    # ... and so do the passes that create constructs with variables of their own (the READ patcher's string temporaries,
    # the array elements that only its filter call shows)
    for cr in sorted(roles["creator"]):
        if cr in idx and cr != h and cr in roles.get("temp_creator", set()):
            for c in sorted(roles["var_collector"]):
                if c in idx:
                    before(cr, idx[cr], c, idx[c], "the temporaries / array elements it introduces are created after the declaring passes have looked at the program: they get no DIM, strings no size", line[cr], ["C10", "C03"])
    # every insertion of lines that contain DIM statements precedes the pass that configures DIM statements
    for ins in P.insertions:
        src = unparse(ins.arg)
        for dp in sorted(roles["dim_producer"]):
            cls, prop = dp.split(".")
            m = re.fullmatch(r"(\w+)\." + re.escape(prop), src)
            if not m:
                continue
            # the local must be an instance of cls
            owner = next((p for p in P.passes if p.var == m.group(1) and p.cls == cls), None)
            if owner is None:
                continue
            for dc in sorted(roles["dim_configurer"]):
                if dc in idx:
                    before(
                        f"{cls}.{prop}",
                        ins.index,
                        dc,
                        idx[dc],
                        "DIM statements created for undeclared arrays never receive the requested string size (an implicit string array keeps BASIC09's 32 bytes)",
                        ins.line,
                        ["C10", "C03"],
                    )
    rc = [c for c in roles["ref_collector"] if c in idx]
    ctx.need(rc, "ref_collector", "the line-reference collector is not run by convert()")
    for c in sorted(roles["label_filter"] | roles["line_checker"]):
        if c in idx:
            before(rc[0], idx[rc[0]], c, idx[c], "labels are filtered / targets are checked against an empty reference set", line[c], ["C06"])
    # detector before the READ patcher, patcher conditional on the detector's flag
    for d in sorted(roles["data_detector"]):
        for r in sorted(roles["read_patcher"]):
            if d in idx and r in idx:
                before(d, idx[d], r, idx[r], "empty DATA items are looked for after the READ statements were rewritten", line[r], ["C03"])
    # refusals and all passes precede emission
    ctx.need(P.emit_index is not None, "emit", "`<prog>.basic09_text(` not found in convert()")
    for ln, cls, conds, i in P.raises:
        before(f"raise {cls}@{'&'.join(conds) or 'always'}", i, "emit", P.emit_index, "a program that must be refused is emitted first", ln, ["C06"])
    for p in P.passes:
        if p.index > P.emit_index:
            ctx.ob(f"{p.cls}<emit", False, f"pass `{p.cls}` runs after the program text was produced", file=COMPILER_REL, line=p.line, props=["C05"])


@rule("P10", "EXCLUSION-SETS: the string allocator is told about every DIMmed name, the implicit-array pass about the DIMmed arrays", ["C10", "C11", "C03", "C02"], floor=2, default_props=["C10"])
def p10(ctx: Ctx):
    P = pipeline(ctx)
    py = P.py

    def source_of(cls: str, kw: str):
        p_ = P.first(cls)
        ctx.need(p_ is not None, cls, "pass not run by convert()")
        k = next((k for k in p_.ctor.keywords if k.arg == kw), None)
        ctx.need(k is not None, f"{cls}({kw}=)", "keyword not passed")
        m = re.fullmatch(r"(\w+)\.(\w+)", unparse(k.value))
        ctx.need(m is not None, f"{cls}({kw}=)", f"value `{unparse(k.value)}` is not `<pass>.<set>`")
        src = next((q for q in P.passes if q.var == m.group(1)), None)
        if src is None:
            ctx.ob(f"{cls}<-{m.group(1)}", False, f"`{cls}` reads `{unparse(k.value)}` but `{m.group(1)}` is never run over the program: the exclusion set is always empty", file=COMPILER_REL, line=p_.ctor.lineno)
            return p_, None, m.group(2)
        return p_, src, m.group(2)

    def collects(cls: str) -> Optional[str]:
        """'all' / 'arrays' / 'scalars' / 'filtered': which DIMmed names the collector class records; None when the
        way it walks `dim_vars` is not recognised (comprehension with an optional isinstance filter, or a loop whose
        body records under isinstance / constant tests)."""
        fn = py.cls(cls).methods.get("visit_statement")
        if fn is None:
            return None
        for n in ast.walk(fn):
            if isinstance(n, ast.ListComp) and "dim_vars" in unparse(n.generators[0].iter):
                g = n.generators[0]
                if not g.ifs:
                    return "all"
                t = unparse(g.ifs[0])
                if "BasicArrayRef" in t and "not" not in t:
                    return "arrays"
                if "BasicVar" in t and "not" not in t:
                    return "scalars"
                return "filtered"
        for n in ast.walk(fn):
            if isinstance(n, ast.For) and "dim_vars" in unparse(n.iter) and isinstance(n.target, ast.Name):
                v_ = n.target.id
                rec = {"arrays": False, "scalars": False}

                def records(stmts) -> bool:
                    return any(isinstance(c, ast.Call) and isinstance(c.func, ast.Attribute) and c.func.attr in ("append", "add") for s_ in stmts for c in ast.walk(s_))

                def walk_body(stmts, could):
                    """could: kinds of entry that can reach these statements."""
                    for s_ in stmts:
                        if isinstance(s_, ast.If):
                            t_ = s_.test
                            if isinstance(t_, ast.Constant):
                                walk_body(s_.body if t_.value else s_.orelse, could)
                                continue
                            if isinstance(t_, ast.Call) and getattr(t_.func, "id", "") == "isinstance" and len(t_.args) == 2 and unparse(t_.args[0]) == v_ and isinstance(t_.args[1], ast.Name):
                                k_ = {"BasicArrayRef": "arrays", "BasicVar": "scalars"}.get(t_.args[1].id)
                                if k_ is not None:
                                    walk_body(s_.body, could & {k_})
                                    walk_body(s_.orelse, could - {k_})
                                    continue
                            return "?"
                        elif records([s_]):
                            for k_ in could:
                                rec[k_] = True
                    return None

                if walk_body(n.body, {"arrays", "scalars"}) == "?":
                    return "filtered"
                if rec["arrays"] and rec["scalars"]:
                    return "all"
                if rec["arrays"]:
                    return "arrays"
                if rec["scalars"]:
                    return "scalars"
        return None

    al, src, attr = source_of("StrVarAllocatorVisitor", "dimmed_var_names")
    kind = collects(src.cls) if src is not None else "nothing"
    ok = kind == "all"
    ctx.idiom(
        "StrVarAllocatorVisitor<-all-dimmed-names",
        kind is not None,
        ok,
        "" if ok else f"StrVarAllocatorVisitor excludes the names collected by `{src.cls}`, which records only {kind}: a string scalar that the source DIMs is declared a second time by the allocator (with the default size, overriding a configured one)",
        file=COMPILER_REL,
        line=al.ctor.lineno,
        witness="" if ok else "10 DIM A$ / 20 A$=\"X\" with -s 80",
        # the second declaration appears only under a non-default string size: the size option adds a line it does not document
        props=["C10", "C11"],
    )
    # what counts as DIMmed comes from DIM statements only: every store into a visitor's dimmed-name set happens under
    # `isinstance(<statement>, BasicDimStatement)` (or in the constructor, from the set another pass collected)
    for ci_ in [c for m_ in py.modules.values() for c in m_.classes.values() if m_.rel.endswith("visitors.py")]:
        for mname, mf in ci_.methods.items():
            if mname == "__init__":
                continue
            parents_ = {id(c): p_ for p_ in ast.walk(mf) for c in ast.iter_child_nodes(p_)}
            for n in ast.walk(mf):
                tgt = None
                if isinstance(n, ast.Call) and isinstance(n.func, ast.Attribute) and n.func.attr in ("add", "update", "append", "extend") and is_self_attr(n.func.value) and "dimmed" in n.func.value.attr:
                    tgt = n.func.value.attr
                elif isinstance(n, (ast.Assign, ast.AugAssign)):
                    for t_ in (n.targets if isinstance(n, ast.Assign) else [n.target]):
                        if is_self_attr(t_) and "dimmed" in t_.attr:
                            tgt = t_.attr
                if tgt is None:
                    continue
                g_, under_dim = parents_.get(id(n)), False
                while g_ is not None:
                    if isinstance(g_, ast.If) and "BasicDimStatement" in unparse(g_.test) and "isinstance" in unparse(g_.test) and any(x is n for b_ in g_.body for x in ast.walk(b_)):
                        under_dim = True
                    g_ = parents_.get(id(g_))
                # ... or what is stored is computed from a DIM statement's own variable list (`<stmt>.dim_vars`, which only
                # BasicDimStatement has) - the guard may then sit in a base class that dispatches to this method
                val_ = n.args[0] if isinstance(n, ast.Call) and n.args else getattr(n, "value", None)
                if not under_dim and val_ is not None:
                    srcs_ = [val_] + [resolve_alias(mf, x_) for x_ in ast.walk(val_) if isinstance(x_, ast.Name)]
                    if any(isinstance(a_, ast.Attribute) and a_.attr == "dim_vars" for s_ in srcs_ for a_ in ast.walk(s_)):
                        under_dim = True
                ctx.ob(
                    f"{ci_.name}.{mname}:{tgt}:from-DIM-only",
                    under_dim,
                    "" if under_dim else f"`{ci_.name}.{mname}` puts names into `{tgt}` that no DIM statement declares (`{unparse(n)[:70]}`): they are skipped by the pre-initialiser / the declaring passes as if the source had DIMmed them - a variable read before its first assignment has no initial value, a string no size",
                    file=VISITORS_REL,
                    line=n.lineno,
                    witness="" if under_dim else "10 IF I>0 THEN END / 20 FOR I=1 TO 3:NEXT / 30 GOTO 10",
                    props=["C03", "C02", "C10"],
                )
    dl, src2, attr2 = source_of("DeclareImplicitArraysVisitor", "dimmed_var_names")
    kind2 = collects(src2.cls) if src2 is not None else "nothing"
    ok2 = kind2 in ("all", "arrays")
    ctx.idiom("DeclareImplicitArraysVisitor<-dimmed-arrays", kind2 is not None, ok2, "" if ok2 else f"DeclareImplicitArraysVisitor excludes the names collected by `{src2.cls}` ({kind2}): arrays the source DIMs are declared again with bound 10", file=COMPILER_REL, line=dl.ctor.lineno)
    # the pre-initialiser skips every DIMmed name (DIM itself creates and clears them)
    vk = collects("VarInitializerVisitor")
    vi = py.cls("VarInitializerVisitor").properties.get("assignment_lines")
    diff_ok = vi is not None and (ast_contains(vi, "self._vars - self._dimmed_var_names") or ast_contains(vi, "self._vars.difference(self._dimmed_var_names)"))
    okv = vk == "all" and diff_ok
    ctx.idiom("VarInitializerVisitor:skips-dimmed-names", vk is not None, okv, "" if okv else f"VarInitializerVisitor records {vk} of the DIMmed names / no longer subtracts them: a variable the source DIMs is also assigned in the prologue, i.e. used before its DIM", file=VISITORS_REL, line=py.cls("VarInitializerVisitor").node.lineno)
    # the source pass has run before its set is read
    for user, s_ in ((al, src), (dl, src2)):
        if s_ is None:
            continue
        okb = s_.index < user.index
        ctx.ob(f"{s_.cls}<{user.cls}", okb, "" if okb else f"`{s_.cls}` runs after `{user.cls}` reads its set", file=COMPILER_REL, line=user.line)


# ---------------------------------------------------------------------------
# P2 OPTION-INFLUENCE

ELEMENT_CTORS = {"BasicLine", "Basic09CodeStatement", "BasicRunCall", "BasicExpressionList", "BasicVar", "BasicLiteral"}

P2_ALLOWED = {
    # option: (data sinks {callee}, control sinks {callee / =name / const})
    "filter_unused_linenum": (set(), {"LineNumberFilterVisitor", "LineZeroFilterVisitor"}),
    "initialize_vars": ({"DeclareImplicitArraysVisitor", "SetInitializeVisitor"}, {"VarInitializerVisitor", "visit", "extend_prefix_lines", "=var_initializer"}),
    "default_width32": ({"BasicLiteral"}, {"const:0", "const:1", "const:1.0", "const:0.0"}),
    "default_str_storage": ({"SetDimStringStorageVisitor", "StrVarAllocatorVisitor", "ProcedureBank"}, set()),
    "compiler_configs": ({"SetDimStringStorageVisitor", "CompilerConfigs"}, {"CompilerConfigs"}),
    "add_standard_prefix": (set(), ELEMENT_CTORS | {"insert_lines_at_beginning", "BasicHbuffPresenceVisitor", "visit", "=prefix_lines", "=hbuff_visitor"}),
    "add_suffix": (set(), {"append_lines", "generate"}),  # building the dispatcher lines only when they are appended is the same influence
    "output_dependencies": (
        {"match", "fullmatch", "search", "set_procname", "get_procedure_and_dependencies", "add_from_str"},
        {"=procname", "=program", "=procedure_bank", "match", "fullmatch", "search", "const:procname", "const:'program'", "ProcedureBank", "add_from_resource", "add_from_str", "get_procedure_and_dependencies"},
    ),
}
P2_ALLOWED["skip_procedure_headers"] = P2_ALLOWED["output_dependencies"]
P2_ALLOWED["procname"] = P2_ALLOWED["output_dependencies"]

P2_REQUIRED = {
    "filter_unused_linenum": {"LineNumberFilterVisitor", "LineZeroFilterVisitor"},
    "initialize_vars": {"DeclareImplicitArraysVisitor", "SetInitializeVisitor", "VarInitializerVisitor"},
    "default_width32": {"BasicLiteral"},
    "default_str_storage": {"SetDimStringStorageVisitor", "StrVarAllocatorVisitor", "ProcedureBank"},
    "compiler_configs": {"SetDimStringStorageVisitor"},
    "output_dependencies": {"ProcedureBank", "set_procname"},
    "procname": {"set_procname", "get_procedure_and_dependencies"},
    "add_suffix": {"append_lines"},
}


@rule("P1b", "FILTER-SCOPE: the label filter never sees a line the tool generated: either the program's visit() walks the user's lines only, or the filter pass has run before the dispatcher lines are appended", ["C06", "C11"], floor=1)
def p1b(ctx: Ctx):
    P = pipeline(ctx)
    py = P.py
    pv = py.resolve_method("BasicProg", "visit")
    ap = py.resolve_method("BasicProg", "append_lines")
    ctx.need(pv is not None and ap is not None, "BasicProg", "visit() / append_lines() not found")
    # where append_lines keeps the generated lines
    kept = {x.attr for c in ast.walk(ap[1]) if isinstance(c, (ast.Call, ast.AugAssign, ast.Assign)) for x in ast.walk(c) if isinstance(x, ast.Attribute) and isinstance(x.value, ast.Name) and x.value.id == "self"}
    walked = {x.attr for lp in ast.walk(pv[1]) if isinstance(lp, (ast.For, ast.ListComp, ast.GeneratorExp)) for x in ast.walk(lp.iter if isinstance(lp, ast.For) else lp.generators[0].iter) if isinstance(x, ast.Attribute) and isinstance(x.value, ast.Name) and x.value.id == "self"}
    visits_generated = bool(kept & walked)
    filters = [p_ for p_ in P.passes if p_.cls in ("LineNumberFilterVisitor", "LineZeroFilterVisitor")]
    appends = [i_ for i_ in P.insertions if i_.method == "append_lines"]
    if not filters or not appends:
        ctx.undecided("convert:filter-before-suffix", "filter pass / append_lines not found in convert()", file=COMPILER_REL, line=P.fn.lineno)
        return
    late = min(f_.index for f_ in filters) > min(a_.index for a_ in appends)
    ok = not (visits_generated and late)
    ctx.ob("convert:filter-before-suffix", ok, "" if ok else f"BasicProg.visit walks {sorted(kept & walked)} (where append_lines keeps the generated dispatcher) and the label filter runs after append_lines: the dispatcher line is `unreferenced` by the user's program, so with -l its label is removed while `ON ERROR GOTO` still names it", file=COMPILER_REL, line=filters[0].line, facts={"visit_walks": sorted(walked), "generated_kept_in": sorted(kept), "filter_after_append": late})


@rule("P10b", "ACCUMULATE: a pass that collects facts over the whole program extends its collection in every callback; it never rebinds the collection to what the current statement alone contributes", ["C10", "C09", "C03"], floor=3)
def p10b(ctx: Ctx):
    py = pyfacts(ctx)
    n = 0
    for cn, ci in sorted(py.mod(VISITORS_REL).classes.items()):
        init = ci.methods.get("__init__")
        if init is None:
            continue
        colls = {t.attr for a in ast.walk(init) if isinstance(a, ast.Assign) for t in a.targets if is_self_attr(t) and (isinstance(a.value, (ast.Set, ast.List, ast.Dict)) or (isinstance(a.value, ast.Call) and call_name(a.value) in ("set", "list", "dict", "defaultdict", "OrderedDict")))}
        for attr in sorted(colls):
            n += 1
            bad = []
            for mn, mf in ci.methods.items():
                if not mn.startswith("visit_"):
                    continue
                for a in ast.walk(mf):
                    if isinstance(a, ast.Assign) and any(is_self_attr(t) and t.attr == attr for t in a.targets):
                        keeps = any(is_self_attr(x) and x.attr == attr for x in ast.walk(a.value))
                        if not keeps:
                            bad.append((mn, a.lineno, unparse(a)[:70]))
            ok = not bad
            ctx.ob(f"{cn}.{attr}", ok, "" if ok else f"`{cn}.{bad[0][0]}` rebinds `self.{attr}` (`{bad[0][2]}`, line {bad[0][1]}): what earlier statements contributed is forgotten, only the last one counts - e.g. arrays DIMmed by an earlier DIM statement are declared a second time", file=VISITORS_REL, line=bad[0][1] if bad else init.lineno)
    ctx.need(n >= 3, "visitors", f"only {n} collecting passes found")


@rule("P2", "OPTION-INFLUENCE: each option of convert() reaches exactly the sinks documented for it", ["C11", "C13", "C04"], floor=25, default_props=["C11"])
def p2(ctx: Ctx):
    P = pipeline(ctx)
    opts = [a.arg for a in P.fn.args.kwonlyargs] + [a.arg for a in P.fn.args.args[1:]]
    for o in P2_REQUIRED:
        ctx.need(o in opts, o, "documented option is no longer a parameter of convert()")
    for o in opts:
        sl = option_slice(P.fn, o, set(P.py.classes))
        allowed = P2_ALLOWED.get(o)
        if allowed is None:
            ctx.info(o, "option without documented sink table; its uses: " + str(sl["data"]) + str(sl["control"]), file=COMPILER_REL, line=P.fn.lineno)
            continue
        seen: Set[str] = set()
        for callee, kw, ln in sl["data"]:
            seen.add(callee)
            ok = callee in allowed[0]
            ctx.ob(
                f"{o}->data:{callee}",
                ok,
                "" if ok else f"option `{o}` is passed to `{callee}` ({kw}), which is not one of the sinks documented for it {sorted(allowed[0])}: it changes another aspect of the output",
                file=COMPILER_REL,
                line=ln,
                props=["C11", "C13"] if o == "default_str_storage" else None,  # the requested size is what replaces the library's placeholders
            )
        for sink, ln in sl["control"]:
            seen.add(sink)
            ok = sink in allowed[1] or sink in allowed[0]
            if any(o2.construct == f"{o}->control:{sink}" for o2 in ctx.obligations.get("P2", [])):
                continue
            ctx.ob(
                f"{o}->control:{sink}",
                ok,
                "" if ok else f"`{sink}` is executed / chosen under a condition on option `{o}`, outside its documented influence {sorted(allowed[1])}",
                file=COMPILER_REL,
                line=ln,
                # the buffer prologue hangs on the program using HBUFF (and the standard prefix), on nothing else: C04 says so
                props=["C11", "C04"] if "Hbuff" in sink else None,
            )
        for req in sorted(P2_REQUIRED.get(o, ())):
            ok = req in seen
            ctx.ob(f"{o}=>required:{req}", ok, "" if ok else f"option `{o}` no longer reaches `{req}`: the documented effect is lost or hard-wired", file=COMPILER_REL, line=P.fn.lineno)
    # keyword names used at the sinks: the visitor receives the option under its own name
    for p in P.passes:
        for k in p.ctor.keywords:
            if k.arg and isinstance(k.value, ast.Name) and k.value.id in opts:
                ok = k.arg == k.value.id
                ctx.ob(f"{p.cls}({k.arg}={k.value.id})", ok, "" if ok else f"`{p.cls}` receives option `{k.value.id}` as `{k.arg}`", file=COMPILER_REL, line=p.ctor.lineno)
    # default_width32 literal is the second argument of RUN _ecb_start
    found = False
    from .normalise import inline_once_locals

    for n in ast.walk(inline_once_locals(P.fn)):
        if isinstance(n, ast.Call) and call_name(n) == "BasicRunCall" and n.args and isinstance(n.args[0], ast.Constant) and "_ecb_start" in str(n.args[0].value):
            found = True
            lst = n.args[1].args[0] if len(n.args) > 1 and isinstance(n.args[1], ast.Call) and n.args[1].args else None
            ok = isinstance(lst, ast.List) and len(lst.elts) == 2 and "default_width32" in names_loaded(lst.elts[1]) and "default_width32" not in names_loaded(lst.elts[0])
            pos = False
            if ok:
                e = lst.elts[1]
                ie = next((x for x in ast.walk(e) if isinstance(x, ast.IfExp)), None)
                pos = ie is not None and isinstance(ie.test, ast.Name) and _truthy_const(ie.body) and not _truthy_const(ie.orelse)
            ctx.ob("default_width32->_ecb_start.w", ok and pos, "" if ok and pos else "the width flag is not (positively) the second argument of RUN _ecb_start", file=COMPILER_REL, line=n.lineno)
    ctx.need(found, "_ecb_start", "RUN _ecb_start call not found in the prologue")


def _truthy_const(e: ast.AST) -> bool:
    return isinstance(e, ast.Constant) and bool(e.value)


# ---------------------------------------------------------------------------
# P3 CLI-MAP

CLI_TABLE = {
    # short flag: (convert_file keyword, polarity, type)
    "-l": ("filter_unused_linenum", "pos", "flag"),
    "-z": ("initialize_vars", "neg", "flag"),
    "-s": ("default_str_storage", "pos", "int"),
    "-D": ("output_dependencies", "neg", "flag"),
    "-w": ("default_width32", "neg", "flag"),
    "-c": ("config_file", "pos", "str"),
}


def _dest(flags: List[str], kw: Dict[str, ast.AST]) -> str:
    if "dest" in kw and isinstance(kw["dest"], ast.Constant):
        return kw["dest"].value
    longs = [f for f in flags if f.startswith("--")]
    if longs:
        return longs[0][2:].replace("-", "_")
    shorts = [f for f in flags if f.startswith("-")]
    if shorts:
        return shorts[0][1:]
    return flags[0]


@rule("P3", "CLI-MAP: each command-line flag feeds exactly its documented option, procname is the file stem, output uses CR", ["C11", "C15", "C10"], floor=10, default_props=["C11", "C15"])
def p3(ctx: Ctx):
    py = pyfacts(ctx)
    m = py.mod(CLI_REL)
    ctx.need("start" in m.functions, "start", "decb_to_b09.start() not found")
    from .normalise import normalise_module

    # `_build_parser()` / `_procname_for()` style helpers are inlined into start() first
    nt = normalise_module(m.tree)
    fn = next(f for f in nt.body if isinstance(f, ast.FunctionDef) and f.name == "start")
    # the parser may be built by helpers start() calls (transitively): their add_argument calls count
    mod_fns = {f.name: f for f in nt.body if isinstance(f, ast.FunctionDef)}
    reach = [fn]
    for f_ in reach:
        for c in ast.walk(f_):
            if isinstance(c, ast.Call) and isinstance(c.func, ast.Name) and c.func.id in mod_fns and mod_fns[c.func.id] not in reach and c.func.id not in ("main",):
                reach.append(mod_fns[c.func.id])
    args_by_flag: Dict[str, dict] = {}
    positionals: List[dict] = []
    for n in [x for f_ in reach for x in walk_no_nested(f_)]:
        if isinstance(n, ast.Call) and call_name(n) == "add_argument":
            flags = [a.value for a in n.args if isinstance(a, ast.Constant) and isinstance(a.value, str)]
            kw = {k.arg: k.value for k in n.keywords if k.arg}
            if not flags or any(isinstance(a, ast.Starred) for a in n.args) or any(k.arg is None for k in n.keywords):
                # options registered from a table (`add_argument(*names, **options)`): the flags are data, not code
                raise AnalysisError("P3", "add_argument", f"the command-line options are not declared by literal add_argument calls (line {n.lineno}): cannot map flags to options")
            rec = {"flags": flags, "dest": _dest(flags, kw), "kw": kw, "line": n.lineno, "node": n}
            if flags and flags[0].startswith("-"):
                for f in flags:
                    args_by_flag[f] = rec
            else:
                positionals.append(rec)
    # source order = depth-first order of the (possibly inlined) syntax tree; line numbers of inlined code coincide
    order_: Dict[int, int] = {}

    def _dfs(n_):
        order_[id(n_)] = len(order_)
        for c_ in ast.iter_child_nodes(n_):
            _dfs(c_)

    for f_ in reach:
        _dfs(f_)
    for r_ in positionals:
        r_["order"] = order_.get(id(r_["node"]), 0)
    positionals.sort(key=lambda r: r["order"])
    call = next((n for n in walk_no_nested(fn) if isinstance(n, ast.Call) and call_name(n) == "convert_file"), None)
    ctx.need(call is not None, "start", "call of convert_file(...) not found")
    ns = None  # name of the parsed-args namespace
    for n in walk_no_nested(fn):
        if isinstance(n, ast.Assign) and isinstance(n.value, ast.Call) and call_name(n.value) == "parse_args" and isinstance(n.targets[0], ast.Name):
            ns = n.targets[0].id
    ctx.need(ns is not None, "start", "parse_args() result not found")
    kwmap: Dict[str, ast.AST] = {k.arg: k.value for k in call.keywords if k.arg}
    from .pyast import resolve_alias as _ra0

    for k in call.keywords:
        if k.arg is None:
            # `**options`: a dict display with constant keys, possibly through a local
            d_ = _ra0(fn, k.value)
            if isinstance(d_, ast.Dict) and all(isinstance(x, ast.Constant) and isinstance(x.value, str) for x in d_.keys):
                for x, v_ in zip(d_.keys, d_.values):
                    kwmap.setdefault(x.value, v_)
            else:
                raise AnalysisError("P3", "convert_file(**...)", f"keyword arguments come from `{unparse(k.value)}`, not from a literal mapping (line {call.lineno}): cannot map flags to options")

    def source_of(e: ast.AST) -> Tuple[Optional[str], str]:
        """(dest, polarity) for `args.x` / `not args.x`."""
        if isinstance(e, ast.UnaryOp) and isinstance(e.op, ast.Not):
            d, pol = source_of(e.operand)
            return d, ("neg" if pol == "pos" else "pos")
        if isinstance(e, ast.Attribute) and isinstance(e.value, ast.Name) and e.value.id == ns:
            return e.attr, "pos"
        if isinstance(e, ast.Name):
            from .pyast import resolve_alias as _ra

            r_ = _ra(fn, e)
            if r_ is not e:
                return source_of(r_)
        return None, "?"

    for flag, (kwname, pol, typ) in CLI_TABLE.items():
        rec = args_by_flag.get(flag)
        if rec is None:
            raise AnalysisError("P3", flag, "documented flag is not declared by start()")
        val = kwmap.get(kwname)
        if val is None:
            ctx.ob(f"{flag}->{kwname}", False, f"convert_file() is not given `{kwname}`: flag {flag} has no effect", file=CLI_REL, line=call.lineno)
            continue
        d, p = source_of(val)
        action = rec["kw"].get("action")
        act = action.value if isinstance(action, ast.Constant) else None
        problems = []
        if d != rec["dest"]:
            problems.append(f"`{kwname}` is computed from args.{d}, flag {flag} stores into args.{rec['dest']}")
        if typ == "flag":
            if act == "store_false":
                p = "neg" if p == "pos" else "pos"
            elif act != "store_true":
                problems.append(f"flag {flag} has action {act}")
            dflt = rec["kw"].get("default")
            if isinstance(dflt, ast.Constant) and dflt.value not in (None, False) and act == "store_true":
                problems.append(f"flag {flag} defaults to {dflt.value!r}")
        if p != pol and not problems:
            problems.append(f"polarity: `{kwname}` is {'the negation of' if p == 'neg' else 'equal to'} flag {flag}, documented {'negated' if pol == 'neg' else 'positive'}")
        if typ == "int":
            t = rec["kw"].get("type")
            if not (isinstance(t, ast.Name) and t.id == "int"):
                problems.append(f"flag {flag} is not parsed as int")
            dflt = rec["kw"].get("default")
            dval = dflt.value if isinstance(dflt, ast.Constant) else None
            if isinstance(dflt, (ast.Name, ast.Attribute)) and unparse(dflt).split(".")[-1] == "DEFAULT_STR_STORAGE":
                init_ = py.modules.get("coco/b09/__init__.py")
                cv_ = init_.assigns.get("DEFAULT_STR_STORAGE") if init_ else None
                dval = cv_.value if isinstance(cv_, ast.Constant) else None
            if dval != 32:
                problems.append(f"flag {flag} does not default to BASIC09's 32 bytes")
        req = rec["kw"].get("required")
        if isinstance(req, ast.Constant) and req.value is True:
            problems.append(f"flag {flag} is declared required=True: every invocation without it is rejected")
        ctx.ob(f"{flag}->{kwname}", not problems, "; ".join(problems), file=CLI_REL, line=rec["line"], facts={"dest": rec["dest"], "action": act})
    # no two flags share a destination
    dests: Dict[str, List[str]] = {}
    for f, rec in args_by_flag.items():
        if f.startswith("--"):
            continue
        dests.setdefault(rec["dest"], []).append(f)
    for d, fl in dests.items():
        ctx.ob(f"dest:{d}", len(fl) == 1, "" if len(fl) == 1 else f"flags {fl} store into the same destination", file=CLI_REL, line=fn.lineno)
    # positional files
    ctx.need(len(positionals) >= 2, "positionals", "input and output file arguments not found")
    inp, outp = positionals[0], positionals[1]
    a0 = call.args[0] if call.args else None
    a1 = call.args[1] if len(call.args) > 1 else None
    ok = source_of(a0)[0] == inp["dest"] and source_of(a1)[0] == outp["dest"]
    ctx.ob("positionals->convert_file", ok, "" if ok else "input/output files are not passed to convert_file in that order", file=CLI_REL, line=call.lineno)
    for rec, mode in ((inp, "r"), (outp, "w")):
        t = rec["kw"].get("type")
        okm = isinstance(t, ast.Call) and call_name(t) == "FileType" and t.args and isinstance(t.args[0], ast.Constant) and t.args[0].value == mode
        ctx.ob(f"{rec['dest']}:FileType({mode})", okm, "" if okm else f"positional `{rec['dest']}` is not opened with mode {mode!r}", file=CLI_REL, line=rec["line"])
    # procname = stem of the input file's name, in whatever way it is spelt (helpers, locals, [0] or tuple unpacking)
    from .pyast import resolve_alias as _ra

    def path_term(e: ast.AST, f_: ast.FunctionDef, binding: Dict[str, ast.AST], depth: int = 0):
        """Symbolic value of a path expression: ('stem', x) | ('ext', x) | ('base', x) | ('name', dest) | None."""
        if depth > 8 or e is None:
            return None
        if isinstance(e, ast.Name):
            if e.id in binding:
                return path_term(binding[e.id], fn, {}, depth + 1)
            # first / second element of a tuple-unpacked splitext()
            for a in ast.walk(f_):
                if isinstance(a, ast.Assign) and isinstance(a.targets[0], ast.Tuple) and len(a.targets[0].elts) == 2 and all(isinstance(x, ast.Name) for x in a.targets[0].elts):
                    names2 = [x.id for x in a.targets[0].elts]
                    if e.id in names2 and isinstance(a.value, ast.Call) and call_name(a.value) == "splitext" and a.value.args:
                        inner = path_term(a.value.args[0], f_, binding, depth + 1)
                        return ("stem" if names2.index(e.id) == 0 else "ext", inner) if inner is not None else None
            r_ = _ra(f_, e)
            return path_term(r_, f_, binding, depth + 1) if r_ is not e else None
        if isinstance(e, ast.Subscript) and isinstance(e.slice, ast.Constant) and isinstance(e.value, ast.Call) and call_name(e.value) == "splitext" and e.value.args:
            inner = path_term(e.value.args[0], f_, binding, depth + 1)
            return (("stem", "ext")[e.slice.value], inner) if inner is not None and e.slice.value in (0, 1) else None
        if isinstance(e, ast.Call) and call_name(e) == "basename" and e.args:
            inner = path_term(e.args[0], f_, binding, depth + 1)
            return ("base", inner) if inner is not None else None
        if isinstance(e, ast.Attribute) and e.attr == "name":
            d_, _pol = source_of(e.value) if f_ is fn else (None, "?")
            if d_ is None and isinstance(e.value, ast.Name) and e.value.id in binding:
                d_, _pol = source_of(binding[e.value.id])
            return ("name", d_) if d_ is not None else None
        if isinstance(e, ast.Call) and isinstance(e.func, ast.Name) and e.func.id in mod_fns and not e.keywords:
            h = mod_fns[e.func.id]
            ps = [a.arg for a in h.args.args]
            if len(ps) == len(e.args):
                rets = [r for r in ast.walk(h) if isinstance(r, ast.Return) and r.value is not None]
                if len(rets) == 1:
                    return path_term(rets[0].value, h, dict(zip(ps, e.args)), depth + 1)
        return None

    pn = kwmap.get("procname")
    term = path_term(pn, fn, {}) if pn is not None else None
    want_term = ("stem", ("base", ("name", inp["dest"])))
    if term is None and pn is not None:
        # spelt with other string operations: decided on values - the expression is evaluated (by the checker's own small
        # evaluator of path / split operations) for sample file names and compared with the stem of the base name
        import os.path as _osp

        class _NoVal(Exception):
            pass

        def ev_(e, name_, f_, depth=0):
            if depth > 12:
                raise _NoVal("depth")
            if isinstance(e, ast.Constant):
                return e.value
            if isinstance(e, ast.Attribute) and e.attr == "name":
                d_, _ = source_of(e.value)
                if d_ == inp["dest"]:
                    return name_
                raise _NoVal("name of something else")
            if isinstance(e, ast.Name):
                for a in ast.walk(f_):
                    if isinstance(a, ast.Assign) and len(a.targets) == 1 and isinstance(a.targets[0], (ast.Tuple, ast.List)) and any(isinstance(x, ast.Name) and x.id == e.id for x in a.targets[0].elts):
                        seq = ev_(a.value, name_, f_, depth + 1)
                        idx = [x.id if isinstance(x, ast.Name) else None for x in a.targets[0].elts].index(e.id)
                        if not isinstance(seq, (tuple, list)) or len(seq) != len(a.targets[0].elts):
                            raise ValueError("unpack")
                        return seq[idx]
                r_ = _ra(f_, e)
                if r_ is e:
                    raise _NoVal(f"name {e.id}")
                return ev_(r_, name_, f_, depth + 1)
            if isinstance(e, ast.Subscript):
                base = ev_(e.value, name_, f_, depth + 1)
                if isinstance(e.slice, ast.Slice):
                    lo = ev_(e.slice.lower, name_, f_, depth + 1) if e.slice.lower is not None else None
                    hi = ev_(e.slice.upper, name_, f_, depth + 1) if e.slice.upper is not None else None
                    return base[lo:hi]
                return base[ev_(e.slice, name_, f_, depth + 1)]
            if isinstance(e, ast.UnaryOp) and isinstance(e.op, ast.USub):
                return -ev_(e.operand, name_, f_, depth + 1)
            if isinstance(e, ast.Call):
                cn = call_name(e)
                args_ = [ev_(a, name_, f_, depth + 1) for a in e.args]
                if e.keywords:
                    raise _NoVal("keywords")
                full = unparse(e.func)
                if full in ("os.path.basename", "basename", "path.basename"):
                    return _osp.basename(*args_)
                if full in ("os.path.splitext", "splitext", "path.splitext"):
                    return _osp.splitext(*args_)
                if full in ("os.path.split", "path.split"):
                    return _osp.split(*args_)
                if full in ("os.path.dirname", "dirname"):
                    return _osp.dirname(*args_)
                if full in ("str",) and len(args_) == 1:
                    return str(args_[0])
                if isinstance(e.func, ast.Attribute) and cn in ("split", "rsplit", "partition", "rpartition", "removesuffix", "removeprefix", "strip", "lower", "upper"):
                    recv = ev_(e.func.value, name_, f_, depth + 1)
                    if not isinstance(recv, str):
                        raise _NoVal("method on non-text")
                    return getattr(recv, cn)(*args_)
                raise _NoVal(f"call {full}")
            raise _NoVal(type(e).__name__)

        samples = ["hello.bas", "dir/sub/hello.bas", "my.game.bas", "PROGRAM", "a.b.c.txt", "x.BAS", "dir.v2/prog.bas"]
        bad_, undec_ = None, None
        for nm_ in samples:
            want_ = _osp.splitext(_osp.basename(nm_))[0]
            try:
                got_ = ev_(pn, nm_, fn)
            except _NoVal as ex_:
                undec_ = str(ex_)
                break
            except (ValueError, IndexError, TypeError) as ex_:
                bad_ = (nm_, f"{type(ex_).__name__}", want_)
                break
            if got_ != want_:
                bad_ = (nm_, got_, want_)
                break
        if undec_ is None:
            ctx.ob(
                "procname=stem(input)",
                bad_ is None,
                "" if bad_ is None else f"procname is computed as `{unparse(_ra(fn, pn) if isinstance(pn, ast.Name) else pn)}`: for the input file `{bad_[0]}` that gives {bad_[1]!r}, the stem of the base name is {bad_[2]!r} - the procedure is named after something else than the input file",
                file=CLI_REL,
                line=call.lineno,
                witness="" if bad_ is None else f"decb-to-b09 {bad_[0]} out.b09",
            )
            term = want_term
            pn_decided = True
    if not locals().get("pn_decided"):
      ctx.idiom("procname=stem(input)", term is not None, term == want_term, "" if term == want_term else f"procname is `{unparse(pn) if pn is not None else None}` = {term}, not the stem of the input file's base name", file=CLI_REL, line=call.lineno)
    # convert_file: passes every option through under its own name; output has \n -> \r before write
    P = pipeline(ctx)
    cf = P.convert_file
    ctx.need(cf is not None, "convert_file", "function not found")
    inner = next((n for n in walk_no_nested(cf) if isinstance(n, ast.Call) and call_name(n) == "convert"), None)
    ctx.need(inner is not None, "convert_file", "call of convert() not found")
    cf_params = {a.arg for a in cf.args.kwonlyargs + cf.args.args}
    for k in inner.keywords:
        if k.arg in ("compiler_configs",):
            continue
        ok = isinstance(k.value, ast.Name) and k.value.id == k.arg
        ctx.ob(f"convert_file:{k.arg}", ok, "" if ok else f"convert_file passes `{unparse(k.value)}` as `{k.arg}`", file=COMPILER_REL, line=inner.lineno)
    for kwname, _, _ in CLI_TABLE.values():
        if kwname == "config_file":
            continue
        ok = any(k.arg == kwname for k in inner.keywords)
        # (a string size that never arrives also means declarations without the requested size: C10)
        ctx.ob(f"convert_file=>{kwname}", ok, "" if ok else f"convert_file does not forward `{kwname}` to convert()", file=COMPILER_REL, line=inner.lineno, props=["C11", "C15", "C10"] if "str_storage" in kwname else None)
    ok = any(k.arg == "procname" for k in inner.keywords)
    ctx.ob("convert_file=>procname", ok, "" if ok else "convert_file does not forward procname", file=COMPILER_REL, line=inner.lineno)
    # defaults of convert_file equal the defaults of convert (an option not given on either level means the same)
    cdef = _kw_defaults(P.fn)
    fdef = _kw_defaults(cf)
    for k in sorted(set(cdef) & set(fdef)):
        ok = cdef[k] == fdef[k]
        ctx.ob(f"default:{k}", ok, "" if ok else f"convert_file defaults `{k}` to {fdef[k]}, convert to {cdef[k]}", file=COMPILER_REL, line=cf.lineno)
    # .replace("\n", "\r") dominates write
    writes = [n for n in walk_no_nested(cf) if isinstance(n, ast.Call) and call_name(n) == "write"]
    ctx.need(writes, "convert_file", "output write not found")
    w = writes[0]
    arg = w.args[0] if w.args else None
    okw: Optional[bool] = None
    mconsts = dict(py.mod(COMPILER_REL).assigns)
    if isinstance(arg, ast.Name):
        defs = [n for n in walk_no_nested(cf) if isinstance(n, ast.Assign) and isinstance(n.targets[0], ast.Name) and n.targets[0].id == arg.id and n.lineno < w.lineno]
        if defs:
            last = max(defs, key=lambda n: n.lineno)
            okw = _is_nl_to_cr(last.value, mconsts)
    elif arg is not None:
        okw = _is_nl_to_cr(arg, mconsts)
    ctx.idiom("convert_file:\\n->\\r", okw is not None, bool(okw), "" if okw else "the text written is not the program text with every LF turned into CR", file=COMPILER_REL, line=w.lineno)


def _is_nl_to_cr(e: ast.AST, consts: Optional[Dict[str, ast.AST]] = None) -> Optional[bool]:
    """Does the expression turn every LF of its receiver into CR (and nothing else)?  None: not a form this reads."""
    consts = consts or {}

    def cv(x):
        if isinstance(x, ast.Name) and x.id in consts:
            x = consts[x.id]
        return x

    if isinstance(e, ast.BinOp) and isinstance(e.op, ast.Add) and isinstance(cv(e.right), ast.Constant) and cv(e.right).value == "\r":
        # `"\r".join(<lines>) + "\r"`: decided by how the lines were cut
        inner_ = e.left
        if isinstance(inner_, ast.Call) and isinstance(inner_.func, ast.Attribute) and inner_.func.attr == "join" and len(inner_.args) == 1 and isinstance(inner_.args[0], ast.Call) and call_name(inner_.args[0]) == "splitlines":
            return False  # str.splitlines also cuts at VT, FF, FS, GS, RS, NEL, LS, PS and CR: characters inside literals and remarks turn into CR
        return None
    if not (isinstance(e, ast.Call) and isinstance(e.func, ast.Attribute)):
        return None
    if e.func.attr == "join" and len(e.args) == 1 and isinstance(e.args[0], ast.Call) and call_name(e.args[0]) == "splitlines" and not e.args[0].args and not e.args[0].keywords:
        return False  # (as above; a trailing LF is dropped as well)
    if e.func.attr == "replace" and len(e.args) == 2:
        a0, a1 = cv(e.args[0]), cv(e.args[1])
        if isinstance(a0, ast.Constant) and isinstance(a1, ast.Constant):
            return a0.value == "\n" and a1.value == "\r"
        return None
    if e.func.attr == "translate" and len(e.args) == 1:
        t = cv(e.args[0])
        if isinstance(t, ast.Call) and call_name(t) == "maketrans" and len(t.args) == 2 and all(isinstance(cv(x), ast.Constant) for x in t.args):
            return cv(t.args[0]).value == "\n" and cv(t.args[1]).value == "\r"
        if isinstance(t, ast.Dict) and all(isinstance(k_, ast.Constant) and isinstance(v_, ast.Constant) for k_, v_ in zip(t.keys, t.values)):
            pairs = {(ord(k_.value) if isinstance(k_.value, str) else k_.value): (ord(v_.value) if isinstance(v_.value, str) and len(v_.value) == 1 else v_.value) for k_, v_ in zip(t.keys, t.values)}
            return pairs == {10: 13}
        return None
    if e.func.attr == "join" and len(e.args) == 1 and isinstance(cv(e.func.value), ast.Constant):
        inner = e.args[0]
        if isinstance(inner, ast.Call) and isinstance(inner.func, ast.Attribute) and inner.func.attr == "split" and len(inner.args) == 1 and isinstance(cv(inner.args[0]), ast.Constant):
            return cv(e.func.value).value == "\r" and cv(inner.args[0]).value == "\n"
    return None


def _kw_defaults(fn: ast.FunctionDef) -> Dict[str, str]:
    out = {}
    for a, d in zip(fn.args.kwonlyargs, fn.args.kw_defaults):
        if d is not None:
            out[a.arg] = unparse(d)
    return out


# ---------------------------------------------------------------------------
# P4 REFUSALS


@rule("P4", "REFUSALS: undefined targets, duplicate handlers and oversized line numbers raise the documented errors before emission", ["C06", "C15", "C11"], floor=4, default_props=["C06", "C15"])
def p4(ctx: Ctx):
    P = pipeline(ctx)
    py = P.py
    # 1. the three ParseError refusals
    wanted = {
        "undefined": (r"len\((\w+)\.undefined_lines\)>0|(\w+)\.undefined_lines", "ParseError"),
    }
    und = [r for r in P.raises if any("undefined_lines" in c for c in r[2])]
    ok = bool(und) and all(r[1] == "ParseError" for r in und)
    ok = ok and all(_nonempty_test(c) for r in und for c in r[2] if "undefined_lines" in c)
    ctx.ob("refuse:undefined-line", ok, "" if ok else "convert() does not raise ParseError exactly when the set of undefined targets is non-empty", file=COMPILER_REL, line=und[0][0] if und else P.fn.lineno)
    coll = [r for r in P.raises if any(".statements" in c for c in r[2])]
    for r in coll:
        cond = next(c for c in r[2] if ".statements" in c)
        m = re.fullmatch(r"len\((\w+)\.statements\)\s*>\s*(\d+)", cond.strip())
        okc = m is not None and int(m.group(2)) == 1 and r[1] == "ParseError"
        var = m.group(1) if m else "?"
        # which statement class does that collector collect?
        cls = None
        for p in P.passes:
            if p.var == var and p.ctor.args and isinstance(p.ctor.args[0], ast.Name):
                cls = p.ctor.args[0].id
        ctx.ob(f"refuse:duplicate:{cls}", okc and cls is not None, "" if okc else f"duplicate-handler refusal has condition `{cond}` raising {r[1]}: more than one handler is not refused", file=COMPILER_REL, line=r[0])
    kinds = {o.construct for o in ctx.obligations["P4"]}
    for need in ("BasicOnErrGoStatement", "BasicOnBrkGoStatement"):
        if f"refuse:duplicate:{need}" not in kinds:
            ctx.ob(f"refuse:duplicate:{need}", False, f"no refusal for more than one {need} found in convert()", file=COMPILER_REL, line=P.fn.lineno)
    # the collector compares exact types, and ON BRK derives from ON ERR: isinstance would mix them
    sc = py.cls("StatementCollectorVisitor")
    vs = sc.methods.get("visit_statement")
    ctx.need(vs is not None, "StatementCollectorVisitor.visit_statement", "not found")
    src = unparse(vs)
    # an exact-type comparison, in either polarity and operand order: `type(s) is T`, `type(s) is not T: return`, `T == type(s)`
    exact = any(
        isinstance(c, ast.Compare)
        and len(c.ops) == 1
        and isinstance(c.ops[0], (ast.Is, ast.IsNot, ast.Eq, ast.NotEq))
        and any(isinstance(x, ast.Call) and call_name(x) == "type" and len(x.args) == 1 for x in (c.left, c.comparators[0]))
        and any(not (isinstance(x, ast.Call) and call_name(x) == "type") for x in (c.left, c.comparators[0]))
        for c in ast.walk(vs)
    ) and not any(isinstance(c, ast.Call) and call_name(c) in ("isinstance", "issubclass") for c in ast.walk(vs))
    brk_sub = py.is_subclass("BasicOnBrkGoStatement", "BasicOnErrGoStatement") or py.is_subclass("BasicOnErrGoStatement", "BasicOnBrkGoStatement")
    okx = exact or not brk_sub
    ctx.ob("collector:exact-type", okx, "" if okx else "the handler collector no longer compares exact types although the two handler classes are related: one ON ERR plus one ON BRK would be refused / counted together", file=VISITORS_REL, line=vs.lineno)
    okap = ast_contains(vs, "self._statements.append($s)")
    ctx.ob("collector:appends", okap, "" if okap else "StatementCollectorVisitor no longer records the statements it is looking for: duplicate handlers are never refused and the error dispatcher is never generated", file=VISITORS_REL, line=vs.lineno)
    # 2. line number bound
    lc = py.cls("LineNumberCheckerVisitor")
    vl = lc.methods.get("visit_line")
    ctx.need(vl is not None, "LineNumberCheckerVisitor.visit_line", "not found")
    vl = _const_locals(vl)
    bound = None
    for n in ast.walk(vl):
        if isinstance(n, ast.If):
            for c in ast.walk(n.test):
                if isinstance(c, ast.Compare) and len(c.ops) == 1 and isinstance(c.comparators[0], ast.Constant) and isinstance(c.comparators[0].value, int):
                    if isinstance(c.ops[0], ast.Gt):
                        bound = c.comparators[0].value
                    elif isinstance(c.ops[0], ast.GtE):
                        bound = c.comparators[0].value - 1
            raises = [x for x in n.body if isinstance(x, ast.Raise)]
            if bound is not None and raises:
                rc = unparse(raises[0].exc)
                if isinstance(raises[0].exc, ast.Call) and isinstance(raises[0].exc.func, ast.Attribute) and isinstance(raises[0].exc.func.value, ast.Name) and raises[0].exc.func.value.id in py.classes and raises[0].exc.func.attr in py.classes[raises[0].exc.func.value.id].classmethods:
                    rc = raises[0].exc.func.value.id + "(" + rc  # (a factory classmethod of that class: checked with the raises below)
                parts = n.test.values if isinstance(n.test, ast.BoolOp) and isinstance(n.test.op, ast.And) else [n.test]
                extra = [unparse(pt) for pt in parts if not (isinstance(pt, ast.Compare) and len(pt.ops) == 1 and (isinstance(pt.ops[0], (ast.Gt, ast.GtE)) or (isinstance(pt.ops[0], ast.IsNot) and isinstance(pt.comparators[0], ast.Constant) and pt.comparators[0].value is None)))]
                ctx.ob(
                    "refuse:line-number-bound:every-line",
                    not extra,
                    "" if not extra else f"the line-number bound is only enforced when `{' and '.join(extra)}`: other lines above the bound are converted (and can collide with the dispatcher label)",
                    file=VISITORS_REL,
                    line=n.lineno,
                    witness="" if not extra else "32700 END",
                    # (a condition on what the label filter left behind makes acceptance depend on the filter option)
                    props=["C06", "C15", "C11"] if any("is_referenced" in e_ for e_ in extra) else None,
                )
                okb = bound == 32699 and rc.startswith("LineNumberTooLargeException")
                ctx.ob("refuse:line-number-bound", okb, "" if okb else f"line numbers above {bound} raise `{rc}`; documented bound is 32699 with LineNumberTooLargeException", file=VISITORS_REL, line=n.lineno, facts={"bound": bound})
    ctx.need(bound is not None, "LineNumberCheckerVisitor", "bound comparison not found")
    # the checker removes exactly the defined lines from a *copy* of the references
    dis = any(isinstance(n, ast.Call) and isinstance(n.func, ast.Attribute) and n.func.attr in ("discard", "remove") for n in ast.walk(vl))
    ctx.ob("checker:discards-defined", dis, "" if dis else "the checker no longer removes defined line numbers from the reference set", file=VISITORS_REL, line=vl.lineno)
    init = lc.methods.get("__init__")
    cp = init is not None and ".copy()" in unparse(init) or (init is not None and "set(" in unparse(init))
    ctx.ob("checker:copies-references", bool(cp), "" if cp else "the checker mutates the shared reference set (label filtering and later passes see it shrink)", file=VISITORS_REL, line=init.lineno if init else lc.node.lineno)
    # 3. explicit raises reachable from the conversion path raise documented classes
    documented = {"ParseError", "LineNumberTooLargeException"}
    guarded_exc = {"BinaryExpressionException": "guarded by the non-empty test in visit_binary_exp"}
    for rel in ("coco/b09/compiler.py", "coco/b09/visitors.py", "coco/b09/elements.py", "coco/b09/parser.py", "coco/b09/prog.py", "coco/b09/procbank.py", "coco/b09/error_handler.py"):
        m = py.mod(rel)
        for n in ast.walk(m.tree):
            if isinstance(n, ast.Raise) and n.exc is not None:
                nm = call_name(n.exc) or (n.exc.id if isinstance(n.exc, ast.Name) else unparse(n.exc))
                # a factory classmethod (`raise K.for_x(..)` whose every return is `cls(..)`) raises a K
                if isinstance(n.exc, ast.Call) and isinstance(n.exc.func, ast.Attribute) and isinstance(n.exc.func.value, ast.Name) and n.exc.func.value.id in py.classes:
                    fac = py.classes[n.exc.func.value.id].classmethods.get(n.exc.func.attr)
                    rets_ = [r_ for r_ in ast.walk(fac) if isinstance(r_, ast.Return)] if fac is not None else []
                    if rets_ and all(isinstance(r_.value, ast.Call) and isinstance(r_.value.func, ast.Name) and r_.value.func.id in ("cls", n.exc.func.value.id) for r_ in rets_):
                        nm = n.exc.func.value.id
                if nm in guarded_exc:
                    ctx.info(f"raise:{nm}", "exception: " + guarded_exc[nm], file=rel, line=n.lineno)
                    continue
                ok = nm in documented
                ctx.ob(f"raise:{rel.split('/')[-1]}:{nm}", ok, "" if ok else f"`raise {nm}` on the conversion path is not one of the documented refusals", file=rel, line=n.lineno)


def _nonempty_test(cond: str) -> bool:
    c = cond.replace(" ", "")
    return bool(re.fullmatch(r"len\(\w+\.undefined_lines\)(>0|>=1|!=0)", c)) or bool(re.fullmatch(r"\w+\.undefined_lines", c))


# ---------------------------------------------------------------------------
# P6 HANDLER-CONSTANTS


class _GuardUnknown(Exception):
    pass


def _guard_eval(e: ast.AST, env: Dict[str, object]):
    """Value of a side-effect-free guard over known locals (None tests, truthiness, comparisons, len)."""
    if isinstance(e, ast.Constant):
        return e.value
    if isinstance(e, ast.Name):
        if e.id in env:
            return env[e.id]
        raise _GuardUnknown(f"name {e.id}")
    if isinstance(e, ast.BoolOp):
        r = None
        for v in e.values:
            r = _guard_eval(v, env)
            if isinstance(e.op, ast.And) and not r:
                return r
            if isinstance(e.op, ast.Or) and r:
                return r
        return r
    if isinstance(e, ast.UnaryOp) and isinstance(e.op, ast.Not):
        return not _guard_eval(e.operand, env)
    if isinstance(e, ast.Call) and isinstance(e.func, ast.Name) and e.func.id in ("len", "bool", "any", "all") and len(e.args) == 1 and not e.keywords:
        v = _guard_eval(e.args[0], env)
        try:
            return {"len": len, "bool": bool, "any": any, "all": all}[e.func.id](v)
        except TypeError as ex:
            raise _GuardUnknown(str(ex))
    if isinstance(e, ast.Compare):
        left = _guard_eval(e.left, env)
        for op, c in zip(e.ops, e.comparators):
            right = _guard_eval(c, env)
            try:
                r = {
                    ast.Is: lambda a, b: a is b, ast.IsNot: lambda a, b: a is not b, ast.Eq: lambda a, b: a == b, ast.NotEq: lambda a, b: a != b,
                    ast.Lt: lambda a, b: a < b, ast.LtE: lambda a, b: a <= b, ast.Gt: lambda a, b: a > b, ast.GtE: lambda a, b: a >= b,
                    ast.In: lambda a, b: a in b, ast.NotIn: lambda a, b: a not in b,
                }[type(op)](left, right)
            except (TypeError, KeyError) as ex:
                raise _GuardUnknown(str(ex))
            if not r:
                return False
            left = right
        return True
    if isinstance(e, (ast.Tuple, ast.List)):
        return [_guard_eval(x, env) for x in e.elts]
    raise _GuardUnknown(f"expression `{unparse(e)}`")


@rule("P6", "HANDLER-CONSTANTS: dispatcher label, ON ERROR target and the line-number bound agree; break goes to the BRK target", ["C06", "C07"], floor=5, default_props=["C06"])
def p6(ctx: Ctx):
    py = pyfacts(ctx)
    from .normalise import normalise_module

    m = py.mod("coco/b09/error_handler.py")
    ctx.need("generate" in m.functions, "error_handler.generate", "not found")
    # helper functions that build one line each are inlined first
    from .normalise import inline_once_locals

    g = inline_once_locals(next(f for f in normalise_module(m.tree).body if isinstance(f, ast.FunctionDef) and f.name == "generate"))
    labels = []
    for n in ast.walk(g):
        if isinstance(n, ast.Call) and call_name(n) == "BasicLine" and n.args and isinstance(n.args[0], ast.Constant) and isinstance(n.args[0].value, int):
            labels.append((n.args[0].value, n.lineno))
    ctx.need(labels, "generate", "no labelled BasicLine found")
    ctx.ob("dispatcher:single-label", len(labels) == 1, "" if len(labels) == 1 else f"dispatcher has labels {labels}", file=m.rel, line=g.lineno)
    label = labels[0][0]
    # ON ERR / ON BRK emission text
    targets = []
    for cls in ("BasicOnErrGoStatement", "BasicOnBrkGoStatement"):
        r = py.resolve_method(cls, "basic09_text")
        ctx.need(r is not None, cls, "basic09_text not found")
        consts = [c.value for c in ast.walk(r[1]) if isinstance(c, ast.Constant) and isinstance(c.value, str)]
        nums = [int(x) for s in consts for x in re.findall(r"(?i)on\s+error\s+goto\s+(\d+)", s)]
        ctx.need(nums, cls, "`ON ERROR GOTO <n>` text not found")
        ok = all(x == label for x in nums)
        ctx.ob(f"{cls}:target", ok, "" if ok else f"{cls} emits ON ERROR GOTO {nums}, the dispatcher is labelled {label}", file=r[0].module, line=r[1].lineno)
    # bound + 1 == label
    lc = _const_locals(py.cls("LineNumberCheckerVisitor").methods["visit_line"])
    bound = None
    for c in ast.walk(lc):
        if isinstance(c, ast.Compare) and isinstance(c.comparators[0], ast.Constant) and isinstance(c.comparators[0].value, int) and c.comparators[0].value > 1000:
            bound = c.comparators[0].value if isinstance(c.ops[0], ast.Gt) else c.comparators[0].value - 1
    ok = bound is not None and bound + 1 == label
    ctx.ob("bound+1=label", ok, "" if ok else f"user lines are admitted up to {bound}, the dispatcher lives at {label}: a user line can collide with / exceed the dispatcher label", file=VISITORS_REL, line=lc.lineno)
    # break test -> brk target ; the rest -> err target
    ifs = [n for n in ast.walk(g) if isinstance(n, ast.Call) and call_name(n) == "BasicIf"]
    okb = False
    okc = False
    for n in ifs:
        src = unparse(n)
        if "brk_line" in src:
            okb = True
            cmp_ = n.args[0] if n.args else None
            if isinstance(cmp_, ast.Call) and len(cmp_.args) == 3:
                op = cmp_.args[1]
                val = cmp_.args[2]
                v = val.args[0].value if isinstance(val, ast.Call) and val.args and isinstance(val.args[0], ast.Constant) else None
                okc = isinstance(op, ast.Constant) and op.value == "=" and v == 2
    ctx.ob("break->brk_line", okb and okc, "" if okb and okc else "the dispatcher does not test `ERNO = 2` (keyboard break) to reach the BRK target", file=m.rel, line=g.lineno)
    gotos = [n for n in ast.walk(g) if isinstance(n, ast.Call) and call_name(n) == "BasicGoto" and n.args and isinstance(n.args[0], ast.Name)]
    oke = any(n.args[0].id == "err_line" for n in gotos)
    ctx.ob("rest->err_line", oke, "" if oke else "no GOTO err_line in the dispatcher", file=m.rel, line=g.lineno)
    # order: brk test precedes the unconditional err goto
    # (order in the function text: depth-first position, not the line number - inlined helpers share the line of their call)
    pos6: Dict[int, int] = {}

    def _dfs6(n_):
        pos6[id(n_)] = len(pos6) + 1
        for c_ in ast.iter_child_nodes(n_):
            _dfs6(c_)

    _dfs6(g)
    brk_ln = min((pos6[id(n)] for n in gotos if n.args[0].id == "brk_line"), default=None)
    err_ln = min((pos6[id(n)] for n in gotos if n.args[0].id == "err_line"), default=None)
    if brk_ln and err_ln:
        ctx.ob("brk-before-err", brk_ln < err_ln, "" if brk_ln < err_ln else "the unconditional GOTO err_line precedes the break test", file=m.rel, line=g.lineno)
    for n in ast.walk(g):
        if isinstance(n, (ast.If, ast.IfExp)) and names_loaded(n.test) & {"brk_line", "err_line"}:
            parts = n.test.values if isinstance(n.test, ast.BoolOp) else [n.test]
            okn = all(isinstance(pt, ast.Compare) and len(pt.ops) == 1 and isinstance(pt.ops[0], (ast.IsNot, ast.Is)) and isinstance(pt.comparators[0], ast.Constant) and pt.comparators[0].value is None for pt in parts)
            ctx.ob(
                f"target-present-test:{unparse(n.test)[:40]}",
                okn,
                "" if okn else f"`{unparse(n.test)}` tests a handler target by truthiness: line 0 is a legal target and counts as `no handler`, so ON BRK GOTO 0 / ON ERR GOTO 0 get no dispatcher branch",
                file=m.rel,
                line=n.lineno,
                witness="" if okn else "10 ON BRK GOTO 0",
            )
    # convert() hands the collected targets over under the right names
    P = pipeline(ctx)
    gen = next((n for n in ast.walk(P.fn) if isinstance(n, ast.Call) and call_name(n) == "generate"), None)
    ctx.need(gen is not None, "convert", "error_handler.generate call not found")
    kw = {k.arg: unparse(k.value) for k in gen.keywords}
    # (by role: each keyword receives a local; which collector that local comes from is decided below)
    okk = set(kw) == {"brk_line", "err_line"} and all(isinstance(k.value, ast.Name) for k in gen.keywords) and kw["brk_line"] != kw["err_line"]
    ctx.ob("convert->generate", okk, "" if okk else f"generate() is called with {kw}", file=COMPILER_REL, line=gen.lineno)
    kw_names = {k.arg: k.value.id for k in gen.keywords if isinstance(k.value, ast.Name)}
    # the dispatcher lines reach the program whenever suffixes are on and a handler was requested:
    # the guard of append_lines(<result of generate>) is evaluated for every presence combination of the two targets
    from .pyast import resolve_alias as _ra2

    app = [i for i in P.insertions if i.method == "append_lines" and any(isinstance(c, ast.Call) and call_name(c) == "generate" for c in ast.walk(_ra2(P.fn, i.arg)))]
    if not app:
        ctx.undecided("dispatcher:appended", "no append_lines(<result of generate()>) in convert()", file=COMPILER_REL, line=gen.lineno)
    else:
        ins = app[0]
        kwv = {k.arg: k.value.id for k in gen.keywords if isinstance(k.value, ast.Name)}
        sufvar = ins.arg.id if isinstance(ins.arg, ast.Name) else None
        lost = []
        undec = None
        for e_ in (None, 100):
            for b_ in (None, 0, 200):
                if e_ is None and b_ is None:
                    continue
                env = {"add_suffix": True, kwv.get("err_line", "err_line"): e_, kwv.get("brk_line", "brk_line"): b_}
                if sufvar:
                    env[sufvar] = ["dispatcher"]
                try:
                    if not all(_guard_eval(ast.parse(c, mode="eval").body, env) for c in ins.conds):
                        lost.append(f"ERR target {e_}, BRK target {b_}")
                except _GuardUnknown as ex:
                    undec = str(ex)
        if undec is not None and not lost:
            ctx.undecided("dispatcher:appended", f"the guard {ins.conds} of append_lines is not evaluable ({undec})", file=COMPILER_REL, line=ins.line)
        else:
            ctx.ob("dispatcher:appended", not lost, "" if not lost else f"with suffixes on, the dispatcher lines are appended under {ins.conds}: for {lost} `ON ERROR GOTO {label}` is emitted but no line {label} exists", file=COMPILER_REL, line=ins.line, witness="" if not lost else "10 ON BRK GOTO 20 / 20 END")
    # brk_line comes from the ON BRK collector, err_line from the ON ERR collector
    for var, cls in ((kw_names.get("err_line", "err_line"), "BasicOnErrGoStatement"), (kw_names.get("brk_line", "brk_line"), "BasicOnBrkGoStatement")):
        d = next((n for n in ast.walk(P.fn) if isinstance(n, (ast.Assign, ast.AnnAssign)) and isinstance((n.targets[0] if isinstance(n, ast.Assign) else n.target), ast.Name) and (n.targets[0] if isinstance(n, ast.Assign) else n.target).id == var), None)
        ctx.need(d is not None, var, "assignment not found in convert()")
        coll = re.match(r"(\w+)\.statements\[0\]\.linenum", unparse(d.value))
        okv = False
        if coll:
            p = next((p for p in P.passes if p.var == coll.group(1)), None)
            okv = p is not None and p.ctor.args and isinstance(p.ctor.args[0], ast.Name) and p.ctor.args[0].id == cls
        ctx.ob(f"{var}<-{cls}", okv, "" if okv else f"`{var}` is not the target (line number) of the single {cls}: the dispatcher jumps elsewhere / prints something that is not a line number", file=COMPILER_REL, line=d.lineno, props=["C06", "C07"])


def _const_locals(fn: ast.FunctionDef) -> ast.FunctionDef:
    """A copy of fn in which a local bound exactly once, to a constant, reads as that constant (`limit = 32699` ... `n > limit`)."""
    import copy as _copy

    fn = _copy.deepcopy(fn)
    stores: Dict[str, int] = {}
    vals: Dict[str, ast.Constant] = {}
    for n in ast.walk(fn):
        if isinstance(n, ast.Name) and isinstance(n.ctx, ast.Store):
            stores[n.id] = stores.get(n.id, 0) + 1
        if isinstance(n, ast.Assign) and len(n.targets) == 1 and isinstance(n.targets[0], ast.Name) and isinstance(n.value, ast.Constant):
            vals[n.targets[0].id] = n.value
    params = {a.arg for a in fn.args.args + fn.args.kwonlyargs}
    vals = {k: v for k, v in vals.items() if stores.get(k) == 1 and k not in params}

    class _S(ast.NodeTransformer):
        def visit_Name(self, n):
            if isinstance(n.ctx, ast.Load) and n.id in vals:
                return ast.copy_location(ast.Constant(value=vals[n.id].value), n)
            return n

    return _S().visit(fn)


# ---------------------------------------------------------------------------
# P7 HBUFF-PROLOGUE


@rule("P7", "HBUFF-PROLOGUE: the buffer prologue is inserted exactly when the program contains HBUFF", ["C04"], floor=4)
def p7(ctx: Ctx):
    P = pipeline(ctx)
    py = P.py
    ins = [i for i in P.insertions if "_ecb_init_hbuff" in unparse(i.arg)]
    ctx.need(ins, "convert", "insertion of the `_ecb_init_hbuff` prologue not found")
    i = ins[0]
    flag = [c for c in i.conds if "has_hbuff" in c]
    ok = len(flag) == 1 and re.fullmatch(r"\w+\.has_hbuff", flag[0].strip()) is not None
    ctx.ob("prologue<=has_hbuff", ok, "" if ok else f"the HBUFF prologue is inserted under {i.conds}", file=COMPILER_REL, line=i.line)
    txt = unparse(i.arg)
    okd = "dim pid: integer" in txt.lower() and txt.lower().index("dim pid") < txt.lower().index("_ecb_init_hbuff")
    ctx.ob("prologue:dim-pid-first", okd, "" if okd else "`dim pid: integer` does not precede RUN _ecb_init_hbuff(pid)", file=COMPILER_REL, line=i.line)
    # the presence visitor sets the flag exactly on BasicHbuffStatement
    pv = py.cls("BasicHbuffPresenceVisitor")
    vs = pv.methods.get("visit_statement")
    ctx.need(vs is not None, "BasicHbuffPresenceVisitor.visit_statement", "not found")
    tests = [n for n in ast.walk(vs) if isinstance(n, ast.If)]
    okt = len(tests) == 1 and re.fullmatch(r"isinstance\(\w+,\s*BasicHbuffStatement\)", unparse(tests[0].test)) is not None
    sets = [n for n in ast.walk(vs) if isinstance(n, ast.Assign) and is_self_attr(n.targets[0]) and isinstance(n.value, ast.Constant)]
    oks = okt and len(sets) == 1 and sets[0].value.value is True and any(s is sets[0] for s in ast.walk(tests[0]))
    # or-accumulation: flag = flag or isinstance(statement, BasicHbuffStatement) / flag |= isinstance(...)
    acc = [n for n in ast.walk(vs) if (isinstance(n, ast.Assign) and is_self_attr(n.targets[0]) and isinstance(n.value, ast.BoolOp) and isinstance(n.value.op, ast.Or)) or (isinstance(n, ast.AugAssign) and is_self_attr(n.target) and isinstance(n.op, ast.BitOr))]
    if not oks and acc and not tests:
        parts_ = acc[0].value.values if isinstance(acc[0], ast.Assign) else [acc[0].value]
        tgt_ = unparse(acc[0].targets[0] if isinstance(acc[0], ast.Assign) else acc[0].target)
        others = [unparse(x) for x in parts_ if unparse(x) != tgt_]
        oks = len(others) == 1 and re.fullmatch(r"isinstance\(\w+,\s*BasicHbuffStatement\)", others[0]) is not None
    ctx.idiom("has_hbuff<=>BasicHbuffStatement", bool(tests) or bool(acc), oks, "" if oks else "the HBUFF flag is not set exactly under isinstance(statement, BasicHbuffStatement)", file=VISITORS_REL, line=vs.lineno)
    r_init = py.resolve_method(pv.name, "__init__") if "__init__" not in pv.methods else (pv, pv.methods["__init__"])
    init = r_init[1] if r_init is not None else None
    okf = init is not None and any(isinstance(n, ast.Assign) and is_self_attr(n.targets[0]) and isinstance(n.value, ast.Constant) and n.value.value is False for n in ast.walk(init))
    ctx.ob("has_hbuff:initially-false", okf, "" if okf else "the HBUFF flag does not start as False", file=VISITORS_REL, line=pv.node.lineno)
    # only visit_hbuff_statement builds BasicHbuffStatement
    builders = []
    for rel, m in py.modules.items():
        if not rel.startswith("coco/b09/"):
            continue
        for cn, ci in m.classes.items():
            for mn, fn in ci.methods.items():
                for n in ast.walk(fn):
                    if isinstance(n, ast.Call) and call_name(n) == "BasicHbuffStatement":
                        builders.append(f"{cn}.{mn}")
        # ... or through a module-level builder function the method refers to
        mf_build = {fn_.name for fn_ in m.functions.values() if any(isinstance(n, ast.Call) and call_name(n) == "BasicHbuffStatement" for n in ast.walk(fn_))}
        for cn, ci in m.classes.items():
            for mn, fn in ci.methods.items():
                if any(isinstance(n, ast.Name) and n.id in mf_build and isinstance(n.ctx, ast.Load) for n in ast.walk(fn)) and f"{cn}.{mn}" not in builders:
                    builders.append(f"{cn}.{mn}")
    okb = builders == ["BasicVisitor.visit_hbuff_statement"]
    ctx.ob("BasicHbuffStatement<=visit_hbuff_statement", okb, "" if okb else f"BasicHbuffStatement is built by {builders}", file="coco/b09/parser.py", line=1)
    # the class is a hoisting-visible statement: its visit announces itself via visit_statement
    from .emit import emitmodel

    em = emitmodel(ctx)
    okh = em.is_hoist_target("BasicHbuffStatement")
    ctx.ob("BasicHbuffStatement:visit_statement", okh, "" if okh else "BasicHbuffStatement.visit does not call visitor.visit_statement(self): the presence pass never sees it", file="coco/b09/elements.py", line=em.method_line("BasicHbuffStatement", "visit"))


# ---------------------------------------------------------------------------
# P8 NEXT-PAIRING (idiom rule)


@rule("P8", "NEXT-PAIRING: the FOR stack is popped once for every loop a NEXT closes", ["C02", "C07", "C09"], floor=1, soft=True)
def p8(ctx: Ctx):
    py = pyfacts(ctx)
    if "BasicNextPatcherVisitor" not in py.classes:
        raise IdiomNotFound("BasicNextPatcherVisitor not found")
    ci = py.cls("BasicNextPatcherVisitor")
    vf, vn = ci.methods.get("visit_for_statement"), ci.methods.get("visit_next_statement")
    if vf is None or vn is None:
        raise IdiomNotFound("visit_for_statement / visit_next_statement not overridden")
    pushes = [n for n in ast.walk(vf) if isinstance(n, ast.Call) and isinstance(n.func, ast.Attribute) and n.func.attr == "append" and is_self_attr(n.func.value)]
    if len(pushes) != 1:
        raise IdiomNotFound("stack push idiom not recognised")
    stack = pushes[0].func.value.attr
    pops = [n for n in ast.walk(vn) if isinstance(n, ast.Call) and isinstance(n.func, ast.Attribute) and n.func.attr == "pop" and is_self_attr(n.func.value, stack)]
    if not pops:
        raise IdiomNotFound("stack pop idiom not recognised")
    # counted form: `closed = [stack.pop() for _ in range(n)]` with n computed from the length of the NEXT's list (at least
    # one for a bare NEXT) and capped by the stack depth - decided on the count expression, the branch rules below do not apply
    from .pyast import resolve_alias as _ra8

    comp_pops = [c for c in ast.walk(vn) if isinstance(c, (ast.ListComp, ast.GeneratorExp)) and any(p_ in list(ast.walk(c)) for p_ in pops)]
    if comp_pops and len(comp_pops) == len(pops):
        it_ = comp_pops[0].generators[0].iter
        n_ = _ra8(vn, it_.args[0]) if isinstance(it_, ast.Call) and call_name(it_) == "range" and len(it_.args) == 1 else None
        if n_ is None:
            ctx.undecided("BasicNextPatcherVisitor.named-next", "the FOR stack is popped in a comprehension whose count this check does not read", file=VISITORS_REL, line=vn.lineno)
            return
        txt_ = unparse(n_)
        for nm_ in [x for x in ast.walk(n_) if isinstance(x, ast.Name)]:
            r_ = _ra8(vn, nm_)
            if r_ is not nm_:
                txt_ += " " + unparse(r_)
        per_var = bool(re.search(r"len\([\w.]*(exp_list|var_list|vars)\w*\)", txt_))
        capped = bool(re.search(rf"len\(self\.{stack}\)", txt_)) and "min(" in txt_
        at_least_one = "max(" in txt_ or "or 1" in txt_
        ctx.ob("BasicNextPatcherVisitor.named-next:per-variable", per_var, "" if per_var else f"the number of loops a NEXT closes (`{unparse(n_)}`) does not depend on the number of variables it lists", file=VISITORS_REL, line=vn.lineno, witness="" if per_var else "FOR K:FOR I:FOR J:NEXT J,I:NEXT")
        ctx.ob("BasicNextPatcherVisitor.named-next", per_var and capped, "" if per_var and capped else f"the count `{unparse(n_)}` is not capped by the number of open loops", file=VISITORS_REL, line=vn.lineno)
        ctx.idiom("BasicNextPatcherVisitor.bare-next", at_least_one, any(isinstance(n, ast.Call) and isinstance(n.func, ast.Attribute) and n.func.attr in ("append", "extend") for n in ast.walk(vn) if n not in pushes), "a bare NEXT is not given the innermost open FOR variable", file=VISITORS_REL, line=vn.lineno)
        return
    # `del stack[-len(vars):]` removes one entry per listed variable in one step
    del_slices = [
        d
        for d in ast.walk(vn)
        if isinstance(d, ast.Delete)
        and any(
            isinstance(t, ast.Subscript) and is_self_attr(t.value, stack) and isinstance(t.slice, ast.Slice) and t.slice.upper is None and isinstance(t.slice.lower, ast.UnaryOp) and isinstance(t.slice.lower.op, ast.USub) and isinstance(t.slice.lower.operand, ast.Call) and call_name(t.slice.lower.operand) == "len"
            for t in d.targets
        )
    ]
    # every pop is inside an `if` that requires the explicit list to be empty?
    guarded_empty_only = True
    for pnode in pops:
        conds = _enclosing_tests(vn, pnode)
        if not any(re.search(r"len\([\w.]+\)\s*==\s*0|not\s+[\w.]+exp_list", c) for c in conds):
            guarded_empty_only = False
    # is there any pop (or equivalent removal) on the path where the NEXT names variables?
    named_path_pops = bool(del_slices) or not guarded_empty_only or any(
        isinstance(n, ast.For) and any(isinstance(c, ast.Call) and isinstance(c.func, ast.Attribute) and c.func.attr in ("pop", "remove") for c in ast.walk(n)) for n in ast.walk(vn)
    )
    # on the path with an explicit list, one loop is closed per listed variable: the pop must repeat
    if named_path_pops:
        named = [pn for pn in pops if not any(re.search(r"len\([\w.]+\)\s*==\s*0|not\s+[\w.]+exp_list", c) for c in _enclosing_tests(vn, pn))]
        if del_slices:
            ctx.ob("BasicNextPatcherVisitor.named-next:per-variable", True, file=VISITORS_REL, line=del_slices[0].lineno)
        elif named:
            in_loop = False
            for pn in named:
                for n in ast.walk(vn):
                    if isinstance(n, (ast.For, ast.While)) and any(c is pn for c in ast.walk(n)):
                        if isinstance(n, ast.While) or "exp_list" in unparse(n.iter) or "var_list" in unparse(n.iter):
                            in_loop = True
            ctx.ob(
                "BasicNextPatcherVisitor.named-next:per-variable",
                in_loop,
                "" if in_loop else "`NEXT J,I` closes two loops but the FOR stack is popped once: a following bare NEXT is paired with an already closed loop and the outer FOR is never closed",
                file=VISITORS_REL,
                line=vn.lineno,
                witness="" if in_loop else "FOR K:FOR I:FOR J:NEXT J,I:NEXT",
            )
    ctx.ob(
        "BasicNextPatcherVisitor.named-next",
        named_path_pops,
        "" if named_path_pops else "the FOR stack is popped only for a bare NEXT; `NEXT J` leaves J on the stack, so a following bare NEXT is paired with the already closed loop",
        file=VISITORS_REL,
        line=vn.lineno,
        witness="" if named_path_pops else "10 FOR I=1 TO 2:FOR J=1 TO 2:NEXT J:NEXT  -> NEXT J twice",
    )
    # the bare path appends the popped variable to the NEXT's own list
    app = any(isinstance(n, ast.Call) and isinstance(n.func, ast.Attribute) and n.func.attr == "append" and any(p is a or p in list(ast.walk(a)) for a in n.args for p in pops) for n in ast.walk(vn))
    ctx.ob("BasicNextPatcherVisitor.bare-next", app, "" if app else "a bare NEXT is not given the innermost open FOR variable", file=VISITORS_REL, line=vn.lineno)


def _enclosing_tests(fn: ast.AST, node: ast.AST) -> List[str]:
    out: List[str] = []

    def rec(n, acc):
        if n is node:
            out.extend(acc)
            return True
        for c in ast.iter_child_nodes(n):
            a2 = acc
            if isinstance(n, ast.If) and c in n.body:
                a2 = acc + [unparse(n.test)]
            if rec(c, a2):
                return True
        return False

    rec(fn, [])
    return out


# ---------------------------------------------------------------------------
# E6 PASS-EFFECTS

# visitor class -> mutations it may perform on program objects (attribute stores / mutator calls on parameters)
E6_ALLOWED = {
    "LineNumberFilterVisitor": {"call:set_is_referenced"},
    "LineZeroFilterVisitor": {"call:set_is_referenced"},
    "SetDimStringStorageVisitor": {"store:default_str_storage", "store:strname_to_size"},
    "SetInitializeVisitor": {"store:initialize_vars"},
    "BasicReadStatementPatcherVisitor": {"store:literal", "call:get_new_temp", "store:rhs_list[]", "store:exp_list[]"},
    "BasicNextPatcherVisitor": {"call:append"},
    "BasicFunctionalExpressionPatcherVisitor": {"call:set_var", "call:transform_function_to_call"},
}
E6_REQUIRED = {
    "LineNumberFilterVisitor": {"call:set_is_referenced"},
    "LineZeroFilterVisitor": {"call:set_is_referenced"},
    "SetInitializeVisitor": {"store:initialize_vars"},
    "SetDimStringStorageVisitor": {"store:default_str_storage", "store:strname_to_size"},
    "BasicFunctionalExpressionPatcherVisitor": {"call:set_var", "call:transform_function_to_call"},
}
PURE_CALLS = {"name", "copy", "endswith", "startswith", "basic09_text", "items", "keys", "values", "get", "index", "join", "upper", "lower"}


def _effects(py, cls: str) -> Dict[str, int]:
    """Mutations performed through the parameters of the visit_* callbacks of `cls`."""
    out: Dict[str, int] = {}
    # self attributes that hold a program object handed to a callback (`self._statement = statement`)
    held: Set[str] = set()
    for name, fn in _own_methods(py, cls).items():
        if name.startswith("visit_"):
            ps = {a.arg for a in fn.args.args[1:]}
            for n in ast.walk(fn):
                if isinstance(n, ast.Assign) and isinstance(n.value, ast.Name) and n.value.id in ps:
                    for t in n.targets:
                        if is_self_attr(t):
                            held.add(t.attr)
    for name, fn in _own_methods(py, cls).items():
        if not name.startswith("visit_"):
            continue
        for n in ast.walk(fn):
            if isinstance(n, ast.Call) and isinstance(n.func, ast.Attribute) and is_self_attr(n.func.value) and n.func.value.attr in held and n.func.attr not in PURE_CALLS:
                out[f"call:{n.func.attr}"] = n.lineno
            if isinstance(n, ast.Assign):
                for t in n.targets:
                    if isinstance(t, ast.Attribute) and is_self_attr(t.value) and t.value.attr in held:
                        out[f"store:{t.attr}"] = n.lineno
        params = {a.arg for a in fn.args.args[1:]}
        derived = set(params)
        # locals bound from parameters (for x in statement.rhs_list, enumerate(...))
        for _round in range(3):
            for n in ast.walk(fn):
                if isinstance(n, (ast.For, ast.comprehension)):
                    if names_loaded(n.iter) & derived:
                        for t in ast.walk(n.target):
                            if isinstance(t, ast.Name):
                                derived.add(t.id)
                # plain local aliases of (parts of) the program objects: rhs = statement.exp
                if isinstance(n, ast.Assign) and len(n.targets) == 1 and isinstance(n.targets[0], ast.Name) and isinstance(n.value, (ast.Attribute, ast.Subscript, ast.Name)) and names_loaded(n.value) & derived:
                    derived.add(n.targets[0].id)
        for n in ast.walk(fn):
            if isinstance(n, (ast.Assign, ast.AugAssign)):
                tg = n.targets if isinstance(n, ast.Assign) else [n.target]
                for t in tg:
                    if isinstance(t, ast.Attribute) and names_loaded(t.value) & derived and not is_self_attr(t):
                        out[f"store:{t.attr}"] = n.lineno
                    if isinstance(t, ast.Subscript) and names_loaded(t.value) & derived:
                        base = t.value
                        if isinstance(base, ast.Name):
                            # a local alias of a list of the program: report the list it stands for
                            from .pyast import resolve_alias as _ra

                            base = _ra(fn, base)
                        nm = base.attr if isinstance(base, ast.Attribute) else unparse(base)
                        out[f"store:{nm}[]"] = n.lineno
            if isinstance(n, ast.Call) and isinstance(n.func, ast.Attribute) and names_loaded(n.func.value) & derived:
                root = n.func.value
                while isinstance(root, (ast.Attribute, ast.Subscript, ast.Call)):
                    root = root.value if not isinstance(root, ast.Call) else root.func
                if isinstance(root, ast.Name) and root.id in derived and n.func.attr not in PURE_CALLS:
                    out[f"call:{n.func.attr}"] = n.lineno
            if isinstance(n, ast.Delete):
                for t in n.targets:
                    obj_ = t.value if isinstance(t, (ast.Subscript, ast.Attribute)) else t
                    if names_loaded(obj_) & derived:  # (the object deleted from - not names that only occur in the index)
                        out["delete"] = n.lineno
    return out


def _zero_guard(vl: ast.FunctionDef, guards: List[ast.If]) -> Optional[bool]:
    """Does the single guard of visit_line let exactly line number 0 through?  None: not a form this reads."""
    if len(guards) != 1:
        return False if not guards else None
    g = guards[0]

    def num_test(t) -> Optional[str]:
        """'zero' / 'nonzero' / 'other' for a test on `<x>.num`"""
        if isinstance(t, ast.UnaryOp) and isinstance(t.op, ast.Not):
            r = num_test(t.operand)
            return {"zero": "nonzero", "nonzero": "zero"}.get(r, r)
        if isinstance(t, ast.Attribute) and t.attr == "num":
            return "nonzero"
        if isinstance(t, ast.Compare) and len(t.ops) == 1:
            a, b = t.left, t.comparators[0]
            if isinstance(b, ast.Attribute) and b.attr == "num" and isinstance(a, ast.Constant):
                a, b = b, a
            if isinstance(a, ast.Attribute) and a.attr == "num" and isinstance(b, ast.Constant) and isinstance(b.value, int) and not isinstance(b.value, bool):
                if isinstance(t.ops[0], ast.Eq):
                    return "zero" if b.value == 0 else "other"
                if isinstance(t.ops[0], ast.NotEq):
                    return "nonzero" if b.value == 0 else "other"
                return "other"
        return None

    k = num_test(g.test)
    if k is None:
        return None
    body_sets = any(isinstance(c, ast.Call) and isinstance(c.func, ast.Attribute) and c.func.attr == "set_is_referenced" for n in g.body for c in ast.walk(n))
    else_sets = any(isinstance(c, ast.Call) and isinstance(c.func, ast.Attribute) and c.func.attr == "set_is_referenced" for n in g.orelse for c in ast.walk(n))
    leaves = bool(g.body) and isinstance(g.body[-1], (ast.Return, ast.Continue)) and not g.orelse
    if body_sets and not else_sets:
        return k == "zero"
    if (else_sets and not body_sets) or (leaves and not body_sets):
        return k == "nonzero"
    return None


@rule("E6", "PASS-EFFECTS: each pass mutates program objects only in the ways allowed for it", ["C06", "C11", "C02", "C09"], floor=15, default_props=["C06", "C11"])
def e6(ctx: Ctx):
    py = pyfacts(ctx)
    classes = _visitor_classes(py)
    ctx.need(len(classes) >= 15, BASE_VISITOR, f"only {len(classes)} visitor classes found")
    for cls in sorted(classes):
        eff = _effects(py, cls)
        allowed = E6_ALLOWED.get(cls, set())
        extra = sorted(set(eff) - allowed)
        missing = sorted(E6_REQUIRED.get(cls, set()) - set(eff))
        ci = py.cls(cls)
        msg = ""
        if extra:
            msg += f"pass `{cls}` mutates program objects through {extra} (allowed: {sorted(allowed) or 'nothing'})"
        if missing:
            msg += ("; " if msg else "") + f"pass `{cls}` no longer performs {missing}"
        # (the NEXT patcher may only *add* the variable of a bare NEXT: a store into the list rewrites a variable the source names)
        ctx.ob(cls, not extra and not missing, msg, file=ci.module, line=ci.node.lineno, facts={"effects": sorted(eff)}, props=["C06", "C11", "C02", "C09"] if cls == "BasicNextPatcherVisitor" else None)
    # BasicLine prints its statements on both sides of the is_referenced test
    from .emit import emitmodel

    em = emitmodel(ctx)
    r = py.resolve_method("BasicLine", "basic09_text")
    ctx.need(r is not None, "BasicLine.basic09_text", "not found")
    w = em.walk("BasicLine", "basic09_text")
    rets = w.returns
    prints_per_return = []
    from .pyast import resolve_alias as _ra

    def _prints_statements(e: ast.AST, depth: int = 0) -> bool:
        """The expression contains the text of the statements - directly or through a local computed from it."""
        for c in ast.walk(e):
            if isinstance(c, ast.Call) and isinstance(c.func, ast.Attribute) and c.func.attr == "basic09_text" and "_statements" in unparse(c.func.value):
                return True
            if isinstance(c, ast.Name) and isinstance(c.ctx, ast.Load) and depth < 3:
                v_ = _ra(r[1], c)
                if v_ is not c and _prints_statements(v_, depth + 1):
                    return True
        return False

    for ret, _, _ in rets:
        prints_per_return.append(ret.value is not None and _prints_statements(ret.value))
    ok = bool(rets) and all(prints_per_return)
    ctx.ob("BasicLine:statements-on-every-path", ok, "" if ok else "BasicLine.basic09_text drops its statements on a path (label filtering would remove code)", file=r[0].module, line=r[1].lineno)
    # set_is_referenced touches only the flag
    sr = py.resolve_method("BasicLine", "set_is_referenced")
    ctx.need(sr is not None, "BasicLine.set_is_referenced", "not found")
    stores = {t.attr for n in ast.walk(sr[1]) if isinstance(n, ast.Assign) for t in n.targets if is_self_attr(t)}
    ctx.ob("BasicLine.set_is_referenced:only-flag", stores == {"_is_referenced"}, "" if stores == {"_is_referenced"} else f"set_is_referenced writes {sorted(stores)}", file=sr[0].module, line=sr[1].lineno)
    # the zero filter only looks at line 0; the full filter marks by membership
    for cls, needs_zero in (("LineZeroFilterVisitor", True), ("LineNumberFilterVisitor", False)):
        rvl = py.resolve_method(cls, "visit_line")
        ctx.need(rvl is not None, f"{cls}.visit_line", "not found")
        vl = rvl[1]
        src = unparse(vl)
        # the flag passed to set_is_referenced, seen through local temporaries: `<line>.num in self._references`
        member = None
        for c_ in ast.walk(vl):
            if isinstance(c_, ast.Call) and isinstance(c_.func, ast.Attribute) and c_.func.attr == "set_is_referenced" and len(c_.args) == 1:
                a_ = _ra(vl, c_.args[0])
                if isinstance(a_, ast.Constant):
                    member = False
                else:
                    # decided on values: the flag has to equal `<line number> in <references>` for the numbers 0 and 7, present and absent
                    class _R(ast.NodeTransformer):
                        def visit_Attribute(self, n_):
                            if n_.attr == "num":
                                return ast.copy_location(ast.Name(id="num__", ctx=ast.Load()), n_)
                            if unparse(n_) == "self._references":
                                return ast.copy_location(ast.Name(id="refs__", ctx=ast.Load()), n_)
                            self.generic_visit(n_)
                            return n_

                    import copy as _copy

                    e_ = _R().visit(_copy.deepcopy(a_))
                    try:
                        verdicts = [bool(_guard_eval(e_, {"num__": v_, "refs__": refs_})) == (v_ in refs_) for v_ in (0, 7) for refs_ in ({v_}, {v_ + 1}, set())]
                        member = all(verdicts)
                    except _GuardUnknown:
                        member = None
        if member is None:
            ctx.undecided(f"{cls}:membership", "the flag given to set_is_referenced is not a plain membership test", file=VISITORS_REL, line=vl.lineno)
            continue
        guards = [n for n in ast.walk(vl) if isinstance(n, ast.If)]
        # a guard through an overridable hook (`if self._is_candidate(line)`) is judged on the hook each class provides
        hooks = [g.test.func.attr for g in guards if isinstance(g.test, ast.Call) and isinstance(g.test.func, ast.Attribute) and isinstance(g.test.func.value, ast.Name) and g.test.func.value.id == "self"]
        if hooks and len(guards) == 1:
            hk = py.resolve_method(cls, hooks[0])
            rets = [r_.value for r_ in ast.walk(hk[1]) if isinstance(r_, ast.Return) and r_.value is not None] if hk else []
            if len(rets) == 1:
                rt = unparse(rets[0]).replace(" ", "")
                zero = re.fullmatch(r"\w+\.num==0", rt) is not None
                always = rt == "True"
                ok = member and (zero if needs_zero else always)
                ctx.ob(f"{cls}:membership", ok, "" if ok else f"`{cls}` marks lines under `{unparse(rets[0])}`: the flag has to be `line.num in references`" + (" only for line 0" if needs_zero else " for every line"), file=VISITORS_REL, line=vl.lineno)
                continue
        zero = _zero_guard(vl, guards)
        if needs_zero and zero is None:
            ctx.undecided(f"{cls}:membership", "the test that selects line 0 is not one of the recognised forms", file=VISITORS_REL, line=vl.lineno)
            continue
        ok = member and (bool(zero) if needs_zero else not guards)
        ctx.ob(f"{cls}:membership", ok, "" if ok else f"`{cls}.visit_line` does not set the flag to `line.num in references`" + (" only for line 0" if needs_zero else " for every line"), file=VISITORS_REL, line=vl.lineno)
