"""Checker self-validation (thorough tier): seeded-fault variants of the current tree.  Filled in later."""


def run_selftest(ctx, pid) -> int:
    return 0
