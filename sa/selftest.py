"""Checker self-validation (thorough tier).

From the *current working tree* of the repository, in a temporary directory outside /repo and /verif:
  * behaviour-preserving twins (re-formatted source; locals and callback parameters renamed; library text
    with changed keyword case and extra blank/comment lines) - the rules of the property must stay silent;
  * every confirmed seeded fault under /verif/seeded whose expected detection includes the property
    (applied with `patch`) - the rules must report a violation.
A twin that raises an alarm or a seed that is no longer detected means the checker is broken: reported as
`ANALYSIS-ERROR selftest ...`, exit status 2.  Variants are evaluated by a process pool (16 workers).
"""

from __future__ import annotations

import ast
import json
import os
import re
import shutil
import subprocess
import sys
import tempfile
from concurrent.futures import ProcessPoolExecutor
from pathlib import Path
from typing import Dict, List, Optional, Tuple

from . import core

SEEDED = core.VERIF / "seeded"
REFACTORS = core.VERIF / "refactors"


# ---------------------------------------------------------------------------
# twins


class _Ren(ast.NodeTransformer):
    def __init__(self, mapping):
        self.m = mapping

    def visit_Name(self, n):
        if n.id in self.m:
            n.id = self.m[n.id]
        return n

    def visit_arg(self, n):
        if n.arg in self.m:
            n.arg = self.m[n.arg]
        return n


def _rename_fn(fn: ast.FunctionDef, rename_params: bool):
    stored = set()
    for x in ast.walk(fn):
        if isinstance(x, ast.Name) and isinstance(x.ctx, ast.Store):
            stored.add(x.id)
        if isinstance(x, (ast.Global, ast.Nonlocal)):
            return
    if any(isinstance(x, (ast.FunctionDef, ast.Lambda)) and x is not fn for x in ast.walk(fn)):
        return
    params = {a.arg for a in fn.args.args + fn.args.kwonlyargs}
    ren = {n: n + "_r" for n in stored if n not in params and not n.startswith("__")}
    if rename_params:
        for a in fn.args.args[1:]:
            if a.arg != "_":
                ren[a.arg] = a.arg + "_p"
    _Ren(ren).visit(fn)


def _rename_deep(fn: ast.FunctionDef):
    """Rename every local (also inside nested closures) of a function consistently; parameters keep their names."""
    params = {a.arg for a in fn.args.args + fn.args.kwonlyargs}
    stored = set()
    for x in ast.walk(fn):
        if isinstance(x, ast.Name) and isinstance(x.ctx, ast.Store):
            stored.add(x.id)
        if isinstance(x, ast.arg) and x.arg not in params:
            stored.add(x.arg)
        if isinstance(x, ast.FunctionDef) and x is not fn:
            stored.add(x.name)
    ren = {n: n + "_r" for n in stored if n not in params}
    for x in ast.walk(fn):
        if isinstance(x, ast.Name) and x.id in ren:
            x.id = ren[x.id]
        elif isinstance(x, ast.arg) and x.arg in ren:
            x.arg = ren[x.arg]
        elif isinstance(x, ast.FunctionDef) and x is not fn and x.name in ren:
            x.name = ren[x.name]


def make_twin(repo: Path, dst: Path, kind: str):
    shutil.copytree(repo / "coco", dst / "coco", ignore=shutil.ignore_patterns("__pycache__", "*.pyc"))
    if kind == "reformat":
        for p in (dst / "coco").rglob("*.py"):
            p.write_text(ast.unparse(ast.parse(p.read_text())) + "\n")
    elif kind == "rename":
        for rel in ("parser.py", "visitors.py", "elements.py", "procbank.py", "prog.py", "error_handler.py"):
            p = dst / "coco" / "b09" / rel
            t = ast.parse(p.read_text())
            for c in t.body:
                if isinstance(c, ast.ClassDef):
                    for f in c.body:
                        if isinstance(f, ast.FunctionDef):
                            isvis = f.name.startswith("visit") or f.name == "generic_visit"
                            _rename_fn(f, isvis and f.name != "__init__")
                elif isinstance(c, ast.FunctionDef) and c.name not in ("convert", "convert_file", "generate", "start", "main"):
                    _rename_fn(c, False)
            p.write_text(ast.unparse(t) + "\n")
    elif kind == "rename-decoders":
        for name in ("hrstoppm", "pixtopgm", "maxtoppm", "mgetoppm", "cm3toppm", "rattoppm", "veftopng"):
            p = dst / "coco" / f"{name}.py"
            t = ast.parse(p.read_text())
            for c in t.body:
                if isinstance(c, ast.FunctionDef) and c.name in ("convert", "unsquash"):
                    _rename_deep(c)
            p.write_text(ast.unparse(t) + "\n")
    elif kind == "reorder":
        # methods of a class in reverse order (accessors of one property stay together and in order)
        for rel in ("parser.py", "visitors.py", "elements.py", "procbank.py", "prog.py", "error_handler.py"):
            p = dst / "coco" / "b09" / rel
            t = ast.parse(p.read_text())
            for c in t.body:
                if isinstance(c, ast.ClassDef):
                    head = [x for x in c.body if not isinstance(x, ast.FunctionDef)]
                    groups: Dict[str, list] = {}
                    for x in c.body:
                        if isinstance(x, ast.FunctionDef):
                            gname = x.name
                            for d in x.decorator_list:
                                if isinstance(d, ast.Attribute) and isinstance(d.value, ast.Name) and d.attr in ("setter", "getter", "deleter"):
                                    gname = d.value.id
                            groups.setdefault(gname, []).append(x)
                    c.body = head + [f for name in reversed(list(groups)) for f in groups[name]]
            p.write_text(ast.unparse(t) + "\n")
    elif kind == "library-layout":
        p = dst / "coco" / "resources" / "ecb.b09"
        out = []
        for ln in re.split(r"(\r\n|\r|\n)", p.read_text()):
            if ln in ("\r\n", "\r", "\n"):
                out.append(ln)
                continue
            s = ln
            # keyword case is insignificant in BASIC09; so is an extra comment line in front of a procedure
            s = re.sub(r"^(\s*)(param|dim|type)\b", lambda m: m.group(1) + m.group(2).upper(), s)
            s = re.sub(r"^(\s*)(ENDIF|ENDWHILE|ENDLOOP|ENDEXIT|NEXT)\b", lambda m: m.group(1) + m.group(2).lower(), s)
            out.append(s)
        p.write_text("".join(out))
    else:
        raise ValueError(kind)


TWINS = ["reformat", "rename", "rename-decoders", "reorder", "library-layout"]


# ---------------------------------------------------------------------------


def _run_variant(args) -> dict:
    """Worker: evaluate property `pid` on a variant tree; returns new-violation keys and errors."""
    kind, name, pid, repo = args
    tmp = Path(tempfile.mkdtemp(prefix="sa_selftest_"))
    try:
        if kind == "twin":
            make_twin(Path(repo), tmp, name)
        elif kind == "refactor":
            shutil.copytree(Path(repo) / "coco", tmp / "coco", ignore=shutil.ignore_patterns("__pycache__", "*.pyc"))
            pr = subprocess.run(["patch", "-p1", "-s", "-d", str(tmp), "-i", str(REFACTORS / name / "patch.diff")], capture_output=True, text=True)
            if pr.returncode != 0:
                return {"kind": kind, "name": name, "skipped": "patch does not apply to the current tree: " + (pr.stdout + pr.stderr)[-200:]}
        else:
            shutil.copytree(Path(repo) / "coco", tmp / "coco", ignore=shutil.ignore_patterns("__pycache__", "*.pyc"))
            patch = SEEDED / name / "patch.diff"
            pr = subprocess.run(["patch", "-p1", "-s", "-d", str(tmp), "-i", str(patch)], capture_output=True, text=True)
            if pr.returncode != 0:
                return {"kind": kind, "name": name, "skipped": "patch does not apply to the current tree: " + (pr.stdout + pr.stderr)[-200:]}
        from .check import load_rules

        load_rules()
        ctx = core.Ctx(tmp, "thorough")
        rids, obligations, errors, new, known_hit = core.evaluate_property(ctx, pid)
        return {
            "kind": kind,
            "name": name,
            "new": sorted({f.key for f in new}),
            "errors": [str(e)[:200] for e in errors],
            "instances": len([o for o in obligations if not o.info]),
        }
    except Exception as e:  # a crashing variant is a checker failure, reported by the caller
        return {"kind": kind, "name": name, "crash": f"{type(e).__name__}: {e}"}
    finally:
        shutil.rmtree(tmp, ignore_errors=True)


def seeds_for(pid: str) -> List[str]:
    out = []
    if not SEEDED.is_dir():
        return out
    for d in sorted(SEEDED.iterdir()):
        mf = d / "meta.json"
        if not mf.exists() or not (d / "patch.diff").exists():
            continue
        try:
            m = json.loads(mf.read_text())
        except Exception:
            continue
        if m.get("confirmed") and pid in (m.get("detected_by_checks") or []):
            out.append(d.name)
    return out


def refactors() -> Dict[str, bool]:
    """Confirmed behaviour-preserving refactorings written by independent sub-agents: name -> must the analysis also
    stay free of ANALYSIS-ERRORs (True), or is `cannot decide` the recorded, accepted outcome (False)."""
    out: Dict[str, bool] = {}
    if not REFACTORS.is_dir():
        return out
    for d in sorted(REFACTORS.iterdir()):
        mf = d / "meta.json"
        if not mf.exists() or not (d / "patch.diff").exists():
            continue
        try:
            m = json.loads(mf.read_text())
        except Exception:
            continue
        if m.get("confirmed"):
            out[d.name] = not m.get("analysis_errors")
    return out


def run_selftest(ctx: core.Ctx, pid: str) -> Tuple[int, dict]:
    refs = refactors()
    tasks = [("twin", k, pid, str(ctx.repo)) for k in TWINS] + [("refactor", k, pid, str(ctx.repo)) for k in refs] + [("seed", s, pid, str(ctx.repo)) for s in seeds_for(pid)]
    workers = min(16, max(1, len(tasks)))
    with ProcessPoolExecutor(max_workers=workers) as ex:
        results = list(ex.map(_run_variant, tasks))
    status = 0
    summary = {"twins": {}, "seeds": {}, "skipped": []}
    for r in results:
        if "crash" in r:
            print(f"ANALYSIS-ERROR selftest {r['kind']}:{r['name']}: checker crashed on the variant: {r['crash']}")
            status = 2
            continue
        if "skipped" in r:
            summary["skipped"].append({r["name"]: r["skipped"]})
            continue
        if r["kind"] == "refactor":
            strict = refs.get(r["name"], True)
            summary.setdefault("refactorings", {})[r["name"]] = {"alarms": r["new"], "errors": len(r["errors"]), "errors_accepted": not strict}
            if r["new"] or (r["errors"] and strict):
                print(f"ANALYSIS-ERROR selftest refactor:{r['name']}: a behaviour-preserving refactoring raises {r['new'] or r['errors'][:2]} for {pid}")
                status = 2
            continue
        if r["kind"] == "twin":
            summary["twins"][r["name"]] = {"instances": r["instances"], "alarms": r["new"], "errors": r["errors"]}
            if r["new"] or r["errors"]:
                print(f"ANALYSIS-ERROR selftest twin:{r['name']}: a behaviour-preserving variant raises {r['new'] or r['errors']} for {pid}")
                status = 2
        else:
            summary["seeds"][r["name"]] = {"reported": r["new"][:4]}
            if not r["new"]:
                print(f"ANALYSIS-ERROR selftest seed:{r['name']}: the seeded fault is no longer reported for {pid}")
                status = 2
    n_t, n_s, n_r = len(summary["twins"]), len(summary["seeds"]), len(summary.get("refactorings", {}))
    print(f"selftest {pid}: {n_t} generated twins and {n_r} independent refactorings silent, {n_s} seeded faults detected, {len(summary['skipped'])} skipped" if status == 0 else f"selftest {pid}: FAILED")
    return status, summary
