"""M10: facts about the image decoders (bit-vector evaluation, sample-count polynomials)."""

from __future__ import annotations

import ast
import copy
from dataclasses import dataclass, field
from typing import Dict, List, Optional, Tuple, Union

from .core import AnalysisError, Ctx
from .pyast import Module, call_name, pyfacts, unparse

DECODERS = {
    "hrstoppm": "coco/hrstoppm.py",
    "pixtopgm": "coco/pixtopgm.py",
    "maxtoppm": "coco/maxtoppm.py",
    "mgetoppm": "coco/mgetoppm.py",
    "cm3toppm": "coco/cm3toppm.py",
    "rattoppm": "coco/rattoppm.py",
    "veftopng": "coco/veftopng.py",
}

# ---------------------------------------------------------------------------
# bit vectors: list of bits, least significant first; a bit is 0, 1 or ("b", var, k)

Bit = Union[int, Tuple[str, str, int]]
WIDTH = 16


class BitEvalError(Exception):
    pass


def const_bits(v: int) -> List[Bit]:
    if v < 0:
        raise BitEvalError("negative constant")
    return [(v >> i) & 1 for i in range(WIDTH)]


def var_bits(name: str, width: int = 8) -> List[Bit]:
    return [("b", name, i) if i < width else 0 for i in range(WIDTH)]


def as_const(bits: List[Bit]) -> Optional[int]:
    if all(isinstance(b, int) for b in bits):
        return sum(b << i for i, b in enumerate(bits))
    return None


def trim(bits: List[Bit]) -> List[Bit]:
    out = list(bits)
    while out and out[-1] == 0:
        out.pop()
    return out


def bit_eval(e: ast.AST, env: Dict[str, object]) -> List[Bit]:
    """Evaluate an integer expression over symbolic input bytes to a bit vector.
    env maps names to bit vectors (symbolic bytes) or ints (loop indices, constants)."""
    if isinstance(e, ast.Constant) and isinstance(e.value, int) and not isinstance(e.value, bool):
        return const_bits(e.value)
    if isinstance(e, ast.Name):
        if e.id in env:
            v = env[e.id]
            return const_bits(v) if isinstance(v, int) else list(v)
        raise BitEvalError(f"unknown name {e.id}")
    if isinstance(e, ast.BinOp):
        op = e.op
        if isinstance(op, (ast.RShift, ast.LShift)):
            a = bit_eval(e.left, env)
            n = as_const(bit_eval(e.right, env))
            if n is None:
                raise BitEvalError("symbolic shift amount")
            if isinstance(op, ast.RShift):
                return (a[n:] + [0] * n)[:WIDTH]
            return ([0] * n + a)[:WIDTH]
        a, b = bit_eval(e.left, env), bit_eval(e.right, env)
        ca, cb = as_const(a), as_const(b)
        if isinstance(op, ast.BitAnd):
            out = []
            for x, y in zip(a, b):
                if x == 0 or y == 0:
                    out.append(0)
                elif x == 1:
                    out.append(y)
                elif y == 1:
                    out.append(x)
                elif x == y:
                    out.append(x)
                else:
                    raise BitEvalError("and of two symbolic bits")
            return out
        if isinstance(op, (ast.BitOr, ast.Add)):
            if ca is not None and cb is not None:
                return const_bits(ca + cb if isinstance(op, ast.Add) else ca | cb)
            out = []
            for x, y in zip(a, b):
                if x == 0:
                    out.append(y)
                elif y == 0:
                    out.append(x)
                elif isinstance(op, ast.BitOr) and (x == 1 or y == 1):
                    out.append(1)
                else:
                    raise BitEvalError("overlapping bits in sum")
            return out
        if isinstance(op, ast.Sub):
            if ca is not None and cb is not None:
                return const_bits(ca - cb)
            raise BitEvalError("symbolic subtraction")
        if isinstance(op, ast.Mult):
            if ca is not None and cb is not None:
                return const_bits(ca * cb)
            if ca is not None:
                a, b, ca, cb = b, a, cb, ca
            if cb is None:
                raise BitEvalError("product of two symbolic values")
            # multiply by a constant = sum of shifted copies (must not overlap)
            acc = [0] * WIDTH
            for i in range(WIDTH):
                if (cb >> i) & 1:
                    sh = ([0] * i + a)[:WIDTH]
                    nxt = []
                    for x, y in zip(acc, sh):
                        if x == 0:
                            nxt.append(y)
                        elif y == 0:
                            nxt.append(x)
                        else:
                            raise BitEvalError("overlapping bits in product")
                    acc = nxt
            return acc
        if isinstance(op, ast.FloorDiv):
            if cb is not None and cb > 0 and (cb & (cb - 1)) == 0:
                n = cb.bit_length() - 1
                return (a[n:] + [0] * n)[:WIDTH]
            raise BitEvalError("division")
        raise BitEvalError(f"operator {type(op).__name__}")
    if isinstance(e, ast.Call) and call_name(e) == "getbit" and len(e.args) == 2:
        a = bit_eval(e.args[0], env)
        n = as_const(bit_eval(e.args[1], env))
        if n is None:
            raise BitEvalError("symbolic bit index")
        return [a[n] if n < WIDTH else 0] + [0] * (WIDTH - 1)
    if isinstance(e, ast.UnaryOp) and isinstance(e.op, ast.USub):
        c = as_const(bit_eval(e.operand, env))
        raise BitEvalError("negative")
    raise BitEvalError(f"expression {unparse(e)}")


def bits_of(bits: List[Bit], var: str) -> List[Optional[int]]:
    """For a trimmed vector made only of bits of `var`: the bit indices, LSB first."""
    out = []
    for b in trim(bits):
        if isinstance(b, tuple) and b[1] == var:
            out.append(b[2])
        else:
            out.append(None)
    return out


# ---------------------------------------------------------------------------
# polynomials over opaque atoms (sample counts)


class Poly:
    def __init__(self, terms: Optional[Dict[Tuple[str, ...], int]] = None):
        self.terms = {k: v for k, v in (terms or {}).items() if v != 0}

    @classmethod
    def const(cls, c: int) -> "Poly":
        return cls({(): c})

    @classmethod
    def atom(cls, a: str) -> "Poly":
        return cls({(a,): 1})

    def __add__(self, o: "Poly") -> "Poly":
        t = dict(self.terms)
        for k, v in o.terms.items():
            t[k] = t.get(k, 0) + v
        return Poly(t)

    def __mul__(self, o: "Poly") -> "Poly":
        t: Dict[Tuple[str, ...], int] = {}
        for k1, v1 in self.terms.items():
            for k2, v2 in o.terms.items():
                k = tuple(sorted(k1 + k2))
                t[k] = t.get(k, 0) + v1 * v2
        return Poly(t)

    def __eq__(self, o) -> bool:
        return isinstance(o, Poly) and self.terms == o.terms

    def is_const(self) -> Optional[int]:
        if not self.terms:
            return 0
        if set(self.terms) == {()}:
            return self.terms[()]
        return None

    def __repr__(self):
        if not self.terms:
            return "0"
        parts = []
        for k, v in sorted(self.terms.items()):
            parts.append("*".join(([str(v)] if v != 1 or not k else []) + list(k)))
        return " + ".join(parts)

    def normalise(self) -> Tuple["Poly", List[str]]:
        """Rewrite c*floordiv(X,c) -> X and 2^k*rshift(X,k) -> X; return the divisibility side conditions used."""
        conds: List[str] = []
        t: Dict[Tuple[str, ...], int] = {}
        for k, v in self.terms.items():
            k = list(k)
            changed = True
            while changed:
                changed = False
                for a in k:
                    if a.startswith("floordiv(") or a.startswith("rshift("):
                        inner, c = a[a.index("(") + 1 : -1].rsplit(",", 1)
                        c = int(c)
                        d = c if a.startswith("floordiv(") else 2 ** c
                        if d != 0 and v % d == 0:
                            v //= d
                            k.remove(a)
                            k.append(inner)
                            conds.append(f"{d} divides {inner}")
                            changed = True
                            break
            kk = tuple(sorted(k))
            t[kk] = t.get(kk, 0) + v
        return Poly(t), conds


def poly_eval(e: ast.AST, env: Dict[str, Poly]) -> Poly:
    if isinstance(e, ast.Constant) and isinstance(e.value, int):
        return Poly.const(e.value)
    if isinstance(e, ast.Name):
        if e.id in env:
            return env[e.id]
        return Poly.atom(e.id)
    if isinstance(e, ast.UnaryOp) and isinstance(e.op, ast.USub):
        return poly_eval(e.operand, env) * Poly.const(-1)
    if isinstance(e, ast.BinOp):
        if isinstance(e.op, ast.Add):
            return poly_eval(e.left, env) + poly_eval(e.right, env)
        if isinstance(e.op, ast.Sub):
            return poly_eval(e.left, env) + poly_eval(e.right, env) * Poly.const(-1)
        if isinstance(e.op, ast.Mult):
            return poly_eval(e.left, env) * poly_eval(e.right, env)
        if isinstance(e.op, (ast.FloorDiv, ast.RShift, ast.LShift)):
            l, r = poly_eval(e.left, env), poly_eval(e.right, env)
            rc, lc = r.is_const(), l.is_const()
            if rc is not None and lc is not None:
                if isinstance(e.op, ast.FloorDiv):
                    return Poly.const(lc // rc)
                if isinstance(e.op, ast.RShift):
                    return Poly.const(lc >> rc)
                return Poly.const(lc << rc)
            if rc is not None:
                if isinstance(e.op, ast.LShift):
                    return l * Poly.const(2 ** rc)
                # exact division of every coefficient?
                d = rc if isinstance(e.op, ast.FloorDiv) else 2 ** rc
                if all(v % d == 0 for v in l.terms.values()):
                    return Poly({k: v // d for k, v in l.terms.items()})
                nm = "floordiv" if isinstance(e.op, ast.FloorDiv) else "rshift"
                return Poly.atom(f"{nm}({l!r},{rc})")
    if isinstance(e, ast.Call):
        cn = call_name(e)
        if cn == "int" and e.args:
            inner = e.args[0]
            return Poly.atom(f"int({unparse(inner)})")
        if cn == "len" and e.args:
            return Poly.atom(f"len({unparse(e.args[0])})")
        if cn == "getbit":
            if len(e.args) == 2:
                a, b = poly_eval(e.args[0], env).is_const(), poly_eval(e.args[1], env).is_const()
                if a is not None and b is not None:
                    return Poly.const((a >> b) & 1)
            return Poly.atom(unparse(e))
        if cn == "ord":
            return Poly.atom("<file byte>")
    if isinstance(e, ast.IfExp):
        t = poly_test(e.test, env)
        if t is not None:
            return poly_eval(e.body if t else e.orelse, env)
        a, b = poly_eval(e.body, env), poly_eval(e.orelse, env)
        if a == b:
            return a
    return Poly.atom(f"<{unparse(e)}>")


def poly_test(t: ast.AST, env: Dict[str, Poly]) -> Optional[bool]:
    """Truth value of a test whose operands are constants of the environment (None: not decidable)."""
    if isinstance(t, ast.UnaryOp) and isinstance(t.op, ast.Not):
        v = poly_test(t.operand, env)
        return None if v is None else not v
    if isinstance(t, ast.BoolOp):
        vs = [poly_test(x, env) for x in t.values]
        if isinstance(t.op, ast.And):
            return False if any(v is False for v in vs) else (None if any(v is None for v in vs) else True)
        return True if any(v is True for v in vs) else (None if any(v is None for v in vs) else False)
    if isinstance(t, ast.Compare) and len(t.ops) == 1:
        a, b = poly_eval(t.left, env).is_const(), poly_eval(t.comparators[0], env).is_const()
        if a is None or b is None:
            return None
        return {ast.Eq: a == b, ast.NotEq: a != b, ast.Lt: a < b, ast.LtE: a <= b, ast.Gt: a > b, ast.GtE: a >= b}.get(type(t.ops[0]))
    c = poly_eval(t, env).is_const()
    return None if c is None else bool(c)


def _has_continue(st: ast.AST) -> bool:
    """A `continue` of the enclosing loop somewhere inside st (not inside a nested loop or function)."""
    stack = [st]
    while stack:
        n = stack.pop()
        if isinstance(n, ast.Continue):
            return True
        for c in ast.iter_child_nodes(n):
            if not isinstance(c, (ast.For, ast.While, ast.FunctionDef, ast.Lambda)):
                stack.append(c)
    return False


def _absorb_continue(block: List[ast.stmt], cont: List[ast.stmt]) -> List[ast.stmt]:
    """The statement list with every `continue` removed: what would have followed on the paths that do not continue
    (`cont`) is moved into the branches (copied where two branches fall through)."""
    out: List[ast.stmt] = []
    for i, st in enumerate(block):
        if isinstance(st, ast.Continue):
            return out
        if isinstance(st, ast.If) and _has_continue(st):
            tail = block[i + 1 :] + cont
            st.body = _absorb_continue(st.body, copy.deepcopy(tail)) or [ast.copy_location(ast.Pass(), st)]
            st.orelse = _absorb_continue(st.orelse, copy.deepcopy(tail))
            out.append(st)
            return out
        out.append(st)
    return out + cont


def _append_loops(stmts: List[ast.stmt]) -> List[ast.stmt]:
    """`xs = []` directly followed by `for v in IT: xs.append(E)`  ->  `xs = [E for v in IT]`."""
    out: List[ast.stmt] = []
    i = 0
    while i < len(stmts):
        st = stmts[i]
        nxt = stmts[i + 1] if i + 1 < len(stmts) else None
        if (
            isinstance(st, ast.Assign) and len(st.targets) == 1 and isinstance(st.targets[0], ast.Name) and isinstance(st.value, ast.List) and not st.value.elts
            and isinstance(nxt, ast.For) and not nxt.orelse and len(nxt.body) == 1 and isinstance(nxt.body[0], ast.Expr) and isinstance(nxt.body[0].value, ast.Call)
            and isinstance(nxt.body[0].value.func, ast.Attribute) and nxt.body[0].value.func.attr == "append" and isinstance(nxt.body[0].value.func.value, ast.Name)
            and nxt.body[0].value.func.value.id == st.targets[0].id and len(nxt.body[0].value.args) == 1
            and not any(isinstance(x, ast.Name) and x.id == st.targets[0].id for x in ast.walk(nxt.body[0].value.args[0])) and not any(isinstance(x, ast.Name) and x.id == st.targets[0].id for x in ast.walk(nxt.iter))
        ):
            comp = ast.ListComp(elt=nxt.body[0].value.args[0], generators=[ast.comprehension(target=nxt.target, iter=nxt.iter, ifs=[], is_async=0)])
            new = ast.Assign(targets=[st.targets[0]], value=comp)
            ast.copy_location(new, st)
            ast.copy_location(comp, st)
            ast.fix_missing_locations(new)
            out.append(new)
            i += 2
            continue
        out.append(st)
        i += 1
    return out


def _restructure(stmts: List[ast.stmt], in_loop: bool) -> List[ast.stmt]:
    """`if T: A; continue` + rest (directly in a loop body)  ->  `if T: A else: rest`;
    `if not X: A else: B`  ->  `if X: B else: A`.  Same paths, the shapes the rules read."""
    stmts = _append_loops(stmts)
    out: List[ast.stmt] = []
    for i, st in enumerate(stmts):
        if isinstance(st, ast.For) and isinstance(st.iter, ast.Call) and isinstance(st.iter.func, ast.Name) and st.iter.func.id == "enumerate" and len(st.iter.args) == 1 and not st.iter.keywords and isinstance(st.iter.args[0], ast.Name) and isinstance(st.target, ast.Tuple) and len(st.target.elts) == 2 and all(isinstance(e_, ast.Name) for e_ in st.target.elts) and not any(isinstance(c_, ast.Call) and isinstance(c_.func, ast.Attribute) and c_.func.attr in ("append", "extend", "insert", "pop", "remove", "clear") and isinstance(c_.func.value, ast.Name) and c_.func.value.id == st.iter.args[0].id for b_ in st.body for c_ in ast.walk(b_)):
            # for i, v in enumerate(xs): BODY  ->  for i in range(len(xs)): v = xs[i]; BODY   (xs keeps its length in BODY)
            seq_, (iv_, vv_) = st.iter.args[0], st.target.elts
            st.iter = ast.copy_location(ast.Call(func=ast.Name(id="range", ctx=ast.Load()), args=[ast.Call(func=ast.Name(id="len", ctx=ast.Load()), args=[copy.deepcopy(seq_)], keywords=[])], keywords=[]), st.iter)
            st.target = ast.copy_location(ast.Name(id=iv_.id, ctx=ast.Store()), iv_)
            st.body = [ast.copy_location(ast.Assign(targets=[ast.Name(id=vv_.id, ctx=ast.Store())], value=ast.Subscript(value=copy.deepcopy(seq_), slice=ast.Name(id=iv_.id, ctx=ast.Load()), ctx=ast.Load())), st)] + st.body
            ast.fix_missing_locations(st)
        if isinstance(st, (ast.For, ast.While)):
            st.body = _restructure(st.body, True)
            # a `continue` left below a nested if: absorbed by moving the rest of the body into the branches
            if any(_has_continue(b_) for b_ in st.body) and not any(isinstance(x, (ast.Try, ast.With)) and _has_continue(x) for b_ in st.body for x in ast.walk(b_)):
                st.body = _absorb_continue(st.body, [])
            st.orelse = _restructure(st.orelse, in_loop)
        elif isinstance(st, ast.If):
            if in_loop and st.body and isinstance(st.body[-1], ast.Continue) and not st.orelse and not any(isinstance(x, (ast.Continue, ast.Break)) for b in st.body[:-1] for x in ast.walk(b)):
                rest = _restructure(stmts[i + 1 :], in_loop)
                st.body = _restructure(st.body[:-1], False) or [ast.copy_location(ast.Pass(), st)]
                st.orelse = rest
                out.append(st)
                return out
            st.body = _restructure(st.body, False)
            st.orelse = _restructure(st.orelse, False)
            if st.orelse and isinstance(st.test, ast.UnaryOp) and isinstance(st.test.op, ast.Not) and not (len(st.orelse) == 1 and isinstance(st.orelse[0], ast.If)):
                st.test = st.test.operand
                st.body, st.orelse = st.orelse, st.body
        elif isinstance(st, (ast.With, ast.Try)):
            st.body = _restructure(st.body, in_loop)
            if isinstance(st, ast.Try):
                st.finalbody = _restructure(st.finalbody, in_loop)
        elif isinstance(st, ast.FunctionDef):
            st.body = _restructure(st.body, False)
        elif isinstance(st, ast.Assign) and len(st.targets) == 1 and isinstance(st.targets[0], ast.Tuple) and isinstance(st.value, ast.Tuple) and len(st.targets[0].elts) == len(st.value.elts) and all(isinstance(t_, ast.Name) for t_ in st.targets[0].elts):
            # a, b = x, y  ->  a = x; b = y   when no right-hand side reads a target (no swap)
            tn = {t_.id for t_ in st.targets[0].elts}
            if not any(isinstance(n_, ast.Name) and n_.id in tn for v_ in st.value.elts for n_ in ast.walk(v_)):
                for t_, v_ in zip(st.targets[0].elts, st.value.elts):
                    out.append(ast.copy_location(ast.Assign(targets=[t_], value=v_), st))
                continue
        out.append(st)
    return out


def structure_module(tree: ast.Module) -> ast.Module:
    tree.body = _restructure(tree.body, False)
    return ast.fix_missing_locations(tree)


class DecoderFacts:
    def __init__(self, ctx: Ctx):
        self.ctx = ctx
        py = pyfacts(ctx)
        self.mods: Dict[str, Module] = {}
        from .normalise import normalise_module

        for name, rel in DECODERS.items():
            m0 = py.mod(rel)
            # the rules read a flattened copy (small helpers inlined, module-level tables re-stated in the function)
            m = copy.copy(m0)
            m.tree = structure_module(normalise_module(m0.tree))
            m.functions = {n.name: n for n in m.tree.body if isinstance(n, ast.FunctionDef)}
            m.assigns = dict(m0.assigns)
            self.mods[name] = m
        ctx.units["decoders"] = len(self.mods)

    def mod_ints(self, dec: str) -> Dict[str, int]:
        """Module-level integer constants, derived ones included (`BYTES = COLS // 2`), bound exactly once."""
        m = self.mods[dec]
        cnt: Dict[str, int] = {}
        for st in m.tree.body:
            for t_ in (st.targets if isinstance(st, ast.Assign) else []):
                for n_ in ast.walk(t_):
                    if isinstance(n_, ast.Name):
                        cnt[n_.id] = cnt.get(n_.id, 0) + 1
        out: Dict[str, int] = {}
        for st in m.tree.body:
            if isinstance(st, ast.Assign) and len(st.targets) == 1 and isinstance(st.targets[0], ast.Name) and cnt.get(st.targets[0].id) == 1:
                try:
                    v = int_eval(st.value, out)
                except IntEvalError:
                    continue
                if isinstance(v, int) and not isinstance(v, bool):
                    out[st.targets[0].id] = v
        return out

    def fn(self, dec: str, name: str) -> ast.FunctionDef:
        m = self.mods[dec]
        if name not in m.functions:
            raise AnalysisError("M10", f"{dec}.{name}", "function not found")
        return m.functions[name]

    def nested(self, fn: ast.FunctionDef) -> Dict[str, ast.FunctionDef]:
        out = {}
        for n in ast.walk(fn):
            if isinstance(n, ast.FunctionDef) and n is not fn:
                out[n.name] = n
        return out


def decoderfacts(ctx: Ctx) -> DecoderFacts:
    return ctx.engine("decoderfacts", DecoderFacts)


class IntEvalError(Exception):
    pass


def int_eval(e: ast.AST, env: Dict[str, int]):
    """Value of a pure integer / boolean expression over constants (the checker's own evaluator for boundary cases)."""
    if isinstance(e, ast.Constant) and isinstance(e.value, (int, bool)):
        return e.value
    if isinstance(e, ast.Name):
        if e.id in env:
            return env[e.id]
        raise IntEvalError(f"unknown name {e.id}")
    if isinstance(e, ast.UnaryOp):
        v = int_eval(e.operand, env)
        return {ast.USub: lambda x: -x, ast.UAdd: lambda x: x, ast.Not: lambda x: not x, ast.Invert: lambda x: ~x}[type(e.op)](v)
    if isinstance(e, ast.BinOp):
        a, b = int_eval(e.left, env), int_eval(e.right, env)
        try:
            return {
                ast.Add: lambda: a + b, ast.Sub: lambda: a - b, ast.Mult: lambda: a * b, ast.FloorDiv: lambda: a // b, ast.Mod: lambda: a % b,
                ast.LShift: lambda: a << b, ast.RShift: lambda: a >> b, ast.BitAnd: lambda: a & b, ast.BitOr: lambda: a | b, ast.BitXor: lambda: a ^ b,
            }[type(e.op)]()
        except (KeyError, ZeroDivisionError, ValueError) as ex:
            raise IntEvalError(str(ex))
    if isinstance(e, ast.IfExp):
        return int_eval(e.body if int_eval(e.test, env) else e.orelse, env)
    if isinstance(e, ast.BoolOp):
        vals = [int_eval(v, env) for v in e.values]
        return all(vals) if isinstance(e.op, ast.And) else any(vals)
    if isinstance(e, ast.Compare) and all(isinstance(o, (ast.Eq, ast.NotEq, ast.Lt, ast.LtE, ast.Gt, ast.GtE)) for o in e.ops):
        a = int_eval(e.left, env)
        for o, c in zip(e.ops, e.comparators):
            b = int_eval(c, env)
            if not {ast.Eq: a == b, ast.NotEq: a != b, ast.Lt: a < b, ast.LtE: a <= b, ast.Gt: a > b, ast.GtE: a >= b}[type(o)]:
                return False
            a = b
        return True
    if isinstance(e, ast.Call) and isinstance(e.func, ast.Name) and e.func.id in ("int", "abs", "bool", "min", "max") and not e.keywords:
        args = [int_eval(a, env) for a in e.args]
        return {"int": int, "abs": abs, "bool": bool, "min": min, "max": max}[e.func.id](*args)
    raise IntEvalError(f"expression {type(e).__name__} not modelled")
