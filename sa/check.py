"""Entry point: /venv/bin/python -m sa.check <property|all> [--tier quick|thorough] [--rule RID] [--replay path]"""

from __future__ import annotations

import argparse
import json
import os
import sys
import traceback

from . import core
from .core import Ctx, RULES


def load_rules():
    from . import rules_g  # noqa: F401
    for mod in ("rules_e", "rules_p", "rules_det", "rules_l", "rules_d", "rules_abs", "rules_text", "rules_expr", "rules_tmpl", "rules_more", "rules_bank", "rules_more2", "rules_more3", "rules_peg2", "rules_r11", "rules_r12"):
        try:
            __import__(f"sa.{mod}")
        except ModuleNotFoundError as e:
            if e.name != f"sa.{mod}":
                raise


def main(argv=None) -> int:
    ap = argparse.ArgumentParser()
    ap.add_argument("prop", nargs="?", default="all")
    ap.add_argument("--tier", default=os.environ.get("VERIF_TIER", "quick"), choices=["quick", "thorough"])
    ap.add_argument("--rule", help="run a single rule verbosely (debug / replay)")
    ap.add_argument("--replay", help="re-run the rule instance recorded in a replay file, verbosely")
    ap.add_argument("--repo", help="analyse another checkout (self-tests)")
    ap.add_argument("-v", action="store_true")
    args = ap.parse_args(argv)
    try:
        seed = int(os.environ.get("VERIF_SEED", "0"))
    except ValueError:
        seed = 0
    if args.repo:
        core.REPO = core.Path(args.repo)
    try:
        load_rules()
        from .props import PROPS

        ctx = Ctx(core.REPO, args.tier)
        if args.replay:
            rec = json.loads(open(args.replay).read())
            args.rule = rec["rule"]
            only = rec["construct"]
        else:
            only = None
        if args.rule:
            ctx.run_rule(args.rule)
            for o in ctx.obligations.get(args.rule, []):
                if only and o.construct != only:
                    continue
                if args.v or not o.ok or o.info or only:
                    print(json.dumps(o.to_json(), default=str))
            for e in ctx.errors:
                print("ANALYSIS-ERROR", e)
            n = [o for o in ctx.obligations.get(args.rule, []) if not o.info]
            print(f"{args.rule}: {len(n)} instances, {len([o for o in n if not o.ok])} findings, skipped={ctx.skipped.get(args.rule)}")
            return 2 if ctx.errors else (1 if any(not o.ok for o in n if (not only or o.construct == only)) else 0)
        props = sorted(PROPS) if args.prop == "all" else [args.prop]
        worst = 0
        for pid in props:
            if pid not in PROPS:
                print(f"ANALYSIS-ERROR driver {pid}: unknown property")
                return 2
            extra = None
            st2 = 0
            if args.tier == "thorough":
                from .selftest import run_selftest

                st2, extra = run_selftest(ctx, pid)
            st = core.check_property(ctx, pid, PROPS[pid], seed=seed, extra=extra)
            if st != 1 and st2:
                st = 2
            worst = max(worst, st) if worst != 1 else 1
            if st == 1:
                worst = 1
        return worst
    except Exception as e:  # never let a traceback look like a violation
        print(f"ANALYSIS-ERROR driver internal: {type(e).__name__}: {e}")
        traceback.print_exc()
        return 2


if __name__ == "__main__":
    sys.exit(main())
