"""Property table: what is decided per property (structural clause), what is not, trusted base."""

COMMON_TRUST = [
    "CPython `ast` (3.12, the interpreter the repository targets) parses the sources exactly as the build does",
    "the frozen oracles named in DESIGN.md section 3 (tables written from the Color BASIC / BASIC09 / OS-9 manuals)",
]
PEG_TRUST = ["parsimonious.grammar.Grammar applied to the grammar text that the constant folder reconstructs from grammar.py (coco.b09.grammar itself is never imported)"]

PROPS = {
    "C01": {
        "clause": "grouping clause only: the PEG precedence ladder assigns every operator its Color BASIC level, the flat text is emitted in source order with the one BASIC09/Color BASIC disagreement parenthesised, function tables map each name to itself, expression kind is derived from operands",
        "not": "numeric values, float formats, semantics of built-ins, IF branch selection on run-time values",
        "design": "4/C01",
    },
    "C02": {
        "clause": "narrow: control templates are balanced and every emitted LOOP has an unconditional exit; no parsed statement is dropped (grammar member -> visitor -> field -> text); bare/explicit NEXT pairing",
        "not": "that the translated program performs the same sequence of statements for all inputs (needs semantics of both languages)",
        "design": "4/C02",
    },
    "C03": {
        "clause": "narrow: DIM arithmetic (n -> n+1, fill 0..n, implicit bound 10, base 0), pre-initialisation reaches every variable position (traversal), empty-DATA protocol, every numeric PRINT item is recognised by the formatter pass",
        "not": "READ order, RESTORE, PRINT zone semantics, string function results (value level)",
        "design": "4/C03",
    },
    "C04": {
        "clause": "for every device statement rule: runtime procedure name, argument count, per position the source operand (in source order) or documented default, for every presence pattern of optional operands; HBUFF prologue iff HBUFF",
        "not": "what the runtime procedures do with the operands",
        "design": "4/C04",
    },
    "C05": {
        "clause": "every functional expression is reached by the hoisting pass (traversal + pass order), its call is printed before the host statement on every emission path, visit order = print order, temporaries are fresh",
        "not": "dynamic call order under actual device values",
        "design": "4/C05",
    },
    "C06": {
        "clause": "every line-number carrying class announces itself to the collector in every nesting position; filters only clear labels; refusals precede emission; 32700/32699/dispatcher constants agree",
        "not": "label uniqueness when the source repeats a line number",
        "design": "4/C06",
    },
    "C07": {
        "clause": "template skeleton balance, no raw parse node / internal object can reach a printed hole, tuple-unpack arity, pre-assignment prefix on every path, constant statements well-formed",
        "not": "type correctness (excluded by the property), BASIC09's full statement grammar beyond the skeleton",
        "design": "4/C07",
    },
    "C08": {
        "clause": "optional blanks accepted at every token boundary of every PEG sequence/repetition; raw node text only from terminals and blank-normalised before conversion",
        "not": "PEG adjacency effects that are not about blanks (keyword glued to a digit)",
        "design": "4/C08",
    },
    "C09": {
        "clause": "single truncation point of width 2 in both variable visitors, `$` kept, one `arr_` prefix applied and stripped consistently, generated identifiers disjoint from the user identifier language",
        "not": "clashes with BASIC09 reserved words (not part of the property)",
        "design": "4/C09",
    },
    "C10": {
        "clause": "every array/string position is reached by the declaring passes, DIM statements exist before the pass that sizes them, DIM arithmetic, no constant DIM repeats an identifier, placeholder substitution",
        "not": "that sizes suffice at run time",
        "design": "4/C10",
    },
    "C11": {
        "clause": "forward slice of every convert() option stays inside its documented sinks and reaches all of them; each pass's mutations are within its allowance; CLI flag -> dest -> keyword map with polarity; procname = file stem; \\n -> \\r",
        "not": "argparse's own behaviour (trusted)",
        "design": "4/C11",
    },
    "C12": {
        "clause": "no iteration over a set reaches the output unsorted, no nondeterministic source (id/hash/time/random/environ/listdir), no module- or class-level mutable state written, in the transpiler and every decoder",
        "not": "determinism of third-party code (parsimonious, pydantic, pypng, Pillow)",
        "design": "4/C12",
    },
    "C13": {
        "clause": "library call graph is closed, the bank's own patterns see every call and header, closure/sort/root-last algorithm shape, quote guard, every placeholder matched, procedure-name language round trip",
        "not": "text inside (* comments *) is not quote-protected (information only)",
        "design": "4/C13",
    },
    "C14": {
        "clause": "every RUN the tool can emit and every run inside the library: callee exists, argument count = parameter count, coarse type (string / numeric / record) per position; record declarations identical on both sides",
        "not": "BASIC09's INTEGER/REAL/BYTE distinction for by-reference arguments",
        "design": "4/C14",
    },
    "C15": {
        "clause": "partial operations on the conversion path decidable from structure: tuple unpack arity, table subscripts total, numeric conversion of literal text (regular-language inclusion), attribute protocol, procedure-name round trip, only documented exception classes raised",
        "not": "totality over all strings and termination of the PEG parser",
        "design": "4/C15",
    },
    "C16": {
        "clause": "six-bit colour code -> RGB in every dump closure (bit-vector equality with the reference term) and all 64 VEF entries; bit fields of every pixel byte partition bits 7..0 MSB first; table index bounds",
        "not": "artifact-colour arithmetic of MAX -br/-rb, the composite table c2r (no oracle), PIX transposition",
        "design": "4/C16",
    },
    "C17": {
        "clause": "narrow: every decompressor sends each reconstructed byte through a complete byte-to-pixels path (both nibbles / all pairs)",
        "not": "decode(encode(x)) = x over all encoder choices (a statement about all byte strings)",
        "design": "4/C17",
    },
    "C18": {
        "clause": "symbolic sample count of the loop nest equals the header's width x height for every option value the validators admit; binary std streams as defaults; skip consumed once before the header",
        "not": "pypng/Pillow output validity (trusted)",
        "design": "4/C18",
    },
    "C19": {
        "clause": "reads that feed output are strict or length-checked; remaining-sample counters cannot be overshot and a data-driven stop fails while positive; refusals precede the first write; every while loop progresses; payload size never depends on an unvalidated file field",
        "not": "behaviour of each individual corruption",
        "design": "4/C19",
    },
    "C20": {
        "clause": "narrow: result parameter of ecb_instr / ecb_string / ecb_read_filter is assigned on every normal path; the empty branch of the read filter yields the constant 0 and the other VAL(item); call sites pass operands in the declared positions",
        "not": "loop bounds and MID$ arithmetic of the helpers (run-time values of a BASIC09 program; needs an interpreter)",
        "design": "4/C20",
    },
}

for _k, _v in PROPS.items():
    _v["explanation"] = (
        "Static rule checking over the current source of /repo (no repository code is imported or run). "
        f"Decided: {_v['clause']}. Not decided (behavioural remainder): {_v['not']}."
    )
    _v["assumptions"] = [
        "the structural clause is a necessary condition of the property, not the whole behaviour",
        "exception tables in the rule modules (one reason per entry) are correct",
    ] + COMMON_TRUST
    _v["trusted"] = COMMON_TRUST + (PEG_TRUST if _k in ("C01", "C02", "C04", "C06", "C07", "C08", "C09", "C15") else [])
