"""Property table: per property the evidence explanation / assumptions (filled in below)."""
PROPS = {f"C{i:02d}": {"explanation": "", "assumptions": [], "trusted": []} for i in range(1, 21)}
