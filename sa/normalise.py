"""Normalisation of a decoder module before the D-rules read it.

The decoder rules follow bytes from `read` to `write` inside one function.  Ordinary clean-ups move pieces of that
path elsewhere without changing it: a helper `_read_byte(stream)`, a table hoisted to module level, the body of a
loop extracted into a nested function.  Instead of teaching every rule every such shape, the module is first brought
back to the flat form (on a copy of the syntax tree; nothing is executed):

  * module-level data (`NAME = <list / tuple / constant / arithmetic on constants / comprehension>`) that a function
    reads and does not re-bind is re-stated at the top of that function;
  * calls of small helpers are replaced by their bodies, parameters substituted by the arguments:
      - `h(a, b)` used as an expression, where `h` is `def h(p, q): return <expr>`;
      - `h(a, b)` as a statement of its own, where `h` has no `return <value>`;
      - `x = h(a, b)` / `x, y = h(a, b)`, where every path of `h` ends in `return <value>`;
    locals of the helper are renamed apart.  A helper is inlined only when the substitution is safe: each parameter
    is bound to a name / constant / attribute, or is used at most once in the body.
Helpers that do not fit stay calls; the rules then treat them as they always did (unknown call -> cannot decide).
"""

from __future__ import annotations

import ast
import copy
from typing import Dict, List, Optional, Set

ENTRY = {"convert", "start", "main", "unsquash"}
ENTRY_STRUCTURED = {"convert", "convert_file", "generate"}  # `if c: return x` + rest is read as if/else


class _Subst(ast.NodeTransformer):
    def __init__(self, mapping: Dict[str, ast.AST]):
        self.m = mapping

    def visit_Name(self, n: ast.Name):
        if n.id in self.m and isinstance(n.ctx, ast.Load):
            return copy.deepcopy(self.m[n.id])
        if n.id in self.m and isinstance(self.m[n.id], ast.Name):
            return ast.copy_location(ast.Name(self.m[n.id].id, n.ctx), n)
        return n


def _body_wo_doc(fn: ast.FunctionDef) -> List[ast.stmt]:
    b = fn.body
    if b and isinstance(b[0], ast.Expr) and isinstance(b[0].value, ast.Constant) and isinstance(b[0].value.value, str):
        return b[1:]
    return b


def _simple_arg(a: ast.AST) -> bool:
    return isinstance(a, (ast.Name, ast.Constant)) or (isinstance(a, ast.Attribute) and _simple_arg(a.value))


def _uses(body: List[ast.stmt], name: str) -> int:
    return sum(1 for s in body for n in ast.walk(s) if isinstance(n, ast.Name) and n.id == name and isinstance(n.ctx, ast.Load))


def _stores(body: List[ast.stmt]) -> Set[str]:
    out = set()
    for s in body:
        for n in ast.walk(s):
            if isinstance(n, ast.Name) and isinstance(n.ctx, ast.Store):
                out.add(n.id)
            elif isinstance(n, ast.arg):
                out.add(n.arg)
    return out


def _all_paths_return_value(body: List[ast.stmt]) -> bool:
    if not body:
        return False
    last = body[-1]
    if isinstance(last, ast.Return):
        return last.value is not None
    if isinstance(last, ast.If) and last.orelse:
        return _all_paths_return_value(last.body) and _all_paths_return_value(last.orelse)
    return False


def _structure_returns(body: List[ast.stmt]) -> List[ast.stmt]:
    """`if c: ...; return a` followed by more statements  ->  `if c: ...; return a  else: <more statements>`."""
    out: List[ast.stmt] = []
    for i, st in enumerate(body):
        if isinstance(st, ast.If) and not st.orelse and st.body and isinstance(st.body[-1], ast.Return) and body[i + 1 :]:
            st2 = copy.copy(st)
            st2.body = _structure_returns(st.body)
            st2.orelse = _structure_returns(body[i + 1 :])
            out.append(st2)
            return out
        if isinstance(st, ast.If):
            st2 = copy.copy(st)
            st2.body = _structure_returns(st.body)
            st2.orelse = _structure_returns(st.orelse)
            out.append(st2)
        else:
            out.append(st)
    return out


def _tail_returns(body: List[ast.stmt]) -> List[ast.Return]:
    """Return statements in tail position (last statement, recursively through if/else)."""
    if not body:
        return []
    last = body[-1]
    if isinstance(last, ast.Return):
        return [last]
    if isinstance(last, ast.If):
        return _tail_returns(last.body) + _tail_returns(last.orelse)
    return []


def _only_tail_returns(body: List[ast.stmt]) -> bool:
    """Every `return` of the body is in tail position: turning returns into assignments cannot let control fall through."""
    tails = {id(r) for r in _tail_returns(body)}
    return all(id(r) in tails for r in _returns(body))


def _returns(body: List[ast.stmt]) -> List[ast.Return]:
    out = []
    for s in body:
        for n in ast.walk(s):
            if isinstance(n, ast.Return):
                out.append(n)
            if isinstance(n, (ast.FunctionDef, ast.Lambda)) and n is not s:
                pass
    return out


def _has_nested_def(body: List[ast.stmt]) -> bool:
    return any(isinstance(n, (ast.FunctionDef, ast.Lambda)) for s in body for n in ast.walk(s))


def _straight_line_as_return(body: List[ast.stmt]) -> Optional[List[ast.stmt]]:
    """`a = e1; b = e2(a); return e3(a, b)` -> `return e3(e1, e2(e1))` when every local is assigned once, from an
    expression without calls other than the pure converters, before its uses."""
    if len(body) == 1:
        return body
    if not body or not isinstance(body[-1], ast.Return) or body[-1].value is None:
        return None
    defs: Dict[str, ast.AST] = {}
    for st in body[:-1]:
        if not (isinstance(st, ast.Assign) and len(st.targets) == 1 and isinstance(st.targets[0], ast.Name)):
            return None
        nm = st.targets[0].id
        if nm in defs:
            return None
        if any(
            isinstance(c, ast.Call)
            and not (isinstance(c.func, ast.Name) and (c.func.id in ("getbit", "pack", "strtoio", "iotostr", "ord", "int", "len", "min", "max", "abs", "bytes", "chr") or c.func.id[:1].isupper()))
            and not (isinstance(c.func, ast.Attribute) and c.func.attr in ("endswith", "startswith", "upper", "lower", "strip", "lstrip", "rstrip", "find", "replace", "name"))
            for c in ast.walk(st.value)
        ):
            return None  # (constructor calls - capitalised names - only build objects; the string methods are pure)
        defs[nm] = _Subst(dict(defs)).visit(copy.deepcopy(st.value))
    ret = ast.Return(_Subst(defs).visit(copy.deepcopy(body[-1].value)))
    return [ast.copy_location(ret, body[-1])]


def _relocate(stmts: List[ast.stmt], site: ast.AST):
    """Inlined code is reported (and ordered) at the line of the call it replaces."""
    for s in stmts:
        for x in ast.walk(s):
            if hasattr(x, "lineno") or isinstance(x, (ast.expr, ast.stmt)):
                x.lineno = site.lineno
                x.col_offset = getattr(site, "col_offset", 0)
                x.end_lineno = getattr(site, "end_lineno", site.lineno)
                x.end_col_offset = getattr(site, "end_col_offset", 0)


class _Inliner:
    def __init__(self, helpers: Dict[str, ast.FunctionDef], methods: Optional[Dict[str, ast.FunctionDef]] = None):
        self.helpers = helpers
        self.methods = methods or {}  # private methods of the class being normalised: self._h(...)
        self.counter = 0
        self.changed = False

    def lookup(self, call: ast.Call) -> Optional[ast.FunctionDef]:
        """The helper a call refers to, as a plain function (a method loses its `self` parameter: inside the class
        `self` means the same object before and after inlining)."""
        f = call.func
        if isinstance(f, ast.Name) and f.id in self.helpers:
            return self.helpers[f.id]
        if isinstance(f, ast.Attribute) and isinstance(f.value, ast.Name) and f.value.id in ("self", "cls") and f.attr in self.methods:
            m = self.methods[f.attr]
            static = any(isinstance(d, ast.Name) and d.id == "staticmethod" for d in m.decorator_list)
            if any(not (isinstance(d, ast.Name) and d.id == "staticmethod") for d in m.decorator_list):
                return None
            if static:
                return m
            if any(isinstance(d, ast.Name) and d.id in ("property",) for d in m.decorator_list) or not m.args.args:
                return None
            m2 = copy.copy(m)
            m2.args = copy.copy(m.args)
            m2.args.args = m.args.args[1:]
            return m2
        return None

    def binding(self, fn: ast.FunctionDef, call: ast.Call, body: Optional[List[ast.stmt]] = None) -> Optional[Dict[str, ast.AST]]:
        a = fn.args
        if a.vararg or a.kwarg or a.posonlyargs or call.keywords and any(k.arg is None for k in call.keywords):
            return None
        params = [p.arg for p in a.args]
        kwonly = [p.arg for p in a.kwonlyargs]
        if any(isinstance(x, ast.Starred) for x in call.args) or len(call.args) > len(params):
            return None
        m: Dict[str, ast.AST] = {}
        for p, x in zip(params, call.args):
            m[p] = x
        for k in call.keywords:
            if k.arg not in params + kwonly or k.arg in m:
                return None
            m[k.arg] = k.value
        nd = len(a.defaults)
        for i, p in enumerate(params):
            if p not in m:
                di = i - (len(params) - nd)
                if 0 <= di < nd:
                    m[p] = a.defaults[di]
                else:
                    return None
        for p, d in zip(kwonly, a.kw_defaults):
            if p not in m:
                if d is None:
                    return None
                m[p] = d
        params = params + kwonly
        body = body if body is not None else _body_wo_doc(fn)
        st = _stores(body) - set(params)
        for p, x in m.items():
            if p in _stores(body) - {p} and False:
                return None
            if not _simple_arg(x) and _uses(body, p) > 1:
                return None
            if any(isinstance(n, ast.Name) and n.id == p and isinstance(n.ctx, ast.Store) for s in body for n in ast.walk(s)) and not isinstance(x, ast.Name):
                return None  # the helper assigns to its parameter
        return m

    def rename_locals(self, fn: ast.FunctionDef, body: List[ast.stmt], mapping: Dict[str, ast.AST]) -> List[ast.stmt]:
        self.counter += 1
        params = {p.arg for p in fn.args.args}
        locs = _stores(body) - params
        m = dict(mapping)
        for l in locs:
            m[l] = ast.Name(f"{l}__{fn.name}{self.counter}", ast.Load())
        out = []
        for s in body:
            s2 = _Subst(m).visit(copy.deepcopy(s))
            out.append(s2)
        return out

    def cond_inline(self, tree: ast.AST):
        """In the test of an if / while / conditional expression, a predicate helper written as guard clauses
        (`if not A: return False` ... `return B`) is the conjunction `A and ... and B` (as a truth value)."""
        inl = self

        def chain(body: List[ast.stmt]) -> Optional[List[ast.expr]]:
            if not body or not isinstance(body[-1], ast.Return) or body[-1].value is None:
                return None
            conj: List[ast.expr] = []
            for st in body[:-1]:
                if not (isinstance(st, ast.If) and not st.orelse and len(st.body) == 1 and isinstance(st.body[0], ast.Return) and isinstance(st.body[0].value, ast.Constant) and st.body[0].value.value is False):
                    return None
                t = st.test
                conj.append(t.operand if isinstance(t, ast.UnaryOp) and isinstance(t.op, ast.Not) else ast.UnaryOp(op=ast.Not(), operand=t))
            conj.append(body[-1].value)
            return conj if len(conj) >= 2 else None

        def cond(e: ast.AST) -> ast.AST:
            if isinstance(e, ast.BoolOp):
                e.values = [cond(v) for v in e.values]
                return e
            if isinstance(e, ast.UnaryOp) and isinstance(e.op, ast.Not):
                e.operand = cond(e.operand)
                return e
            if isinstance(e, ast.Call) and inl.lookup(e) is not None:
                fn = inl.lookup(e)
                body = _body_wo_doc(fn)
                cj = chain(body)
                if cj is not None and not _has_nested_def(body):
                    m = inl.binding(fn, e, [ast.Expr(c) for c in cj])
                    if m is not None and all(_simple_arg(a_) for a_ in m.values()):
                        out = ast.BoolOp(op=ast.And(), values=[_Subst(m).visit(copy.deepcopy(c)) for c in cj])
                        for x in ast.walk(out):
                            ast.copy_location(x, e)
                        inl.changed = True
                        return out
            return e

        for n in ast.walk(tree):
            if isinstance(n, (ast.If, ast.While, ast.IfExp)):
                n.test = cond(n.test)
        return tree

    def expr_inline(self, tree: ast.AST):
        """h(a) -> <expr> for single-return helpers (bottom-up, repeated by the caller)."""
        inl = self
        self.cond_inline(tree)

        class T(ast.NodeTransformer):
            def visit_Call(self, n: ast.Call):
                self.generic_visit(n)
                if inl.lookup(n) is not None:
                    fn = inl.lookup(n)
                    body = _straight_line_as_return(_body_wo_doc(fn))
                    if body is not None and len(body) == 1 and isinstance(body[0], ast.Return) and body[0].value is not None and not _has_nested_def(body):
                        m = inl.binding(fn, n, body)
                        if m is not None:
                            e = _Subst(m).visit(copy.deepcopy(body[0].value))
                            for x in ast.walk(e):
                                ast.copy_location(x, n)
                            inl.changed = True
                            return e
                return n

        return T().visit(tree)

    def stmt_inline(self, stmts: List[ast.stmt]) -> List[ast.stmt]:
        out: List[ast.stmt] = []
        for st in stmts:
            for fld in ("body", "orelse", "finalbody"):
                sub = getattr(st, fld, None)
                if isinstance(sub, list) and sub and isinstance(sub[0], ast.stmt) and not isinstance(st, ast.FunctionDef):
                    setattr(st, fld, self.stmt_inline(sub))
            # `for v in gen(args): BODY` with a module-level generator: the generator's body runs in place, every
            # `yield e` statement becomes `v = e; BODY` (same interleaving of reads and writes: a generator is lazy)
            if isinstance(st, ast.For) and not st.orelse and isinstance(st.iter, ast.Call) and self.lookup(st.iter) is not None and isinstance(st.target, ast.Name):
                g_ = self.lookup(st.iter)
                gb = _body_wo_doc(g_)
                ys = [n for b_ in gb for n in ast.walk(b_) if isinstance(n, (ast.Yield, ast.YieldFrom))]
                y_stmts = [n for b_ in gb for n in ast.walk(b_) if isinstance(n, ast.Expr) and isinstance(n.value, ast.Yield) and n.value.value is not None]
                body_ok = not any(isinstance(n, (ast.Break, ast.Continue, ast.Return, ast.Yield, ast.YieldFrom)) for b_ in st.body for n in ast.walk(b_))
                gen_ok = ys and len(ys) == len(y_stmts) and not any(isinstance(n, ast.Return) and n.value is not None for b_ in gb for n in ast.walk(b_)) and not _has_nested_def(gb) and not g_.decorator_list
                m_ = self.binding(g_, st.iter, gb) if gen_ok and body_ok else None
                if m_ is not None and not (_stores(st.body) & ({p_.arg for p_ in g_.args.args} | _stores(gb))):
                    new_ = self.rename_locals(g_, gb, m_)
                    tgt_, loop_body = st.target, st.body

                    class _Y(ast.NodeTransformer):
                        def visit_Expr(self, n):
                            if isinstance(n.value, ast.Yield) and n.value.value is not None:
                                asg_ = ast.Assign(targets=[ast.Name(id=tgt_.id, ctx=ast.Store())], value=n.value.value)
                                return [ast.copy_location(asg_, n)] + [copy.deepcopy(b_) for b_ in loop_body]
                            return n

                        def visit_Return(self, n):
                            return n

                    new2 = []
                    for b_ in new_:
                        r_ = _Y().visit(b_)
                        new2.extend(r_ if isinstance(r_, list) else [r_])
                    # a bare `return` inside the generator only ends the iteration: not supported (kept as a call)
                    if not any(isinstance(n, ast.Return) for b_ in new2 for n in ast.walk(b_)):
                        _relocate(new2, st)
                        for b_ in new2:
                            ast.fix_missing_locations(b_)
                        out.extend(self.stmt_inline(new2))
                        self.changed = True
                        continue
            # `return list(gen(args))` / `x = list(gen(args))` with a module-level generator: an accumulator takes the yields
            if isinstance(st, (ast.Return, ast.Assign)) and isinstance(st.value, ast.Call) and isinstance(st.value.func, ast.Name) and st.value.func.id in ("list", "tuple") and len(st.value.args) == 1 and not st.value.keywords and isinstance(st.value.args[0], ast.Call) and self.lookup(st.value.args[0]) is not None and (isinstance(st, ast.Return) or (len(st.targets) == 1 and isinstance(st.targets[0], ast.Name))):
                gcall = st.value.args[0]
                g_ = self.lookup(gcall)
                gb = _body_wo_doc(g_)
                ys = [n for b_ in gb for n in ast.walk(b_) if isinstance(n, (ast.Yield, ast.YieldFrom))]
                y_stmts = [n for b_ in gb for n in ast.walk(b_) if isinstance(n, ast.Expr) and isinstance(n.value, ast.Yield) and n.value.value is not None]
                rets = [n for b_ in gb for n in ast.walk(b_) if isinstance(n, ast.Return)]
                # (a bare `return` is fine when it is a guard clause at the top of the generator: restructured below)
                gen_ok = ys and len(ys) == len(y_stmts) and all(r.value is None for r in rets) and not _has_nested_def(gb) and not g_.decorator_list
                m_ = self.binding(g_, gcall, gb) if gen_ok else None
                if m_ is not None:
                    self.counter += 1
                    acc = f"acc__{g_.name}{self.counter}"
                    def _guards(ss: List[ast.stmt]) -> List[ast.stmt]:
                        # `if T: return` followed by REST  ->  `if not T: REST`
                        o_: List[ast.stmt] = []
                        for i_, s_ in enumerate(ss):
                            if isinstance(s_, ast.If) and not s_.orelse and len(s_.body) == 1 and isinstance(s_.body[0], ast.Return) and s_.body[0].value is None:
                                rest_ = _guards(ss[i_ + 1 :])
                                if rest_:
                                    neg_ = s_.test.operand if isinstance(s_.test, ast.UnaryOp) and isinstance(s_.test.op, ast.Not) else ast.UnaryOp(op=ast.Not(), operand=s_.test)
                                    o_.append(ast.copy_location(ast.If(test=neg_, body=rest_, orelse=[]), s_))
                                return o_
                            if isinstance(s_, ast.Return) and s_.value is None and i_ == len(ss) - 1:
                                return o_
                            o_.append(s_)
                        return o_

                    body2 = _guards(copy.deepcopy(gb)) if rets else copy.deepcopy(gb)
                    if not any(isinstance(n, ast.Return) for b_ in body2 for n in ast.walk(b_)):
                        new_ = self.rename_locals(g_, body2, m_)

                        class _Y2(ast.NodeTransformer):
                            def visit_Expr(self, n):
                                if isinstance(n.value, ast.Yield) and n.value.value is not None:
                                    call_ = ast.Call(func=ast.Attribute(value=ast.Name(id=acc, ctx=ast.Load()), attr="append", ctx=ast.Load()), args=[n.value.value], keywords=[])
                                    return ast.copy_location(ast.Expr(value=call_), n)
                                return n

                        new2 = [ast.Assign(targets=[ast.Name(id=acc, ctx=ast.Store())], value=ast.List(elts=[], ctx=ast.Load()))]
                        for b_ in new_:
                            new2.append(_Y2().visit(b_))
                        tail = ast.Name(id=acc, ctx=ast.Load()) if st.value.func.id == "list" else ast.Call(func=ast.Name(id="tuple", ctx=ast.Load()), args=[ast.Name(id=acc, ctx=ast.Load())], keywords=[])
                        new2.append(ast.Return(value=tail) if isinstance(st, ast.Return) else ast.Assign(targets=st.targets, value=tail))
                        _relocate(new2, st)
                        for b_ in new2:
                            ast.fix_missing_locations(b_)
                        out.extend(self.stmt_inline(new2[:-1]) + [new2[-1]])
                        self.changed = True
                        continue
            # `x = h(f.read(30))` where h uses its parameter more than once: the argument is evaluated once, into a temporary
            if isinstance(st, (ast.Expr, ast.Assign, ast.Return)) and isinstance(st.value, ast.Call) and self.lookup(st.value) is not None and not st.value.keywords and not any(isinstance(a_, ast.Starred) for a_ in st.value.args):
                fn0 = self.lookup(st.value)
                b0 = _body_wo_doc(fn0)
                ps0 = [p_.arg for p_ in fn0.args.args]
                if isinstance(st.value.func, ast.Attribute) and ps0[:1] == ["self"]:
                    ps0 = ps0[1:]
                need = [i_ for i_, a_ in enumerate(st.value.args) if i_ < len(ps0) and not _simple_arg(a_) and _uses(b0, ps0[i_]) > 1]
                if need:
                    pre0 = []
                    for i_, a_ in enumerate(st.value.args):
                        if i_ <= max(need) and not _simple_arg(a_):
                            self.counter += 1
                            tn = f"arg__{fn0.name}{self.counter}"
                            asg0 = ast.copy_location(ast.Assign([ast.Name(tn, ast.Store())], a_), st)
                            ast.fix_missing_locations(asg0)
                            pre0.append(asg0)
                            st.value.args[i_] = ast.copy_location(ast.Name(tn, ast.Load()), a_)
                    out.extend(pre0)
                    self.changed = True
            # a helper call buried in a simple statement (`s.update(h(x))`) is first hoisted: `t = h(x); s.update(t)`
            if (isinstance(st, (ast.Expr, ast.Assign, ast.AugAssign, ast.Return)) and not (isinstance(st, (ast.Expr, ast.Return)) and isinstance(st.value, ast.Call) and self.lookup(st.value) is not None) and not (isinstance(st, ast.Assign) and isinstance(st.value, ast.Call) and self.lookup(st.value) is not None)) or (isinstance(st, ast.If) and any(isinstance(n, ast.Call) and self.lookup(n) is not None for n in ast.walk(st.test))):
                guarded = set()
                is_if = isinstance(st, ast.If)
                for n in ast.walk(st.test if is_if else st):
                    if isinstance(n, (ast.Lambda, ast.ListComp, ast.SetComp, ast.DictComp, ast.GeneratorExp, ast.IfExp, ast.BoolOp)):
                        guarded |= {id(x) for x in ast.walk(n) if x is not n}
                cands = [n for n in ast.walk(st.test if is_if else st) if isinstance(n, ast.Call) and id(n) not in guarded and self.lookup(n) is not None]
                if len(cands) == 1:
                    fn_ = self.lookup(cands[0])
                    b_ = _structure_returns(_body_wo_doc(fn_))
                    sl_ = _straight_line_as_return(b_)
                    # (arguments that are not simple are evaluated into temporaries by the step above once the call is a statement of its own)
                    probe = copy.copy(cands[0])
                    probe.args = [a_ if _simple_arg(a_) or isinstance(a_, ast.Starred) else ast.Name("arg__probe", ast.Load()) for a_ in cands[0].args]
                    if not (sl_ is not None and len(sl_) == 1) and _all_paths_return_value(b_) and _only_tail_returns(b_) and self.binding(fn_, probe, b_) is not None:
                        self.counter += 1
                        tmp = f"hoisted__{fn_.name}{self.counter}"
                        asg = ast.copy_location(ast.Assign([ast.Name(tmp, ast.Store())], cands[0]), st)
                        target_call = cands[0]

                        class R(ast.NodeTransformer):
                            def visit_Call(self, n):
                                if n is target_call:
                                    return ast.copy_location(ast.Name(tmp, ast.Load()), n)
                                self.generic_visit(n)
                                return n

                        if is_if:
                            st.test = R().visit(st.test)
                            st2 = st
                        else:
                            st2 = R().visit(st)
                        ast.fix_missing_locations(asg)
                        out.extend(self.stmt_inline([asg, st2]))
                        self.changed = True
                        continue
            call = None
            targets = None
            if isinstance(st, ast.Return) and isinstance(st.value, ast.Call) and self.lookup(st.value) is not None:
                # `return h(args)`: the helper's body takes the place of the statement, its returns stay returns
                fn = self.lookup(st.value)
                body = _structure_returns(_body_wo_doc(fn))
                m = self.binding(fn, st.value, body)
                if m is not None and not _has_nested_def(body) and len(body) <= 40 and _all_paths_return_value(body) and _only_tail_returns(body):
                    new = self.rename_locals(fn, body, m)
                    _relocate(new, st)
                    out.extend(self.stmt_inline(new))
                    self.changed = True
                    continue
            if isinstance(st, ast.Expr) and isinstance(st.value, ast.Call):
                call = st.value
            elif isinstance(st, ast.Assign) and isinstance(st.value, ast.Call) and len(st.targets) == 1:
                call, targets = st.value, st.targets[0]
            if call is not None and self.lookup(call) is not None:
                fn = self.lookup(call)
                body = _structure_returns(_body_wo_doc(fn))
                m = self.binding(fn, call, body)
                rets = _returns(body)
                if m is not None and not _has_nested_def(body) and len(body) <= 40:
                    if targets is None and all(r.value is None or (isinstance(r.value, ast.Constant) and r.value.value is None) for r in rets) and (not rets or (len(rets) == 1 and body and body[-1] is rets[0])):
                        new = self.rename_locals(fn, [s for s in body if not isinstance(s, ast.Return)], m)
                        _relocate(new, st)
                        out.extend(self.stmt_inline(new))
                        self.changed = True
                        continue
                    if targets is not None and _all_paths_return_value(body) and _only_tail_returns(body) and not any(isinstance(n, (ast.For, ast.While)) and any(isinstance(r, ast.Return) for r in ast.walk(n)) for s in body for n in ast.walk(s)):
                        new = self.rename_locals(fn, body, m)

                        def ret_to_assign(ss: List[ast.stmt]) -> List[ast.stmt]:
                            res = []
                            for s in ss:
                                if isinstance(s, ast.Return):
                                    res.append(ast.copy_location(ast.Assign([copy.deepcopy(targets)], s.value), st))
                                elif isinstance(s, ast.If):
                                    s.body = ret_to_assign(s.body)
                                    s.orelse = ret_to_assign(s.orelse)
                                    res.append(s)
                                else:
                                    res.append(s)
                            return res

                        new = ret_to_assign(new)
                        _relocate(new, st)
                        out.extend(self.stmt_inline(new))
                        self.changed = True
                        continue
            out.append(st)
        return out


class _Divmod(ast.NodeTransformer):
    """`q, r = divmod(x, c)` is `q = x // c; r = x % c` for every Python int (and `x >> k`, `x & (2**k - 1)` when c = 2**k):
    the bit-field rules read shifts and masks."""

    def _split(self, st: ast.Assign):
        if not (len(st.targets) == 1 and isinstance(st.targets[0], (ast.Tuple, ast.List)) and len(st.targets[0].elts) == 2 and all(isinstance(e, ast.Name) for e in st.targets[0].elts)):
            return None
        v = st.value
        if not (isinstance(v, ast.Call) and isinstance(v.func, ast.Name) and v.func.id == "divmod" and len(v.args) == 2 and not v.keywords):
            return None
        x, c = v.args
        if not (isinstance(c, ast.Constant) and isinstance(c.value, int) and not isinstance(c.value, bool) and c.value > 0):
            return None
        q, r = st.targets[0].elts
        pre = []
        if not isinstance(x, (ast.Name, ast.Constant)) or (isinstance(x, ast.Name) and x.id in (q.id, r.id)):
            # the dividend is evaluated once: kept in a temporary
            self.n = getattr(self, "n", 0) + 1
            tmp = f"dividend__{self.n}"
            pre = [ast.Assign(targets=[ast.Name(id=tmp, ctx=ast.Store())], value=x)]
            x = ast.Name(id=tmp, ctx=ast.Load())
        k = c.value.bit_length() - 1
        if c.value == 1 << k and k > 0:
            qv = ast.BinOp(left=copy.deepcopy(x), op=ast.RShift(), right=ast.Constant(value=k))
            rv = ast.BinOp(left=copy.deepcopy(x), op=ast.BitAnd(), right=ast.Constant(value=c.value - 1))
        else:
            qv = ast.BinOp(left=copy.deepcopy(x), op=ast.FloorDiv(), right=ast.Constant(value=c.value))
            rv = ast.BinOp(left=copy.deepcopy(x), op=ast.Mod(), right=ast.Constant(value=c.value))
        out = pre + [ast.Assign(targets=[ast.Name(id=q.id, ctx=ast.Store())], value=qv), ast.Assign(targets=[ast.Name(id=r.id, ctx=ast.Store())], value=rv)]
        for o in out:
            ast.copy_location(o, st)
            ast.fix_missing_locations(o)
        return out

    def _loop(self, st: ast.For):
        """`for v in divmod(x, c): BODY` is BODY with v = x // c followed by BODY with v = x % c (x a name, BODY without
        break / continue / a store to v or x)."""
        it = st.iter
        if not (isinstance(st.target, ast.Name) and not st.orelse and isinstance(it, ast.Call) and isinstance(it.func, ast.Name) and it.func.id == "divmod" and len(it.args) == 2 and not it.keywords):
            return None
        x, c = it.args
        if not (isinstance(x, ast.Name) and isinstance(c, ast.Constant) and isinstance(c.value, int) and not isinstance(c.value, bool) and c.value > 0):
            return None
        if any(isinstance(n, (ast.Break, ast.Continue)) or (isinstance(n, ast.Name) and isinstance(n.ctx, ast.Store) and n.id in (st.target.id, x.id)) for b in st.body for n in ast.walk(b)):
            return None
        k = c.value.bit_length() - 1
        if c.value == 1 << k and k > 0:
            parts = [ast.BinOp(left=copy.deepcopy(x), op=ast.RShift(), right=ast.Constant(value=k)), ast.BinOp(left=copy.deepcopy(x), op=ast.BitAnd(), right=ast.Constant(value=c.value - 1))]
        else:
            parts = [ast.BinOp(left=copy.deepcopy(x), op=ast.FloorDiv(), right=ast.Constant(value=c.value)), ast.BinOp(left=copy.deepcopy(x), op=ast.Mod(), right=ast.Constant(value=c.value))]
        out = []
        for pexp in parts:
            for b in st.body:
                nb = _Subst({st.target.id: pexp}).visit(copy.deepcopy(b))
                ast.copy_location(nb, b)
                ast.fix_missing_locations(nb)
                out.append(nb)
        return out

    def generic_visit(self, node):
        super().generic_visit(node)
        for fld in ("body", "orelse", "finalbody"):
            seq = getattr(node, fld, None)
            if isinstance(seq, list) and seq and isinstance(seq[0], ast.stmt):
                new = []
                for st in seq:
                    rep = self._split(st) if isinstance(st, ast.Assign) else (self._loop(st) if isinstance(st, ast.For) else None)
                    new.extend(rep if rep else [st])
                setattr(node, fld, new)
        return node


class _Unroll(ast.NodeTransformer):
    """`[f(k) for k in (2, 1, 0)]` is `[f(2), f(1), f(0)]`; integer arithmetic on constants is folded (`2 + 3` -> `5`)."""

    def visit_ListComp(self, n: ast.ListComp):
        self.generic_visit(n)
        if len(n.generators) == 1 and not n.generators[0].ifs and not n.generators[0].is_async and isinstance(n.generators[0].target, ast.Name) and isinstance(n.generators[0].iter, (ast.Tuple, ast.List)) and 1 <= len(n.generators[0].iter.elts) <= 8 and all(isinstance(e, ast.Constant) and isinstance(e.value, int) for e in n.generators[0].iter.elts):
            var = n.generators[0].target.id
            elts = []
            for e in n.generators[0].iter.elts:
                item = _Subst({var: e}).visit(copy.deepcopy(n.elt))
                elts.append(_Fold().visit(item))
            out = ast.List(elts=elts, ctx=ast.Load())
            ast.copy_location(out, n)
            ast.fix_missing_locations(out)
            return out
        return n


class _UnrollUnpack(ast.NodeTransformer):
    """`a, b, c = (f(x) for x in (e1, e2, e3))` (or a list comprehension) is `a, b, c = f(e1), f(e2), f(e3)` when the
    items are side-effect free names / attributes / constants: each target then has its own defining expression."""

    def visit_Assign(self, n: ast.Assign):
        self.generic_visit(n)
        if len(n.targets) == 1 and isinstance(n.targets[0], (ast.Tuple, ast.List)) and isinstance(n.value, (ast.GeneratorExp, ast.ListComp)):
            g = n.value.generators
            if len(g) == 1 and not g[0].ifs and not g[0].is_async and isinstance(g[0].target, ast.Name) and isinstance(g[0].iter, (ast.Tuple, ast.List)) and len(g[0].iter.elts) == len(n.targets[0].elts):
                items = g[0].iter.elts

                def simple(e):
                    while isinstance(e, ast.Attribute):
                        e = e.value
                    return isinstance(e, (ast.Name, ast.Constant))

                if all(simple(e) for e in items):
                    var = g[0].target.id
                    elts = [_Subst({var: e}).visit(copy.deepcopy(n.value.elt)) for e in items]
                    n.value = ast.copy_location(ast.Tuple(elts=elts, ctx=ast.Load()), n.value)
                    ast.fix_missing_locations(n)
        return n


class _FoldJoined(ast.NodeTransformer):
    """An f-string part that is a constant (`{'$'}` after constant propagation) is literal text."""

    def visit_FormattedValue(self, n: ast.FormattedValue):
        # a format spec stays a JoinedStr (that is what the grammar of the tree requires)
        n.value = self.visit(n.value)
        return n

    def visit_JoinedStr(self, n: ast.JoinedStr):
        self.generic_visit(n)
        vals: List[ast.expr] = []
        for v in n.values:
            if isinstance(v, ast.FormattedValue) and v.conversion == -1 and v.format_spec is None and isinstance(v.value, ast.Constant) and isinstance(v.value.value, str):
                v = ast.copy_location(ast.Constant(value=v.value.value), v)
            if isinstance(v, ast.Constant) and vals and isinstance(vals[-1], ast.Constant):
                vals[-1] = ast.copy_location(ast.Constant(value=str(vals[-1].value) + str(v.value)), vals[-1])
            else:
                vals.append(v)
        if len(vals) == 1 and isinstance(vals[0], ast.Constant):
            return ast.copy_location(ast.Constant(value=vals[0].value), n)
        n.values = vals
        return n


class _Fold(ast.NodeTransformer):
    def visit_BinOp(self, n: ast.BinOp):
        self.generic_visit(n)
        if isinstance(n.left, ast.Constant) and isinstance(n.right, ast.Constant) and all(isinstance(x.value, int) and not isinstance(x.value, bool) for x in (n.left, n.right)):
            ops = {ast.Add: lambda a, b: a + b, ast.Sub: lambda a, b: a - b, ast.Mult: lambda a, b: a * b}
            f = ops.get(type(n.op))
            if f is not None:
                out = ast.Constant(value=f(n.left.value, n.right.value))
                ast.copy_location(out, n)
                return out
        return n


_PURE_CALLS = {"getbit", "pack", "int", "len", "min", "max", "abs"}


def _inline_list_temps(fn: ast.FunctionDef):
    """`rgb = [<pure>...]` directly followed by the only statement that uses `rgb` (once): the display is put back at the use."""

    def pure(e: ast.AST) -> bool:
        return all(not isinstance(c, ast.Call) or (isinstance(c.func, ast.Name) and c.func.id in _PURE_CALLS) for c in ast.walk(e)) and not any(isinstance(c, (ast.Await, ast.Yield, ast.YieldFrom, ast.NamedExpr, ast.Lambda)) for c in ast.walk(e))

    def do(seq: List[ast.stmt]) -> List[ast.stmt]:
        out: List[ast.stmt] = []
        i = 0
        while i < len(seq):
            st = seq[i]
            if i + 1 < len(seq) and isinstance(st, ast.Assign) and len(st.targets) == 1 and isinstance(st.targets[0], ast.Name) and isinstance(st.value, ast.List) and pure(st.value):
                name = st.targets[0].id
                nxt = seq[i + 1]
                total = sum(1 for n in ast.walk(fn) if isinstance(n, ast.Name) and n.id == name)
                here = [n for n in ast.walk(nxt) if isinstance(n, ast.Name) and n.id == name and isinstance(n.ctx, ast.Load)]
                simple_next = isinstance(nxt, (ast.Expr, ast.Assign, ast.Return)) and not any(isinstance(c, (ast.FunctionDef, ast.Lambda, ast.ListComp, ast.GeneratorExp)) for c in ast.walk(nxt))
                if total == 2 and len(here) == 1 and simple_next:
                    seq[i + 1] = _Subst({name: st.value}).visit(nxt)
                    i += 1
                    continue
            out.append(st)
            i += 1
        return out

    for node in ast.walk(fn):
        for fld in ("body", "orelse", "finalbody"):
            seq = getattr(node, fld, None)
            if isinstance(seq, list) and seq and isinstance(seq[0], ast.stmt):
                setattr(node, fld, do(seq))


def _unroll_table_loops(fn: ast.FunctionDef):
    """`for a, b, c in TABLE: BODY` over a small constant table of tuples (bound once, elements constants / names) reads as
    BODY once per row with the row's values in place of a, b, c; locals of BODY that are not read after the loop get a
    per-row name.  A dict filled with constant keys and used once as `f(**d)` reads as keyword arguments."""
    stores: Dict[str, int] = {}
    for n in ast.walk(fn):
        if isinstance(n, ast.Name) and isinstance(n.ctx, ast.Store):
            stores[n.id] = stores.get(n.id, 0) + 1
    tables: Dict[str, ast.AST] = {}
    for n in ast.walk(fn):
        if isinstance(n, ast.Assign) and len(n.targets) == 1 and isinstance(n.targets[0], ast.Name) and stores.get(n.targets[0].id) == 1 and isinstance(n.value, (ast.Tuple, ast.List)) and 1 <= len(n.value.elts) <= 6:
            rows = n.value.elts
            if all(isinstance(r, (ast.Tuple, ast.List)) and len(r.elts) == len(rows[0].elts) and all(isinstance(e, (ast.Constant, ast.Name)) for e in r.elts) for r in rows if isinstance(rows[0], (ast.Tuple, ast.List))) and isinstance(rows[0], (ast.Tuple, ast.List)):
                tables[n.targets[0].id] = n.value
    counter = [0]

    def do(seq: List[ast.stmt]) -> List[ast.stmt]:
        out: List[ast.stmt] = []
        for i, st in enumerate(seq):
            for fld in ("body", "orelse", "finalbody"):
                sub = getattr(st, fld, None)
                if isinstance(sub, list) and sub and isinstance(sub[0], ast.stmt) and not isinstance(st, ast.FunctionDef):
                    setattr(st, fld, do(sub))
            if isinstance(st, ast.For) and not st.orelse and isinstance(st.iter, ast.Name) and st.iter.id in tables and isinstance(st.target, (ast.Tuple, ast.List)) and all(isinstance(t, ast.Name) for t in st.target.elts) and len(st.target.elts) == len(tables[st.iter.id].elts[0].elts) and not any(isinstance(x, (ast.Break, ast.Continue, ast.Return, ast.Yield, ast.FunctionDef, ast.Lambda)) for b in st.body for x in ast.walk(b)):
                tnames = [t.id for t in st.target.elts]
                body_stores = {x.id for b in st.body for x in ast.walk(b) if isinstance(x, ast.Name) and isinstance(x.ctx, ast.Store)}
                read_later = {x.id for later in seq[i + 1 :] for x in ast.walk(later) if isinstance(x, ast.Name) and isinstance(x.ctx, ast.Load)}
                if set(tnames) & (body_stores | read_later):
                    out.append(st)
                    continue
                private = body_stores - read_later
                for k, row in enumerate(tables[st.iter.id].elts):
                    counter[0] += 1
                    m: Dict[str, ast.AST] = {t: e for t, e in zip(tnames, row.elts)}
                    for p_ in private:
                        m[p_] = ast.Name(id=f"{p_}__row{counter[0]}", ctx=ast.Load())
                    for b in copy.deepcopy(st.body):
                        b2 = _Subst(m).visit(b)
                        for x in ast.walk(b2):
                            if isinstance(x, ast.Name) and isinstance(x.ctx, ast.Store) and x.id in private:
                                x.id = f"{x.id}__row{counter[0]}"
                        out.append(b2)
                continue
            out.append(st)
        return out

    fn.body = do(fn.body)

    class _GetAttr(ast.NodeTransformer):
        """`getattr(x, "name")` with a constant identifier is `x.name`."""

        def visit_Call(self, c):
            self.generic_visit(c)
            if isinstance(c.func, ast.Name) and c.func.id == "getattr" and len(c.args) == 2 and not c.keywords and isinstance(c.args[1], ast.Constant) and isinstance(c.args[1].value, str) and c.args[1].value.isidentifier():
                return ast.copy_location(ast.Attribute(value=c.args[0], attr=c.args[1].value, ctx=ast.Load()), c)
            return c

    if counter[0]:
        fn.body = [_GetAttr().visit(b) for b in fn.body]
    ast.fix_missing_locations(fn)
    # d = {} ; d["k"] = e ... ; f(**d)
    for dname in [n.target.id if isinstance(n, ast.AnnAssign) else n.targets[0].id for n in fn.body if (isinstance(n, ast.AnnAssign) and isinstance(n.target, ast.Name) and isinstance(n.value, ast.Dict) and not n.value.keys) or (isinstance(n, ast.Assign) and len(n.targets) == 1 and isinstance(n.targets[0], ast.Name) and isinstance(n.value, ast.Dict) and not n.value.keys)]:
        uses = [x for x in ast.walk(fn) if isinstance(x, ast.Name) and x.id == dname]
        key_stores = [st for st in ast.walk(fn) if isinstance(st, ast.Assign) and len(st.targets) == 1 and isinstance(st.targets[0], ast.Subscript) and isinstance(st.targets[0].value, ast.Name) and st.targets[0].value.id == dname and isinstance(st.targets[0].slice, ast.Constant) and isinstance(st.targets[0].slice.value, str)]
        splats = [(c, k) for c in ast.walk(fn) if isinstance(c, ast.Call) for k in c.keywords if k.arg is None and isinstance(k.value, ast.Name) and k.value.id == dname]
        keys = [st.targets[0].slice.value for st in key_stores]
        if len(splats) != 1 or not key_stores or len(set(keys)) != len(keys) or len(uses) != 1 + len(key_stores) + 1:
            continue
        # every store is a top-level statement of fn (executed once, before the call)
        if not all(st in fn.body for st in key_stores):
            continue
        for st in key_stores:
            st.targets = [ast.copy_location(ast.Name(id=f"{dname}__{st.targets[0].slice.value}", ctx=ast.Store()), st.targets[0])]
        call, kw = splats[0]
        call.keywords = [k for k in call.keywords if k is not kw] + [ast.keyword(arg=k_, value=ast.Name(id=f"{dname}__{k_}", ctx=ast.Load())) for k_ in sorted(keys)]
        ast.fix_missing_locations(fn)


def _fold_list_builders(fn: ast.FunctionDef):
    """A list built in steps reads as the display it ends up being:
        xs = [f(c) for c in CONSTS]      (CONSTS a tuple / list of constants bound once in fn)   -> a display
        xs.append(e) / xs.extend([..]) / xs.extend(f(c) for c in CONSTS) / xs += [..]            -> merged into it
        ys = xs  (the only other use of xs, directly after)                                      -> xs itself
    Only consecutive statements are merged: nothing can observe the list in between."""
    consts: Dict[str, ast.AST] = {}
    stores: Dict[str, int] = {}
    for n in ast.walk(fn):
        if isinstance(n, ast.Name) and isinstance(n.ctx, ast.Store):
            stores[n.id] = stores.get(n.id, 0) + 1
    for n in ast.walk(fn):
        if isinstance(n, ast.Assign) and len(n.targets) == 1 and isinstance(n.targets[0], ast.Name) and stores.get(n.targets[0].id) == 1 and isinstance(n.value, (ast.Tuple, ast.List)) and all(isinstance(e, ast.Constant) for e in n.value.elts):
            consts[n.targets[0].id] = n.value

    def display(e: ast.AST) -> Optional[List[ast.AST]]:
        if isinstance(e, (ast.List, ast.Tuple)) and not any(isinstance(x, ast.Starred) for x in e.elts):
            return list(e.elts)
        if isinstance(e, (ast.ListComp, ast.GeneratorExp)) and len(e.generators) == 1:
            g = e.generators[0]
            it = consts.get(g.iter.id) if isinstance(g.iter, ast.Name) else g.iter
            if not g.ifs and not g.is_async and isinstance(g.target, ast.Name) and isinstance(it, (ast.Tuple, ast.List)) and len(it.elts) <= 32 and all(isinstance(x, ast.Constant) for x in it.elts):
                return [ast.copy_location(_Subst({g.target.id: c}).visit(copy.deepcopy(e.elt)), e) for c in it.elts]
        return None

    def do(seq: List[ast.stmt]) -> List[ast.stmt]:
        out: List[ast.stmt] = []
        cur: Optional[ast.Assign] = None  # the display being built, last statement of `out`
        for st in seq:
            if isinstance(st, ast.Assign) and len(st.targets) == 1 and isinstance(st.targets[0], ast.Name):
                d = display(st.value) if isinstance(st.value, (ast.ListComp, ast.List)) else None
                if d is not None:
                    st.value = ast.copy_location(ast.List(elts=d, ctx=ast.Load()), st.value)
                    out.append(st)
                    cur = st
                    continue
                if cur is not None and isinstance(st.value, ast.Name) and st.value.id == cur.targets[0].id and sum(1 for x in ast.walk(fn) if isinstance(x, ast.Name) and x.id == st.value.id and isinstance(x.ctx, ast.Load) and not _is_builder_receiver(fn, x)) == 1 and stores.get(st.targets[0].id) == 1:
                    cur.targets = [st.targets[0]]
                    continue
            if cur is not None:
                name = cur.targets[0].id
                if isinstance(st, ast.Expr) and isinstance(st.value, ast.Call) and isinstance(st.value.func, ast.Attribute) and isinstance(st.value.func.value, ast.Name) and st.value.func.value.id == name and len(st.value.args) == 1 and not st.value.keywords:
                    a = st.value.args[0]
                    if st.value.func.attr == "append" and name not in names_in(a):
                        cur.value.elts.append(a)
                        continue
                    if st.value.func.attr == "extend" and name not in names_in(a):
                        d = display(a)
                        if d is not None:
                            cur.value.elts.extend(d)
                            continue
                if isinstance(st, ast.AugAssign) and isinstance(st.op, ast.Add) and isinstance(st.target, ast.Name) and st.target.id == name and name not in names_in(st.value):
                    d = display(st.value)
                    if d is not None:
                        cur.value.elts.extend(d)
                        continue
            cur = None
            out.append(st)
        return out

    def names_in(e: ast.AST) -> Set[str]:
        return {x.id for x in ast.walk(e) if isinstance(x, ast.Name)}

    for node in ast.walk(fn):
        for fld in ("body", "orelse", "finalbody"):
            seq = getattr(node, fld, None)
            if isinstance(seq, list) and seq and isinstance(seq[0], ast.stmt):
                setattr(node, fld, do(seq))
    ast.fix_missing_locations(fn)


def _is_builder_receiver(fn: ast.FunctionDef, name_node: ast.Name) -> bool:
    for c in ast.walk(fn):
        if isinstance(c, ast.Attribute) and c.value is name_node and c.attr in ("append", "extend"):
            return True
    return False


def inline_once_locals(fn: ast.FunctionDef) -> ast.FunctionDef:
    """A copy of fn in which every local that is bound exactly once (plain assignment of a call-free comparison / boolean
    expression, or of a constructor call) is replaced by its defining expression at its uses: `is_break = K(...)` ...
    `BasicIf(is_break, ...)` reads as `BasicIf(K(...), ...)`.  Order of evaluation only matters for side effects, and the
    expressions taken are constructor calls and comparisons of parameters."""
    fn = copy.deepcopy(fn)
    for _ in range(4):
        stores: Dict[str, int] = {}
        for n in ast.walk(fn):
            if isinstance(n, ast.Name) and isinstance(n.ctx, ast.Store):
                stores[n.id] = stores.get(n.id, 0) + 1
        params = {a.arg for a in fn.args.args + fn.args.kwonlyargs}
        defs: Dict[str, ast.AST] = {}
        for n in ast.walk(fn):
            if isinstance(n, ast.Assign) and len(n.targets) == 1 and isinstance(n.targets[0], ast.Name) and stores.get(n.targets[0].id) == 1 and n.targets[0].id not in params:
                v = n.value
                pure = isinstance(v, (ast.Compare, ast.BoolOp, ast.UnaryOp)) and not any(isinstance(x, ast.Call) for x in ast.walk(v))
                ctor = isinstance(v, ast.Call) and isinstance(v.func, ast.Name) and v.func.id[:1].isupper()
                if (pure or ctor) and not any(isinstance(x, ast.Name) and stores.get(x.id, 0) > 1 for x in ast.walk(v)):
                    defs[n.targets[0].id] = v
        if not defs:
            break

        class _Drop(ast.NodeTransformer):
            def visit_Assign(self, a):
                if len(a.targets) == 1 and isinstance(a.targets[0], ast.Name) and a.targets[0].id in defs and a.value is defs[a.targets[0].id]:
                    return None
                return self.generic_visit(a)

        _Drop().visit(fn)
        for fld in ("body",):
            fn.body = [_Subst(defs).visit(b) for b in fn.body]
        ast.fix_missing_locations(fn)
    return fn


def _class_constants(t: ast.Module):
    """`_NAME = "text"` in a class body, never re-bound: `self._NAME` / `cls._NAME` / `Class._NAME` read as the constant."""
    classes = [c for c in t.body if isinstance(c, ast.ClassDef)]
    body_names: Dict[str, int] = {}
    for c in classes:
        for st in c.body:
            tg = st.targets[0] if isinstance(st, ast.Assign) and len(st.targets) == 1 else (st.target if isinstance(st, ast.AnnAssign) else None)
            if isinstance(tg, ast.Name):
                body_names[tg.id] = body_names.get(tg.id, 0) + 1
    stored_attrs = {n.attr for n in ast.walk(t) if isinstance(n, ast.Attribute) and isinstance(n.ctx, (ast.Store, ast.Del))}
    stored_attrs |= {a.args[1].value for a in ast.walk(t) if isinstance(a, ast.Call) and isinstance(a.func, ast.Name) and a.func.id == "setattr" and len(a.args) >= 2 and isinstance(a.args[1], ast.Constant)}
    for c in classes:
        consts: Dict[str, ast.Constant] = {}
        for st in c.body:
            tg = st.targets[0] if isinstance(st, ast.Assign) and len(st.targets) == 1 else (st.target if isinstance(st, ast.AnnAssign) else None)
            val = getattr(st, "value", None)
            if isinstance(tg, ast.Name) and isinstance(val, ast.Constant) and isinstance(val.value, (str, int, float)) and not isinstance(val.value, bool) and body_names.get(tg.id) == 1 and tg.id not in stored_attrs:
                consts[tg.id] = val
        if not consts:
            continue

        class _CC(ast.NodeTransformer):
            def __init__(self, roots):
                self.roots = roots

            def visit_Attribute(self, n: ast.Attribute):
                self.generic_visit(n)
                if isinstance(n.ctx, ast.Load) and n.attr in consts and isinstance(n.value, ast.Name) and n.value.id in self.roots:
                    return ast.copy_location(ast.Constant(value=consts[n.attr].value), n)
                return n

        for m in c.body:
            if isinstance(m, ast.FunctionDef):
                _CC({"self", "cls", c.name}).visit(m)
        for other in t.body:
            if other is not c:
                _CC({c.name}).visit(other)


def _expand_partials(t: ast.Module):
    """`f = functools.partial(g, *a, **k)` bound once in a function: `f(x, **k2)` reads `g(*a, x, **k, **k2)`."""
    for fn in [f for f in ast.walk(t) if isinstance(f, ast.FunctionDef)]:
        stores: Dict[str, int] = {}
        for n in ast.walk(fn):
            if isinstance(n, ast.Name) and isinstance(n.ctx, ast.Store):
                stores[n.id] = stores.get(n.id, 0) + 1
        parts: Dict[str, ast.Call] = {}
        for n in ast.walk(fn):
            if isinstance(n, ast.Assign) and len(n.targets) == 1 and isinstance(n.targets[0], ast.Name) and stores.get(n.targets[0].id) == 1 and isinstance(n.value, ast.Call):
                f_ = n.value.func
                is_partial = (isinstance(f_, ast.Attribute) and f_.attr == "partial" and isinstance(f_.value, ast.Name) and f_.value.id == "functools") or (isinstance(f_, ast.Name) and f_.id == "partial")
                if is_partial and n.value.args and not any(isinstance(a, ast.Starred) for a in n.value.args) and all(k.arg is not None for k in n.value.keywords):
                    parts[n.targets[0].id] = n.value
        if not parts:
            continue

        class _P(ast.NodeTransformer):
            def visit_Call(self, c: ast.Call):
                self.generic_visit(c)
                if isinstance(c.func, ast.Name) and c.func.id in parts:
                    p_ = parts[c.func.id]
                    given = {k.arg for k in c.keywords}
                    return ast.copy_location(
                        ast.Call(func=copy.deepcopy(p_.args[0]), args=[copy.deepcopy(a) for a in p_.args[1:]] + c.args, keywords=[copy.deepcopy(k) for k in p_.keywords if k.arg not in given] + c.keywords),
                        c,
                    )
                return c

            def visit_Assign(self, a: ast.Assign):
                if len(a.targets) == 1 and isinstance(a.targets[0], ast.Name) and a.targets[0].id in parts and a.value is parts[a.targets[0].id]:
                    return None
                return self.generic_visit(a)

        # only when every use of the name is a call (not handed on as a value)
        for nm in list(parts):
            uses = [n for n in ast.walk(fn) if isinstance(n, ast.Name) and n.id == nm and isinstance(n.ctx, ast.Load)]
            called = [c for c in ast.walk(fn) if isinstance(c, ast.Call) and isinstance(c.func, ast.Name) and c.func.id == nm]
            if len(uses) != len(called):
                parts.pop(nm)
        if parts:
            _P().visit(fn)
            ast.fix_missing_locations(fn)


def normalise_module(tree: ast.Module) -> ast.Module:
    t = copy.deepcopy(tree)
    _class_constants(t)
    _expand_partials(t)
    t = _Divmod().visit(t)
    t = _Unroll().visit(t)
    t = _UnrollUnpack().visit(t)
    for f_ in [f for f in ast.walk(t) if isinstance(f, ast.FunctionDef)]:
        _inline_list_temps(f_)
    # ---- module-level data re-stated inside the functions that read it
    data: Dict[str, ast.Assign] = {}
    for n in t.body:
        if isinstance(n, ast.Assign) and len(n.targets) == 1 and isinstance(n.targets[0], ast.Name):
            v = n.value
            if isinstance(v, (ast.List, ast.Tuple, ast.Constant, ast.ListComp, ast.BinOp, ast.Dict)) and not any(isinstance(c, ast.Call) and not (isinstance(c.func, ast.Name) and c.func.id in ("pack", "range", "len", "tuple", "list")) for c in ast.walk(v)):
                data[n.targets[0].id] = n
    # (a decorated function - lru_cache, contextmanager ... - is not its body: never inlined)
    helpers: Dict[str, ast.FunctionDef] = {f.name: f for f in t.body if isinstance(f, ast.FunctionDef) and f.name not in ENTRY and f.name not in ("getbit", "pack", "iotostr", "strtoio") and not f.decorator_list}
    for fn in [f for f in ast.walk(t) if isinstance(f, ast.FunctionDef)]:
        for n in ast.walk(fn):
            if isinstance(n, ast.FunctionDef) and n is not fn and n.name not in helpers and n.name not in ENTRY:
                pass
    for _ in range(4):
        changed = False
        for fn in [f for f in t.body if isinstance(f, ast.FunctionDef)]:
            local_helpers = dict(helpers)
            local_helpers.pop(fn.name, None)
            # a nested closure that is called exactly once, as a statement (`dump_row(width // 2)`), reads as its body there
            for g_ in [n for n in fn.body if isinstance(n, ast.FunctionDef) and not n.decorator_list and n.name not in local_helpers]:
                calls_ = [c for c in ast.walk(fn) if isinstance(c, ast.Call) and isinstance(c.func, ast.Name) and c.func.id == g_.name]
                loads_ = [x for x in ast.walk(fn) if isinstance(x, ast.Name) and x.id == g_.name and isinstance(x.ctx, ast.Load)]
                as_stmt = [st_ for st_ in ast.walk(fn) if isinstance(st_, ast.Expr) and st_.value in calls_]
                inside_self = any(c in list(ast.walk(g_)) for c in calls_)
                if len(calls_) == 1 and len(loads_) == 1 and len(as_stmt) == 1 and not inside_self and not any(isinstance(x, (ast.Yield, ast.YieldFrom, ast.Nonlocal, ast.Global)) for x in ast.walk(g_)) and any(isinstance(x, (ast.For, ast.While)) for x in ast.walk(g_)):
                    local_helpers[g_.name] = g_
            inl = _Inliner(local_helpers)
            inl.counter = _ * 100
            fn.body = inl.stmt_inline(fn.body)
            # an inlined once-called closure is gone
            fn.body = [st_ for st_ in fn.body if not (isinstance(st_, ast.FunctionDef) and local_helpers.get(st_.name) is st_ and not any(isinstance(x, ast.Name) and x.id == st_.name and isinstance(x.ctx, ast.Load) for x in ast.walk(fn)))]
            # nested single-expression helpers (`def read_byte(): return ord(...)`) are inlined as expressions only;
            # multi-statement closures (`dump`, `debug`) are part of the shape the rules read and stay
            for n in ast.walk(fn):
                if isinstance(n, ast.FunctionDef) and n is not fn:
                    b = _body_wo_doc(n)
                    if len(b) == 1 and isinstance(b[0], ast.Return) and b[0].value is not None:
                        inl.helpers[n.name] = n
            inl.expr_inline(fn)
            # nested functions: inline inside them too (helpers defined at module level)
            changed = changed or inl.changed
        if not changed:
            break
    # private helper methods of a class are inlined into the methods that call them through self
    from collections import Counter

    defined = Counter(m.name for c in t.body if isinstance(c, ast.ClassDef) for m in c.body if isinstance(m, ast.FunctionDef))
    for cls in [c for c in t.body if isinstance(c, ast.ClassDef)]:
        for _ in range(3):
            changed = False
            # (a method that another class of the module also defines may be an overridable hook: dispatched, not inlined)
            priv = {m.name: m for m in cls.body if isinstance(m, ast.FunctionDef) and m.name.startswith("_") and not m.name.startswith("__") and defined[m.name] == 1}
            if not priv and not helpers:
                break
            for m in [x for x in cls.body if isinstance(x, ast.FunctionDef)]:
                cand = {k: v for k, v in priv.items() if k != m.name}
                inl = _Inliner(dict(helpers), cand)
                inl.counter = 500 + _ * 100
                m.body = inl.stmt_inline(m.body)
                inl.expr_inline(m)
                changed = changed or inl.changed
            if not changed:
                break
    # `if A and h(x): body` (no else) with a helper call in a later operand: `if A: t = h(x); if t: body`
    def split_and(stmts: List[ast.stmt], known: Dict[str, ast.FunctionDef], counter: List[int]) -> List[ast.stmt]:
        out_: List[ast.stmt] = []
        for st in stmts:
            for fld in ("body", "orelse", "finalbody"):
                sub = getattr(st, fld, None)
                if isinstance(sub, list) and sub and isinstance(sub[0], ast.stmt) and not isinstance(st, ast.FunctionDef):
                    setattr(st, fld, split_and(sub, known, counter))
            if isinstance(st, ast.If) and not st.orelse and isinstance(st.test, ast.BoolOp) and isinstance(st.test.op, ast.And) and len(st.test.values) == 2:
                a_, b_ = st.test.values
                if isinstance(b_, ast.Call) and isinstance(b_.func, ast.Name) and b_.func.id in known and not any(isinstance(c, ast.Call) and isinstance(c.func, ast.Name) and c.func.id in known for c in ast.walk(a_)):
                    counter[0] += 1
                    tmp = f"cond__{b_.func.id}{counter[0]}"
                    inner = ast.If(ast.Name(tmp, ast.Load()), st.body, [])
                    outer = ast.If(a_, [ast.Assign([ast.Name(tmp, ast.Store())], b_), inner], [])
                    for x in (inner, outer, outer.body[0]):
                        ast.copy_location(x, st)
                    ast.fix_missing_locations(outer)
                    out_.append(outer)
                    continue
            out_.append(st)
        return out_

    cnt_ = [0]
    for fn in [f for f in t.body if isinstance(f, ast.FunctionDef)]:
        fn.body = split_and(fn.body, {k: v for k, v in helpers.items() if k != fn.name}, cnt_)
    # module-level scalar constants are propagated into every function that does not re-bind the name
    consts: Dict[str, ast.Constant] = {}
    rebound_at_module = [n.targets[0].id for n in t.body if isinstance(n, ast.Assign) and len(n.targets) == 1 and isinstance(n.targets[0], ast.Name)]
    for n in t.body:
        if isinstance(n, ast.Assign) and len(n.targets) == 1 and isinstance(n.targets[0], ast.Name) and isinstance(n.value, ast.Constant) and isinstance(n.value.value, (int, float, str)) and not isinstance(n.value.value, bool) and rebound_at_module.count(n.targets[0].id) == 1:
            consts[n.targets[0].id] = n.value
    if consts:
        for fn in [f for f in t.body if isinstance(f, ast.FunctionDef)] + [m for c in t.body if isinstance(c, ast.ClassDef) for m in c.body if isinstance(m, ast.FunctionDef)]:
            local = _stores(fn.body) | {a.arg for a in fn.args.args}
            m_ = {k: v for k, v in consts.items() if k not in local and not any(isinstance(g, ast.Global) and k in g.names for g in ast.walk(fn))}
            if m_:
                fn.body = [_Subst(m_).visit(st) for st in fn.body]
    for fn in [f for f in t.body if isinstance(f, ast.FunctionDef) and f.name in ENTRY]:
        bound = _stores(fn.body)
        used = {n.id for n in ast.walk(fn) if isinstance(n, ast.Name) and isinstance(n.ctx, ast.Load)}
        pre = []
        # transitive closure over data that refers to other data
        need = [k for k in data if k in used and k not in bound]
        seen: Set[str] = set()
        while need:
            k = need.pop()
            if k in seen:
                continue
            seen.add(k)
            for n in ast.walk(data[k].value):
                if isinstance(n, ast.Name) and n.id in data and n.id not in seen and n.id not in bound:
                    need.append(n.id)
        for n in t.body:
            if isinstance(n, ast.Assign) and isinstance(n.targets[0], ast.Name) and n.targets[0].id in seen:
                pre.append(copy.deepcopy(n))
        doc = 1 if fn.body and isinstance(fn.body[0], ast.Expr) and isinstance(fn.body[0].value, ast.Constant) and isinstance(fn.body[0].value.value, str) else 0
        fn.body = fn.body[:doc] + pre + fn.body[doc:]
    class _Fold(ast.NodeTransformer):
        def visit_Call(self, n):
            self.generic_visit(n)
            if isinstance(n.func, ast.Name) and n.func.id == "len" and len(n.args) == 1 and not n.keywords and isinstance(n.args[0], ast.Constant) and isinstance(n.args[0].value, (str, bytes)):
                return ast.copy_location(ast.Constant(len(n.args[0].value)), n)
            return n

    t = _Fold().visit(t)
    # a second inlining round for what the splitting exposed, then structure early returns of the entry functions
    for fn in [f for f in t.body if isinstance(f, ast.FunctionDef)]:
        lh = dict(helpers)
        lh.pop(fn.name, None)
        inl2 = _Inliner(lh)
        inl2.counter = 900
        fn.body = inl2.stmt_inline(fn.body)
        inl2.expr_inline(fn)
        if fn.name in ENTRY_STRUCTURED:
            fn.body = _structure_returns(fn.body)
    # local aliases of attribute chains (`x = a.b.c`, bound once, `a` bound at most once) are substituted back
    def is_chain(e: ast.AST) -> bool:
        while isinstance(e, ast.Attribute):
            e = e.value
        return isinstance(e, ast.Name)

    for fn in [f for f in t.body if isinstance(f, ast.FunctionDef) and f.name in ENTRY_STRUCTURED | {"start"}]:
        _unroll_table_loops(fn)
        binds: Dict[str, List[ast.Assign]] = {}
        for n in ast.walk(fn):
            if isinstance(n, ast.Assign) and len(n.targets) == 1 and isinstance(n.targets[0], ast.Name):
                binds.setdefault(n.targets[0].id, []).append(n)
        stores = {}
        for n in ast.walk(fn):
            if isinstance(n, ast.Name) and isinstance(n.ctx, ast.Store):
                stores[n.id] = stores.get(n.id, 0) + 1
        params = {a.arg for a in fn.args.args + fn.args.kwonlyargs}
        m_: Dict[str, ast.AST] = {}
        for name, bs in binds.items():
            if len(bs) == 1 and stores.get(name) == 1 and isinstance(bs[0].value, ast.Name) and stores.get(bs[0].value.id) == 1 and bs[0].value.id not in params and name not in params and bs[0].value.id != name:
                # `v = t` with both bound once: one object under two names
                m_[name] = bs[0].value
            elif len(bs) == 1 and stores.get(name) == 1 and isinstance(bs[0].value, ast.Attribute) and is_chain(bs[0].value):
                root = bs[0].value
                while isinstance(root, ast.Attribute):
                    root = root.value
                if stores.get(root.id, 0) <= 1 and root.id != name and name not in params:
                    m_[name] = bs[0].value
        if m_:
            class _Drop(ast.NodeTransformer):
                def visit_Assign(self, n):
                    if len(n.targets) == 1 and isinstance(n.targets[0], ast.Name) and n.targets[0].id in m_ and n.value is m_[n.targets[0].id]:
                        return None
                    return self.generic_visit(n)

            fn.body = [x for x in (_Drop().visit(st) for st in fn.body) if x is not None]
            for _r in range(3):
                fn.body = [_Subst(m_).visit(st) for st in fn.body]
    for fn in [f for f in t.body if isinstance(f, ast.FunctionDef) and f.name in ENTRY_STRUCTURED | {"start"}]:
        _fold_list_builders(fn)
    ast.fix_missing_locations(t)
    t = _FoldJoined().visit(t)
    ast.fix_missing_locations(t)
    return t
