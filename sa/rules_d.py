"""Decoder rules D1..D9."""

from __future__ import annotations

import ast
import copy
import re
from typing import Dict, List, Optional, Set, Tuple

from .core import AnalysisError, Ctx, rule
from .decoders import (
    DECODERS,
    BitEvalError,
    Poly,
    as_const,
    bit_eval,
    bits_of,
    decoderfacts,
    poly_eval,
    trim,
    var_bits,
)
from .pyast import call_name, names_loaded, resolve_alias, unparse, walk_no_nested

def _closure_key(fn: ast.FunctionDef, c: ast.FunctionDef) -> str:
    cl = sorted([n for n in ast.walk(fn) if isinstance(n, ast.FunctionDef) and n is not fn], key=lambda n: n.lineno)
    return f"closure{cl.index(c) + 1}"


REF_RGB = ["(getbit(c, 5) * 2 + getbit(c, 2)) * 85", "(getbit(c, 4) * 2 + getbit(c, 1)) * 85", "(getbit(c, 3) * 2 + getbit(c, 0)) * 85"]


def _ref_vectors():
    env = {"c": var_bits("c", 8)}
    return [trim(bit_eval(ast.parse(s, mode="eval").body, env)) for s in REF_RGB]


def _ref_rgb(i: int) -> Tuple[int, int, int]:
    b = lambda k: (i >> k) & 1  # noqa: E731
    return ((b(5) * 2 + b(2)) * 85, (b(4) * 2 + b(1)) * 85, (b(3) * 2 + b(0)) * 85)


def _aliases(fn: ast.FunctionDef, base: Set[str]) -> Set[str]:
    """Names that are plain aliases (`x = y`) of the given names inside fn."""
    out = set(base)
    changed = True
    while changed:
        changed = False
        for n in ast.walk(fn):
            if isinstance(n, ast.Assign) and isinstance(n.value, ast.Name) and n.value.id in out:
                for t in n.targets:
                    if isinstance(t, ast.Name) and t.id not in out:
                        out.add(t.id)
                        changed = True
    return out


def _out_names(fn: ast.FunctionDef) -> Set[str]:
    """The output stream: second parameter of convert() and its aliases."""
    ps = [a.arg for a in fn.args.args]
    return _aliases(fn, {ps[1]}) if len(ps) > 1 else set()


def _is_out_write(c: ast.AST, outs: Set[str]) -> bool:
    return isinstance(c, ast.Call) and call_name(c) == "write" and isinstance(c.func, ast.Attribute) and isinstance(c.func.value, ast.Name) and c.func.value.id in outs


def _palette_name(fn: ast.FunctionDef) -> Optional[str]:
    """The palette: the list that a nested closure indexes with its own parameter."""
    for n in ast.walk(fn):
        if isinstance(n, ast.FunctionDef) and n is not fn and n.args.args:
            par = n.args.args[0].arg
            for s_ in ast.walk(n):
                if isinstance(s_, ast.Subscript) and isinstance(s_.value, ast.Name) and isinstance(s_.slice, ast.Name) and s_.slice.id == par and any(call_name(c) == "pack" for c in ast.walk(n) if isinstance(c, ast.Call)):
                    return s_.value.id
    # no closure of that shape: the list read as sixteen header bytes
    for n in ast.walk(fn):
        if isinstance(n, ast.Assign) and len(n.targets) == 1 and isinstance(n.targets[0], ast.Name) and isinstance(n.value, ast.ListComp) and any(isinstance(c, ast.Call) and call_name(c) == "ord" for c in ast.walk(n.value)):
            src = n.value
            sixteen = any(isinstance(c, ast.Call) and call_name(c) == "read" and c.args and isinstance(c.args[0], ast.Constant) and c.args[0].value == 16 for c in ast.walk(src)) or any(
                isinstance(c, ast.Call) and call_name(c) == "range" and len(c.args) == 1 and isinstance(c.args[0], ast.Constant) and c.args[0].value == 16 for c in ast.walk(src)
            )
            if sixteen:
                return n.targets[0].id
    return None


def _palette_closures(fn: ast.FunctionDef) -> List[ast.FunctionDef]:
    out = []
    for n in ast.walk(fn):
        if isinstance(n, ast.FunctionDef) and n is not fn:
            pn = _palette_name(fn)
            has_pal = pn is not None and any(isinstance(s, ast.Subscript) and isinstance(s.value, ast.Name) and s.value.id == pn for s in ast.walk(n))
            has_pack = any(isinstance(c, ast.Call) and call_name(c) == "pack" for c in ast.walk(n))
            if has_pal and has_pack:
                out.append(n)
    return out


@rule("D1", "COLOUR-CODE: six-bit CoCo 3 colour code -> RGB in every dump closure and in the VEF table", ["C16"], floor=5)
def d1(ctx: Ctx):
    D = decoderfacts(ctx)
    ref = _ref_vectors()
    n_closures = 0
    # PIX: sixteen grey levels, sample n (0..15) is shown as 255 - 17*n (0 = white ... 15 = black)
    from .decoders import IntEvalError as _IEE1, int_eval as _ie1

    pf = D.fn("pixtopgm", "convert")
    greys = [c for c in ast.walk(pf) if isinstance(c, ast.Call) and call_name(c) in ("chr", "bytes", "pack") and len(c.args) == 1 and any(isinstance(x, (ast.BinOp,)) for x in ast.walk(c.args[0])) and len(names_loaded(c.args[0])) == 1]
    modc1 = {k_: v_.value for k_, v_ in D.mods["pixtopgm"].assigns.items() if isinstance(v_, ast.Constant) and isinstance(v_.value, int)}
    if not greys:
        ctx.undecided("pixtopgm.grey", "no expression that turns a sample into a grey level found", file=DECODERS["pixtopgm"], line=pf.lineno)
    for k_, g in enumerate(greys):
        var = next(iter(names_loaded(g.args[0])))
        e_ = g.args[0].elts[0] if isinstance(g.args[0], (ast.List, ast.Tuple)) and len(g.args[0].elts) == 1 else g.args[0]
        # the expression is a function of the byte: the two samples are its nibbles
        try:
            table = [_ie1(e_, dict(modc1, **{var: v_})) for v_ in range(256)]
        except _IEE1 as ex:
            ctx.undecided(f"pixtopgm.grey#{k_ + 1}", f"`{unparse(e_)}` is not evaluable ({ex})", file=DECODERS["pixtopgm"], line=g.lineno)
            continue
        hi = [255 - 17 * (v_ >> 4) for v_ in range(256)]
        lo = [255 - 17 * (v_ & 15) for v_ in range(256)]
        ok = table in (hi, lo)
        bad = next((v_ for v_ in range(256) if table[v_] not in (hi[v_], lo[v_])), None)
        ctx.ob(f"pixtopgm.grey#{k_ + 1}", ok, "" if ok else f"`{unparse(e_)}` does not give the sixteen grey levels 255 - 17*n of a nibble (byte {bad}: {table[bad] if bad is not None else '?'}, expected {hi[bad] if bad is not None else '?'} or {lo[bad] if bad is not None else '?'})", file=DECODERS["pixtopgm"], line=g.lineno)
    for dec in ("hrstoppm", "mgetoppm", "cm3toppm", "rattoppm"):
        fn = D.fn(dec, "convert")
        cl = _palette_closures(fn)
        if not cl:
            # no closure of the classic shape: every `pack([r, g, b])` over one variable that ranges over the palette
            packs = [n for n in ast.walk(fn) if isinstance(n, ast.Call) and call_name(n) == "pack" and n.args and isinstance(n.args[0], ast.List) and len(n.args[0].elts) == 3]
            ctx.need(packs, dec, "no expression that maps a palette entry to an RGB triple (`pack([r, g, b])`) found in convert()")
            pal = _palette_name(fn)
            for k_, pk in enumerate(packs):
                n_closures += 1
                free = sorted({x.id for e in pk.args[0].elts for x in ast.walk(e) if isinstance(x, ast.Name) and isinstance(x.ctx, ast.Load)} - {"getbit"})
                ctx.need(len(free) == 1, f"{dec}.pack#{k_ + 1}", f"the colour channels depend on {free}, not on one palette entry")
                var = free[0]
                from_pal = any(isinstance(g, ast.comprehension) and isinstance(g.target, ast.Name) and g.target.id == var and isinstance(g.iter, ast.Name) and g.iter.id == pal for g in ast.walk(fn)) or any(
                    isinstance(a, ast.Assign) and isinstance(a.targets[0], ast.Name) and a.targets[0].id == var and isinstance(a.value, ast.Subscript) and isinstance(a.value.value, ast.Name) and a.value.value.id == pal for a in ast.walk(fn)
                )
                ctx.idiom(f"{dec}.pack#{k_ + 1}:palette-entry", from_pal, True, file=DECODERS[dec], line=pk.lineno)
                for ch, (e, r) in enumerate(zip(pk.args[0].elts, ref)):
                    try:
                        v = trim(bit_eval(e, {var: var_bits("c", 8)}))
                    except BitEvalError as ex:
                        raise AnalysisError("D1", f"{dec}.pack#{k_ + 1}", f"cannot evaluate `{unparse(e)}`: {ex}")
                    ok = v == r
                    ctx.ob(f"{dec}.pack#{k_ + 1}:{'RGB'[ch]}", ok, "" if ok else f"channel {'RGB'[ch]} is `{unparse(e)}`; the CoCo 3 code is `{REF_RGB[ch]}`", file=DECODERS[dec], line=e.lineno)
            continue
        for c in cl:
            n_closures += 1
            param = c.args.args[0].arg
            # c = palette[x]
            var = None
            for st in c.body:
                if isinstance(st, ast.Assign) and isinstance(st.value, ast.Subscript) and isinstance(st.value.value, ast.Name) and st.value.value.id == _palette_name(fn):
                    idx = st.value.slice
                    okidx = isinstance(idx, ast.Name) and idx.id == param
                    var = st.targets[0].id if isinstance(st.targets[0], ast.Name) else None
                    ctx.ob(f"{dec}.{_closure_key(fn, c)}:palette[x]", okidx, "" if okidx else f"palette is indexed with `{unparse(idx)}`, not with the pixel value", file=DECODERS[dec], line=st.lineno)
            ctx.need(var is not None, f"{dec}.{_closure_key(fn, c)}", "`c = palette[x]` not found")
            # channels named first (`red = ...; rgb = [red * K, ...]; pack(rgb)`): single-assignment locals of the closure and
            # module-level integer constants are read through
            _modc = {k_: v_ for k_, v_ in D.mods[dec].assigns.items() if isinstance(v_, ast.Constant) and isinstance(v_.value, int)}
            _once: Dict[str, ast.AST] = {}
            _cnt: Dict[str, int] = {}
            for st in ast.walk(c):
                if isinstance(st, ast.Assign) and len(st.targets) == 1 and isinstance(st.targets[0], ast.Name):
                    _cnt[st.targets[0].id] = _cnt.get(st.targets[0].id, 0) + 1
                    _once[st.targets[0].id] = st.value
                elif isinstance(st, (ast.AugAssign, ast.For)) and isinstance(getattr(st, "target", None), ast.Name):
                    _cnt[st.target.id] = _cnt.get(st.target.id, 0) + 2
            _once = {k_: v_ for k_, v_ in _once.items() if _cnt.get(k_) == 1 and k_ != var}

            def _through(e_: ast.AST, depth: int = 0) -> ast.AST:
                if depth > 6:
                    return e_

                class _S(ast.NodeTransformer):
                    def visit_Name(self, n_: ast.Name):
                        if isinstance(n_.ctx, ast.Load) and n_.id in _once:
                            return _through(copy.deepcopy(_once[n_.id]), depth + 1)
                        if isinstance(n_.ctx, ast.Load) and n_.id in _modc and n_.id not in _cnt:
                            return ast.copy_location(ast.Constant(value=_modc[n_.id].value), n_)
                        return n_

                return ast.fix_missing_locations(_S().visit(copy.deepcopy(e_)))

            packs = [n for n in ast.walk(c) if isinstance(n, ast.Call) and call_name(n) == "pack" and n.args]
            for pk_ in packs:
                pk_.args[0] = _through(pk_.args[0])
            packs = [n for n in packs if isinstance(n.args[0], ast.List)]
            ctx.need(len(packs) == 1 and len(packs[0].args[0].elts) == 3, f"{dec}.{c.name}", "pack([r, g, b]) not found")
            for ch, (e, r) in enumerate(zip(packs[0].args[0].elts, ref)):
                try:
                    v = trim(bit_eval(e, {var: var_bits("c", 8)}))
                    ok = v == r
                    why = "" if ok else f"channel {'RGB'[ch]} is `{unparse(e)}`; the CoCo 3 code is `{REF_RGB[ch]}`"
                except BitEvalError as ex:
                    raise AnalysisError("D1", f"{dec}.{c.name}", f"cannot evaluate `{unparse(e)}`: {ex}")
                ctx.ob(f"{dec}.{_closure_key(fn, c)}:{'RGB'[ch]}", ok, why, file=DECODERS[dec], line=e.lineno)
    # VEF table
    m = D.mods["veftopng"]
    tbl = None
    for n in ast.walk(m.tree):
        if isinstance(n, ast.Assign) and isinstance(n.targets[0], ast.Name) and isinstance(n.value, (ast.List, ast.Tuple)) and len(n.value.elts) >= 32 and all(isinstance(e, (ast.Tuple, ast.List)) and len(e.elts) == 3 for e in n.value.elts):
            tbl = n  # the colour table: a long list of (r, g, b) triples, whatever it is called
    if tbl is None:
        # the table computed instead of written out: `[f(i) for i in range(64)]` with a straight-line arithmetic f
        # (or the triple spelled in the comprehension itself) - its 64 values are computed here and compared the same way
        from .decoders import IntEvalError, int_eval

        for n in ast.walk(m.tree):
            if not (isinstance(n, ast.Assign) and isinstance(n.targets[0], ast.Name) and isinstance(n.value, ast.ListComp) and len(n.value.generators) == 1):
                continue
            g = n.value.generators[0]
            vals_ = _const_iteration(g.iter) if not g.ifs and isinstance(g.target, ast.Name) else None
            if vals_ is None or len(vals_) < 32:
                continue
            elt = n.value.elt
            body_: List[ast.stmt] = []
            par_ = None
            if isinstance(elt, ast.Call) and isinstance(elt.func, ast.Name) and elt.func.id in m.functions and len(elt.args) == 1 and isinstance(elt.args[0], ast.Name) and elt.args[0].id == g.target.id:
                f_ = m.functions[elt.func.id]
                if len(f_.args.args) != 1:
                    continue
                par_ = f_.args.args[0].arg
                body_ = [st for st in f_.body if not (isinstance(st, ast.Expr) and isinstance(st.value, ast.Constant))]
            elif isinstance(elt, (ast.Tuple, ast.List)):
                par_ = g.target.id
                body_ = [ast.Return(value=elt)]
            else:
                continue
            if not body_ or not all(isinstance(st, ast.Assign) and len(st.targets) == 1 and isinstance(st.targets[0], ast.Name) for st in body_[:-1]) or not (isinstance(body_[-1], ast.Return) and isinstance(body_[-1].value, (ast.Tuple, ast.List)) and len(body_[-1].value.elts) == 3):
                continue
            computed = []
            try:
                for i_ in vals_:
                    env_ = {par_: i_}
                    for st in body_[:-1]:
                        env_[st.targets[0].id] = int_eval(st.value, env_)
                    computed.append(tuple(int_eval(x_, env_) for x_ in body_[-1].value.elts))
            except IntEvalError as ex:
                raise AnalysisError("D1", "veftopng.coco3_rgb", f"computed colour table is not evaluable: {ex}")
            ctx.ob("veftopng.coco3_rgb:len", len(computed) == 64 and vals_ == list(range(64)), "" if len(computed) == 64 and vals_ == list(range(64)) else f"table has {len(computed)} entries (indices {vals_[:3]}...), the colour code has the 64 values 0..63", file=DECODERS["veftopng"], line=n.lineno)
            for i, val in enumerate(computed[:64]):
                ok = val == _ref_rgb(i)
                ctx.ob(f"veftopng.coco3_rgb[{i}]", ok, "" if ok else f"entry {i} is {val}, colour code {i} denotes {_ref_rgb(i)}", file=DECODERS["veftopng"], line=n.lineno)
            ctx.units["dump_closures"] = n_closures
            return
    ctx.need(tbl is not None, "veftopng.coco3_rgb", "palette table not found")
    entries = tbl.value.elts
    ctx.ob("veftopng.coco3_rgb:len", len(entries) == 64, "" if len(entries) == 64 else f"table has {len(entries)} entries, the colour code has 64 values", file=DECODERS["veftopng"], line=tbl.lineno)
    for i, e in enumerate(entries[:64]):
        try:
            val = tuple(ast.literal_eval(e))
        except Exception:
            raise AnalysisError("D1", f"veftopng.coco3_rgb[{i}]", "entry is not a literal triple")
        ok = val == _ref_rgb(i)
        ctx.ob(f"veftopng.coco3_rgb[{i}]", ok, "" if ok else f"entry {i} is {val}, colour code {i} denotes {_ref_rgb(i)}", file=DECODERS["veftopng"], line=e.lineno)
    ctx.units["dump_closures"] = n_closures


# ---------------------------------------------------------------------------
# D2 BITFIELD-PARTITION


def _unroll_env(node: ast.AST, parents: Dict[int, ast.AST]) -> List[Dict[str, int]]:
    """Environments for enclosing `for k in range(<const>)` loops (cartesian, outermost first)."""
    loops = []
    x = parents.get(id(node))
    while x is not None:
        if isinstance(x, ast.For) and isinstance(x.target, ast.Name):
            vals = _const_iteration(x.iter)
            if vals is not None and len(vals) <= 16:
                loops.append((x.target.id, vals))
        x = parents.get(id(x))
    envs: List[Dict[str, int]] = [{}]
    for name, vals in reversed(loops):
        envs = [dict(e, **{name: i}) for e in envs for i in vals]
    return envs


def _const_iteration(it: ast.AST) -> Optional[List[int]]:
    """Values of `range(<constants>)` (one to three arguments, negative steps included), of `reversed(range(..))`, or of a constant tuple / list."""
    from .decoders import IntEvalError, int_eval

    if isinstance(it, ast.Call) and call_name(it) == "reversed" and len(it.args) == 1:
        inner = _const_iteration(it.args[0])
        return list(reversed(inner)) if inner is not None else None
    if isinstance(it, ast.Call) and call_name(it) == "range" and 1 <= len(it.args) <= 3 and not it.keywords:
        try:
            a = [int_eval(x_, {}) for x_ in it.args]
        except IntEvalError:
            return None
        if not all(isinstance(v, int) and not isinstance(v, bool) for v in a) or (len(a) == 3 and a[2] == 0):
            return None
        r = range(*a)
        return list(r) if len(r) <= 64 else None
    if isinstance(it, (ast.Tuple, ast.List)) and all(isinstance(e, ast.Constant) and isinstance(e.value, int) and not isinstance(e.value, bool) for e in it.elts):
        return [e.value for e in it.elts]
    return None


def _extraction_root(e: ast.AST) -> Optional[str]:
    """Name of the single variable a bit-extraction expression is built from (>>, &, getbit, arithmetic with constants)."""
    names = {n.id for n in ast.walk(e) if isinstance(n, ast.Name) and isinstance(n.ctx, ast.Load)}
    calls = {call_name(n) for n in ast.walk(e) if isinstance(n, ast.Call)}
    names -= {"getbit"}
    return None if not names else (sorted(names)[0] if True else None)


def _is_extraction(e: ast.AST) -> bool:
    if isinstance(e, ast.BinOp) and isinstance(e.op, (ast.RShift, ast.BitAnd)):
        return True
    if isinstance(e, ast.Call) and call_name(e) == "getbit":
        return True
    return False


@rule("D2", "BITFIELD-PARTITION: the fields extracted from each pixel byte partition bits 7..0, most significant first", ["C16", "C17"], floor=8)
def d2(ctx: Ctx):
    D = decoderfacts(ctx)
    for dec, rel in DECODERS.items():
        m = D.mods[dec]
        parents: Dict[int, ast.AST] = {}
        for n in ast.walk(m.tree):
            for c in ast.iter_child_nodes(n):
                parents[id(c)] = n
        closures = {f.name for fn in m.functions.values() for f in ast.walk(fn) if isinstance(f, ast.FunctionDef) and f is not fn}
        tables = set()
        for n in ast.walk(m.tree):
            if isinstance(n, ast.Assign) and isinstance(n.targets[0], ast.Name) and (isinstance(n.value, (ast.List, ast.ListComp)) or (isinstance(n.value, ast.Subscript) and isinstance(n.value.slice, ast.Slice))):
                tables.add(n.targets[0].id)
        # maximal extraction expressions
        groups: Dict[Tuple[str, str, int], List[Tuple[ast.AST, bool, str]]] = {}
        seen_tops: Set[int] = set()
        for n in ast.walk(m.tree):
            if not _is_extraction(n):
                continue
            # climb to the maximal arithmetic expression that contains this extraction
            top = n
            p = parents.get(id(top))
            while (isinstance(p, ast.BinOp) and isinstance(p.op, (ast.Add, ast.Mult, ast.RShift, ast.LShift, ast.BitAnd, ast.BitOr, ast.Sub))) or (
                isinstance(p, ast.Call) and call_name(p) == "getbit" and p.args and p.args[0] is top
            ):
                top = p
                p = parents.get(id(top))
            if id(top) in seen_tops:
                continue
            seen_tops.add(id(top))
            self_top = top
            names = {x.id for x in ast.walk(self_top) if isinstance(x, ast.Name) and isinstance(x.ctx, ast.Load) and x.id != "getbit"}
            # loop indices are not data
            loop_vars = set()
            x = parents.get(id(self_top))
            while x is not None:
                if isinstance(x, ast.For):
                    loop_vars |= {t.id for t in ast.walk(x.target) if isinstance(t, ast.Name)}
                x = parents.get(id(x))
            data = sorted(nm for nm in names if nm not in loop_vars or _is_data_loop_var(nm, self_top, parents))
            data = [d_ for d_ in data if not _is_range_loop_var(d_, self_top, parents)]
            if len(data) != 1:
                continue
            var = data[0]
            # scope: innermost function; branch: innermost enclosing if-branch body
            fn = parents.get(id(self_top))
            while fn is not None and not isinstance(fn, ast.FunctionDef):
                fn = parents.get(id(fn))
            if fn is None or fn.name in ("start", "main") and dec != "veftopng":
                continue
            if fn.name in closures and fn.args.args and any(isinstance(s, ast.Subscript) and isinstance(s.value, ast.Name) and isinstance(s.slice, ast.Name) and s.slice.id == fn.args.args[0].arg for s in ast.walk(fn)) and any(call_name(c) == "pack" for c in ast.walk(fn) if isinstance(c, ast.Call)):
                continue  # colour-code closure: rule D1
            br = _branch_id(self_top, parents, fn)
            sink, sink_name = _pixel_sink(self_top, parents, closures, tables)
            fkey = fn.name if len([f for f in ast.walk(m.tree) if isinstance(f, ast.FunctionDef) and f.name == fn.name]) == 1 else f"{fn.name}@{_def_ordinal(m.tree, fn)}"
            groups.setdefault((fkey, var, br), []).append((self_top, sink, sink_name))
        # qualifying variables: at least one field reaches a pixel sink
        qualifying = {(f, v) for (f, v, b), items in groups.items() if any(s for _, s, _ in items)}
        order = sorted(groups.items(), key=lambda kv: min((t[0].lineno, t[0].col_offset) for t in kv[1]))
        ordinal: Dict[Tuple[str, str, int], int] = {}
        per_fn: Dict[str, int] = {}
        for (fname, var, br), items in order:
            if (fname, var) not in qualifying:
                continue
            per_fn[fname] = per_fn.get(fname, 0) + 1
            ordinal[(fname, var, br)] = per_fn[fname]
        for (fname, var, br), items in order:
            if (fname, var) not in qualifying:
                continue
            items.sort(key=lambda t: (t[0].lineno, t[0].col_offset))
            fields: List[List[int]] = []
            misaligned: List[Tuple[str, List[int], List[Optional[int]]]] = []
            natural = True
            try:
                for e, sink, sname in items:
                    for env in _unroll_env(e, parents):
                        full = dict(env)
                        full[var] = var_bits(var, 8)
                        bits = sorted(_data_bits(e, full, var))
                        if not bits:
                            continue
                        fields.append(bits)
                        try:
                            pure = all(isinstance(x, (ast.Name, ast.Constant, ast.Load, ast.RShift, ast.BitAnd)) or (isinstance(x, ast.BinOp) and isinstance(x.op, (ast.RShift, ast.BitAnd))) for x in ast.walk(e))
                            vec = bits_of(bit_eval(e, full), var) if pure else bits
                            if vec != bits:
                                misaligned.append((unparse(e), bits, vec))
                        except BitEvalError:
                            pass  # arithmetic on single bits (MAX artifact modes): alignment not a bit-vector question
            except BitEvalError as ex:
                raise AnalysisError("D2", f"{dec}.{fname}.{var}", f"cannot evaluate a bit extraction: {ex}")
            if len(fields) < 2:
                continue
            flat_sets = [set(f) for f in fields]
            used: List[int] = [b for f in fields for b in f]
            line = items[0][0].lineno
            dup = sorted({b for b in used if used.count(b) > 1})
            missing = sorted(set(range(8)) - set(used), reverse=True)
            # most significant field first, fields contiguous
            order_ok = all(min(flat_sets[i]) > max(flat_sets[i + 1]) for i in range(len(flat_sets) - 1))
            same_sink = len({s for _, _, s in items}) == 1 and all(s for _, s, _ in items)
            ok = not dup and not missing and (order_ok or not same_sink)
            msg = ""
            if missing:
                msg = f"bits {missing} of every `{var}` byte are never used"
            if dup:
                msg += ("; " if msg else "") + f"bits {dup} are used twice"
            if not dup and not missing and not order_ok and same_sink:
                msg = f"fields of `{var}` are consumed in the order {[sorted(f, reverse=True) for f in fields]}, not most significant first"
            ctx.ob(
                f"{dec}.{fname}:byte#{ordinal[(fname, var, br)]}",
                ok,
                (msg + f" (extractions: {[unparse(e) for e, _, _ in items]})") if msg else "",
                file=rel,
                line=line,
                facts={"fields": [sorted(f, reverse=True) for f in fields][:12], "sink": items[0][2]},
                signature=None if ok else f"fields {[sorted(f, reverse=True) for f in fields][:12]}",
                props=["C17"] if dec == "rattoppm" else (["C16", "C17"] if dec in ("mgetoppm", "cm3toppm", "veftopng") else ["C16"]),
            )


            if items[0][1]:
                oka = not misaligned
                ctx.ob(
                    f"{dec}.{fname}:byte#{ordinal[(fname, var, br)]}:aligned",
                    oka,
                    "" if oka else f"`{misaligned[0][0]}` takes bits {sorted(misaligned[0][1], reverse=True)} of the byte but does not bring them down to bit 0 (value bits, LSB first: {misaligned[0][2]}): the pixel value is a multiple of the intended one and selects the wrong palette entry",
                    file=rel,
                    line=line,
                    props=["C17"] if dec == "rattoppm" else (["C16", "C17"] if dec in ("mgetoppm", "cm3toppm", "veftopng") else ["C16"]),
                )


def _def_ordinal(tree, fn) -> int:
    same = sorted([f for f in ast.walk(tree) if isinstance(f, ast.FunctionDef) and f.name == fn.name], key=lambda f: f.lineno)
    return same.index(fn) + 1


def _data_bits(e: ast.AST, env, var: str) -> Set[int]:
    """Set of bits of `var` the value of e depends on."""
    try:
        return {b for b in bits_of(bit_eval(e, env), var) if b is not None}
    except BitEvalError:
        if isinstance(e, ast.BinOp) and isinstance(e.op, (ast.Add, ast.Mult, ast.BitOr, ast.Sub)):
            return _data_bits(e.left, env, var) | _data_bits(e.right, env, var)
        raise


def _is_range_loop_var(name: str, node: ast.AST, parents) -> bool:
    x = parents.get(id(node))
    while x is not None:
        if isinstance(x, ast.For) and any(isinstance(t, ast.Name) and t.id == name for t in ast.walk(x.target)):
            return (isinstance(x.iter, ast.Call) and call_name(x.iter) == "range") or _const_iteration(x.iter) is not None
        x = parents.get(id(x))
    return False


def _is_data_loop_var(name: str, node: ast.AST, parents) -> bool:
    return not _is_range_loop_var(name, node, parents)


def _branch_id(node: ast.AST, parents, fn) -> int:
    x = node
    p = parents.get(id(x))
    while p is not None and p is not fn:
        if isinstance(p, ast.If) and (x in p.body or x in p.orelse):
            # (position of the `if` in the function, not its line: inlined code shares the line of its call site)
            k = next((i for i, n_ in enumerate(ast.walk(fn)) if n_ is p), 0) + 1
            return k if x in p.body else -k
        x = p
        p = parents.get(id(p))
    return 0


def _pixel_sink(e: ast.AST, parents, closures: Set[str], tables: Set[str]) -> Tuple[bool, str]:
    p = parents.get(id(e))
    hops = 0
    x = e
    while p is not None and hops < 6:
        if isinstance(p, ast.Call):
            cn = call_name(p)
            if cn in closures and x in p.args:
                return True, f"call:{cn}"
            if cn == "chr":
                return True, "chr"
        if isinstance(p, ast.Subscript) and p.slice is x and isinstance(p.value, ast.Name) and p.value.id in tables:
            return True, f"table:{p.value.id}"
        if isinstance(p, (ast.stmt,)):
            break
        x = p
        p = parents.get(id(p))
        hops += 1
    return False, ""


# ---------------------------------------------------------------------------
# D3 TABLE-BOUNDS


@rule("D3", "TABLE-BOUNDS: literal tables have the expected length and every computed index stays inside", ["C16"], floor=8)
def d3(ctx: Ctx):
    D = decoderfacts(ctx)
    m = D.mods["maxtoppm"]
    fn = D.fn("maxtoppm", "convert")
    parents: Dict[int, ast.AST] = {}
    for n in ast.walk(fn):
        for c in ast.iter_child_nodes(n):
            parents[id(c)] = n
    sizes: Dict[str, int] = {}
    for n in ast.walk(fn):
        if isinstance(n, ast.Assign) and isinstance(n.targets[0], ast.Name) and isinstance(n.value, ast.ListComp):
            it = n.value.generators[0].iter
            if isinstance(it, ast.List):
                sizes[n.targets[0].id] = len(it.elts)
                triples = all(isinstance(x, ast.List) and len(x.elts) == 3 for x in it.elts)
                ctx.ob(f"maxtoppm.table{len(sizes)}:triples", triples, "" if triples else "table entries are not RGB triples", file=DECODERS["maxtoppm"], line=n.lineno)
    ctx.need(len(sizes) >= 3, "maxtoppm tables", f"found {sorted(sizes)}")
    for n in ast.walk(fn):
        if isinstance(n, ast.Subscript) and isinstance(n.value, ast.Name) and n.value.id in sizes:
            for env in _unroll_env(n, parents) or [{}]:
                try:
                    mx = _max_value(n.slice, env)
                except BitEvalError as ex:
                    raise AnalysisError("D3", f"maxtoppm.{n.value.id}[{unparse(n.slice)}]", str(ex))
                ok = mx < sizes[n.value.id]
                if not ok or env == (_unroll_env(n, parents) or [{}])[0]:
                    idx_n = sum(1 for o_ in ctx.obligations.get("D3", []) if o_.construct.startswith("maxtoppm.index#")) + 1
                    ctx.ob(
                        f"maxtoppm.index#{idx_n}" + (f"@{env}" if not ok else ""),
                        ok,
                        "" if ok else f"index can reach {mx}, table `{n.value.id}` has {sizes[n.value.id]} entries",
                        file=DECODERS["maxtoppm"],
                        line=n.lineno,
                        facts={"max_index": mx, "size": sizes[n.value.id]},
                    )
    # composite table of MGE: 64 entries, each a 6-bit colour code
    mg = D.fn("mgetoppm", "convert")
    c2r = next((n for n in ast.walk(mg) if isinstance(n, ast.Assign) and isinstance(n.targets[0], ast.Name) and isinstance(n.value, ast.List) and len(n.value.elts) >= 32 and all(isinstance(e, ast.Constant) for e in n.value.elts)), None)
    ctx.need(c2r is not None, "mgetoppm.c2r", "table not found")
    vals = [ast.literal_eval(e) for e in c2r.value.elts]
    ctx.ob("mgetoppm.c2r:len", len(vals) == 64, "" if len(vals) == 64 else f"c2r has {len(vals)} entries for 64 composite codes", file=DECODERS["mgetoppm"], line=c2r.lineno)
    okr = all(isinstance(v, int) and 0 <= v < 64 for v in vals)
    ctx.ob("mgetoppm.c2r:range", okr, "" if okr else "c2r holds values outside 0..63", file=DECODERS["mgetoppm"], line=c2r.lineno)
    # the composite table is applied to every palette entry: an in-place loop covers 0..15, a rebuilt list maps each entry
    mf = D.fn("mgetoppm", "convert")
    pname_ = _palette_name(mf)
    applied = []
    for n in ast.walk(mf):
        if isinstance(n, ast.For) and isinstance(n.target, ast.Name):
            for a_ in ast.walk(n):
                if isinstance(a_, ast.Assign) and isinstance(a_.targets[0], ast.Subscript) and isinstance(a_.targets[0].value, ast.Name) and a_.targets[0].value.id == pname_ and isinstance(a_.targets[0].slice, ast.Name) and a_.targets[0].slice.id == n.target.id and isinstance(a_.value, ast.Subscript) and isinstance(a_.value.value, ast.Name) and a_.value.value.id == c2r.targets[0].id:
                    rng = None
                    if isinstance(n.iter, ast.Call) and call_name(n.iter) == "range" and 1 <= len(n.iter.args) <= 2 and all(isinstance(x, ast.Constant) and isinstance(x.value, int) for x in n.iter.args):
                        vs_ = [x.value for x in n.iter.args]
                        rng = (0, vs_[0]) if len(vs_) == 1 else (vs_[0], vs_[1])
                    elif isinstance(n.iter, ast.Call) and call_name(n.iter) == "range" and len(n.iter.args) == 1 and isinstance(n.iter.args[0], ast.Call) and call_name(n.iter.args[0]) == "len" and unparse(n.iter.args[0].args[0]) == pname_:
                        rng = (0, 16)
                    applied.append((n.lineno, rng))
        elif isinstance(n, (ast.ListComp, ast.GeneratorExp)) and len(n.generators) == 1 and isinstance(n.generators[0].iter, ast.Name) and n.generators[0].iter.id == pname_ and not n.generators[0].ifs and isinstance(n.elt, ast.Subscript) and isinstance(n.elt.value, ast.Name) and n.elt.value.id == c2r.targets[0].id:
            applied.append((n.lineno, (0, 16)))
    if not applied:
        ctx.undecided("mgetoppm.c2r:applied-to-all", "the place where the composite table is applied to the palette was not recognised", file=DECODERS["mgetoppm"], line=c2r.lineno, props=["C16"])
    for ln_, rng in applied:
        if rng is None:
            ctx.undecided("mgetoppm.c2r:applied-to-all", "the range of the conversion loop is not constant", file=DECODERS["mgetoppm"], line=ln_, props=["C16"])
        else:
            oka_ = rng == (0, 16)
            ctx.ob("mgetoppm.c2r:applied-to-all", oka_, "" if oka_ else f"composite codes are converted for palette entries {rng[0]}..{rng[1] - 1} only: the other entries keep their composite code and are shown with the RGB meaning of that number", file=DECODERS["mgetoppm"], line=ln_, props=["C16"])
    # palettes are read as 16 entries wherever nibbles (0..15) index them
    for dec in ("hrstoppm", "mgetoppm", "cm3toppm", "rattoppm"):
        f = D.fn(dec, "convert")
        try:
            _need_modelled(ctx, "D3", dec, f)
        except AnalysisError as e_:
            ctx.errors.append(e_)
            continue
        pal = next((n for n in ast.walk(f) if isinstance(n, ast.Assign) and isinstance(n.targets[0], ast.Name) and n.targets[0].id == _palette_name(f)), None)
        ctx.need(pal is not None, f"{dec}.palette", "palette read not found")
        src = unparse(pal.value)
        n_ = _seq_len(pal.value)
        ctx.idiom(f"{dec}.palette:16", n_ is not None, n_ == 16, "" if n_ == 16 else f"palette is read as `{src}` ({n_} entries), pixel values index 16 entries", file=DECODERS[dec], line=pal.lineno)


def _seq_len(e: ast.AST) -> Optional[int]:
    """Number of elements of a sequence expression built from a fixed-size read or a constant range (None: not of that shape)."""
    from .decoders import IntEvalError, int_eval

    def const(x):
        try:
            v = int_eval(x, {})
        except (IntEvalError, Exception):
            return None
        return v if isinstance(v, int) and not isinstance(v, bool) else None

    if isinstance(e, ast.Call):
        nm = call_name(e)
        if nm in ("iotostr", "list", "tuple", "bytes", "bytearray", "strtoio", "reversed", "sorted") and len(e.args) == 1 and not e.keywords:
            return _seq_len(e.args[0])
        if nm == "read" and isinstance(e.func, ast.Attribute) and len(e.args) == 1:
            return const(e.args[0])
        if nm == "range" and 1 <= len(e.args) <= 2 and not e.keywords:
            vs = [const(a) for a in e.args]
            if None in vs:
                return None
            return max(0, vs[0] if len(vs) == 1 else vs[1] - vs[0])
        if nm == "unpack" and len(e.args) == 2 and isinstance(e.args[0], ast.Constant) and isinstance(e.args[0].value, str):
            m = re.fullmatch(r"[<>=!@]?(\d*)B", e.args[0].value)
            return int(m.group(1) or 1) if m else None
        return None
    if isinstance(e, (ast.ListComp, ast.GeneratorExp)) and len(e.generators) == 1 and not e.generators[0].ifs:
        return _seq_len(e.generators[0].iter)
    if isinstance(e, (ast.List, ast.Tuple)) and not any(isinstance(x, ast.Starred) for x in e.elts):
        return len(e.elts)
    if isinstance(e, ast.BinOp) and isinstance(e.op, ast.Mult):
        for a, b in ((e.left, e.right), (e.right, e.left)):
            la, cb = _seq_len(a), const(b)
            if la is not None and cb is not None:
                return la * max(cb, 0)
    return None


def _max_value(e: ast.AST, env: Dict[str, int]) -> int:
    """Upper bound of a non-negative index expression: getbit() is 0..1, loop indices are known."""
    if isinstance(e, ast.Constant) and isinstance(e.value, int):
        return e.value
    if isinstance(e, ast.Name) and e.id in env:
        return env[e.id]
    if isinstance(e, ast.Call) and call_name(e) == "getbit":
        return 1
    if isinstance(e, ast.BinOp):
        if isinstance(e.op, ast.Add):
            return _max_value(e.left, env) + _max_value(e.right, env)
        if isinstance(e.op, ast.Mult):
            return _max_value(e.left, env) * _max_value(e.right, env)
    raise BitEvalError(f"cannot bound `{unparse(e)}`")


# ---------------------------------------------------------------------------
# D4 SAMPLE-COUNT


class _Count:
    """Symbolic number of output *bytes* written by a statement list."""

    def __init__(self, dec: str, fn: ast.FunctionDef, nested: Dict[str, ast.FunctionDef]):
        self.dec = dec
        self.fn = fn
        self.nested = nested
        self.env: Dict[str, Poly] = {}
        self.data_driven: List[int] = []
        self.branch_disagree: List[Tuple[int, List[str]]] = []
        self.buffers: Dict[str, Poly] = {}
        self.tables: Dict[str, int] = {}  # table name -> bytes per entry
        self.outs: Set[str] = _out_names(fn)
        self.forced: Dict[str, int] = {}  # case split: header byte name -> value
        self.vals: Dict[str, Poly] = {}  # local name -> byte length of the bytes value it holds
        self.seq_len: Dict[str, int] = {a_.targets[0].id: len(a_.value.elts) for a_ in ast.walk(fn) if isinstance(a_, ast.Assign) and len(a_.targets) == 1 and isinstance(a_.targets[0], ast.Name) and isinstance(a_.value, (ast.Tuple, ast.List)) and all(isinstance(e_, ast.Constant) for e_ in a_.value.elts)}
        # fixed-size buffers: bound once to a sequence of known length (`[0] * 160`) and never grown, shrunk or re-bound
        _binds: Dict[str, List[ast.AST]] = {}
        for a_ in ast.walk(fn):
            if isinstance(a_, ast.Assign) and len(a_.targets) == 1 and isinstance(a_.targets[0], ast.Name):
                _binds.setdefault(a_.targets[0].id, []).append(a_.value)
            elif isinstance(a_, (ast.AugAssign, ast.For)) and isinstance(getattr(a_, "target", None), ast.Name):
                _binds.setdefault(a_.target.id, []).extend([None, None])
        _resized = {c_.func.value.id for c_ in ast.walk(fn) if isinstance(c_, ast.Call) and isinstance(c_.func, ast.Attribute) and c_.func.attr in ("append", "extend", "insert", "pop", "remove", "clear") and isinstance(c_.func.value, ast.Name)}
        _resized |= {t_.value.id for d_ in ast.walk(fn) if isinstance(d_, ast.Delete) for t_ in d_.targets if isinstance(t_, ast.Subscript) and isinstance(t_.value, ast.Name)}
        _resized |= {t_.value.id for a_ in ast.walk(fn) if isinstance(a_, ast.Assign) for t_ in a_.targets if isinstance(t_, ast.Subscript) and isinstance(t_.slice, ast.Slice) and isinstance(t_.value, ast.Name)}
        for nm_, vs_ in _binds.items():
            if len(vs_) == 1 and vs_[0] is not None and nm_ not in _resized and nm_ not in self.seq_len and isinstance(vs_[0], ast.BinOp):
                n_ = _seq_len(vs_[0])
                if n_ is not None:
                    self.seq_len[nm_] = n_

    def bytes_of(self, e: ast.AST) -> Optional[Poly]:
        """Length in bytes of the value written."""
        if isinstance(e, ast.Call):
            cn = call_name(e)
            if cn in ("strtoio", "iotostr", "bytes", "bytearray") and e.args:
                return self.bytes_of(e.args[0])
            if cn == "pack" and e.args and isinstance(e.args[0], ast.List):
                return Poly.const(len(e.args[0].elts))
            if cn == "join" and e.args and isinstance(e.args[0], ast.Name) and e.args[0].id in self.buffers:
                return self.buffers[e.args[0].id]
            if cn == "format":
                return Poly.const(0)  # header text (counted separately)
        if isinstance(e, ast.BinOp) and isinstance(e.op, ast.Mult):
            l = self.bytes_of(e.left)
            if l is not None:
                return l * poly_eval(e.right, self.env)
        if isinstance(e, ast.Subscript) and isinstance(e.value, ast.Name) and e.value.id in self.tables:
            return Poly.const(self.tables[e.value.id])
        if isinstance(e, ast.Name) and e.id in self.vals:
            return self.vals[e.id]
        if isinstance(e, ast.Constant) and isinstance(e.value, (str, bytes)):
            return Poly.const(len(e.value))
        return None

    def count(self, body: List[ast.stmt], depth=0) -> Poly:
        total = Poly.const(0)
        for st in body:
            total = total + self.count_stmt(st, depth)
        return total

    def count_stmt(self, st: ast.stmt, depth: int) -> Poly:
        if isinstance(st, ast.For):
            trip = self.trip(st)
            return trip * self.count(st.body, depth)
        if isinstance(st, ast.While):
            inner = self.count(st.body, depth)
            if inner.terms:
                self.data_driven.append(st.lineno)
            return Poly.const(0) if not inner.terms else Poly.atom(f"<while@{st.lineno}>") * inner
        if isinstance(st, ast.If):
            branches = []
            cur = st
            saved = (dict(self.env), dict(self.env_len), dict(self.buffers))
            while True:
                branches.append(self.count(cur.body, depth))
                self.env, self.env_len, self.buffers = dict(saved[0]), dict(saved[1]), dict(saved[2])
                if len(cur.orelse) == 1 and isinstance(cur.orelse[0], ast.If):
                    cur = cur.orelse[0]
                    continue
                branches.append(self.count(cur.orelse, depth))
                self.env, self.env_len, self.buffers = dict(saved[0]), dict(saved[1]), dict(saved[2])
                break
            nz = [b for b in branches if b.terms]
            if not nz:
                return Poly.const(0)
            # a branch whose amount is decided by file data (while loop) is left to rule D6
            fixed = [b for b in nz if not any(a.startswith("<while") for k in b.terms for a in k)]
            if fixed and len(fixed) != len(nz):
                nz = fixed
                branches = [b for b in branches if b in fixed or not b.terms]
            reps = {repr(b) for b in nz}
            has_else = bool(cur.orelse)
            if len(reps) > 1 or (len(nz) != len(branches) and len(nz) > 1 and has_else):
                self.branch_disagree.append((st.lineno, sorted(repr(b) for b in branches)))
            return nz[0]
        if isinstance(st, ast.Expr) and isinstance(st.value, ast.Call):
            return self.count_call(st.value, depth)
        if isinstance(st, ast.Assign):
            self.track_assign(st)
            total = Poly.const(0)
            for c in ast.walk(st.value):
                if isinstance(c, ast.Call) and call_name(c) in self.nested:
                    total = total + self.count_call(c, depth)
            return total
        if isinstance(st, ast.AugAssign):
            return Poly.const(0)
        return Poly.const(0)

    def count_call(self, c: ast.Call, depth: int) -> Poly:
        cn = call_name(c)
        if _is_out_write(c, self.outs):
            b = self.bytes_of(c.args[0]) if c.args else None
            if b is None:
                # the size of what is written cannot be derived: the count would be wrong, not merely imprecise
                raise AnalysisError("D4", f"{self.dec}.write", f"cannot derive the number of bytes written by `{unparse(c)[:80]}` (line {c.lineno})")
            return b
        if cn in self.nested and depth < 4 and isinstance(c.func, ast.Name):
            total = self.count(self.nested[cn].body, depth + 1)
            return total
        total = Poly.const(0)
        for a in c.args:
            for cc in ast.walk(a):
                if isinstance(cc, ast.Call) and call_name(cc) in self.nested and isinstance(cc.func, ast.Name):
                    total = total + self.count_call(cc, depth)
        return total

    def trip(self, st: ast.For) -> Poly:
        it = st.iter
        if isinstance(it, ast.Call) and call_name(it) == "range" and len(it.args) == 1:
            return poly_eval(it.args[0], self.env)
        if isinstance(it, ast.Call) and call_name(it) == "range" and len(it.args) in (2, 3):
            cs_ = [poly_eval(a_, self.env).is_const() for a_ in it.args]
            if all(c_ is not None for c_ in cs_) and (len(cs_) == 2 or cs_[2] != 0):
                return Poly.const(len(range(*cs_)))
        if isinstance(it, (ast.Tuple, ast.List)):
            return Poly.const(len(it.elts))
        if isinstance(it, ast.Name) and it.id in self.seq_len:
            return Poly.const(self.seq_len[it.id])
        if isinstance(it, ast.Name):
            if it.id in self.env_len:
                return self.env_len[it.id]
            return Poly.atom(f"len({it.id})")
        n_ = _seq_len(it)  # a sequence built from a fixed-size read (the nominal, complete read)
        if n_ is not None:
            return Poly.const(n_)
        return Poly.atom(f"<iter {unparse(it)}>")

    env_len: Dict[str, Poly] = {}

    def track_assign(self, st: ast.Assign):
        if len(st.targets) != 1 or not isinstance(st.targets[0], ast.Name):
            return
        name = st.targets[0].id
        v = st.value
        # buffers: ["a"] * (n)
        if isinstance(v, ast.BinOp) and isinstance(v.op, ast.Mult) and isinstance(v.left, ast.List) and len(v.left.elts) == 1:
            self.buffers[name] = poly_eval(v.right, self.env)
            return
        if isinstance(v, ast.Call) and call_name(v) == "ord":
            self.env[name] = Poly.const(self.forced[name]) if name in self.forced else Poly.atom(f"<file byte {name}>")
            return
        # row = iotostr(f.read(E))
        rd = _read_call(v)
        if rd is not None and rd.args:
            self.env_len = dict(self.env_len)
            self.env_len[name] = poly_eval(rd.args[0], self.env)
            return
        if isinstance(v, ast.ListComp):
            bl = self.bytes_of(v.elt)
            if bl is not None and bl.is_const() is not None and bl.is_const() > 0:
                self.tables[name] = bl.is_const()
                return
        bl = self.bytes_of(v) if isinstance(v, (ast.Call, ast.Subscript)) else None
        if bl is not None and bl.terms and not _read_call(v):
            self.vals[name] = bl
        # tables of packed triples
        if isinstance(v, ast.ListComp) and isinstance(v.elt, ast.Call) and call_name(v.elt) == "pack":
            it = v.generators[0].iter
            if isinstance(it, ast.List) and it.elts and all(isinstance(x, ast.List) for x in it.elts):
                self.tables[name] = len(it.elts[0].elts)
            return
        if isinstance(v, (ast.BinOp, ast.Constant, ast.Name, ast.IfExp)) or (isinstance(v, ast.Call) and call_name(v) in ("int", "ord", "getsize")):
            p = poly_eval(v, self.env)
            if isinstance(v, ast.Call) and call_name(v) == "ord":
                p = Poly.atom(f"<file byte {name}@{st.lineno}>")
            if isinstance(v, ast.Call) and call_name(v) == "getsize":
                p = Poly.atom("<file size>")
            if isinstance(v, ast.Call) and call_name(v) == "int":
                p = Poly.atom(f"int({unparse(v.args[0])})")
            self.env[name] = p


def _read_call(e: ast.AST) -> Optional[ast.Call]:
    for c in ast.walk(e):
        if isinstance(c, ast.Call) and call_name(c) == "read" and isinstance(c.func, ast.Attribute):
            return c
    return None


def _header_write(fn: ast.FunctionDef) -> Optional[Tuple[ast.Call, str, List[ast.AST]]]:
    """The write of the PPM/PGM header: (call, text with `{}` for every inserted value, the inserted expressions in text order).
    `"..{} {}..".format(w, h)`, numbered fields (`{0} {0}`), and f-strings read the same."""
    import string

    for n in ast.walk(fn):
        if isinstance(n, ast.Call) and call_name(n) == "write" and n.args:
            for c in ast.walk(n.args[0]):
                if isinstance(c, ast.JoinedStr) and c.values and isinstance(c.values[0], ast.Constant) and re.match(r"P[56]\n", str(c.values[0].value)):
                    fmt, args = "", []
                    for v in c.values:
                        if isinstance(v, ast.Constant):
                            fmt += str(v.value)
                        elif isinstance(v, ast.FormattedValue) and v.conversion == -1 and v.format_spec is None:
                            fmt += "{}"
                            args.append(v.value)
                        else:
                            fmt += "{?}"
                    return n, fmt, args
            for c in ast.walk(n.args[0]):
                if isinstance(c, ast.Constant) and isinstance(c.value, str) and re.match(r"P[56]\n", c.value):
                    fmt = c.value
                    args: List[ast.AST] = []
                    for f in ast.walk(n.args[0]):
                        if isinstance(f, ast.Call) and call_name(f) == "format" and isinstance(f.func, ast.Attribute) and f.func.value is c:
                            args = list(f.args)
                            try:
                                parts = list(string.Formatter().parse(fmt))
                            except ValueError:
                                return n, fmt, args
                            if all(fld is None or ((fld == "" or fld.isdigit()) and not spec and conv is None) for _, fld, spec, conv in parts) and not f.keywords:
                                out, ordered, auto = "", [], 0
                                okx = True
                                for lit, fld, spec, conv in parts:
                                    out += lit
                                    if fld is None:
                                        continue
                                    idx = auto if fld == "" else int(fld)
                                    if fld == "":
                                        auto += 1
                                    if idx >= len(args):
                                        okx = False
                                        break
                                    out += "{}"
                                    ordered.append(args[idx])
                                if okx:
                                    fmt, args = out, ordered
                    return n, fmt, args
    return None


# what the counting / read-discipline rules model of Python (everything the decoders use today, plus harmless
# siblings).  A decoder that steps outside gets "cannot decide" (ANALYSIS-ERROR), never a made-up count.
MODELLED_CALLS = {
    "Exception", "append", "chr", "clip", "debug", "exit", "format", "getbit", "getsize", "index", "int", "iotostr", "join", "ord", "pack", "range",
    "read", "rstrip", "sqrt", "strtoio", "write", "len", "min", "max", "abs", "bytes", "bytearray", "tuple", "list", "strip", "lstrip", "isfile", "remove",
    "ValueError", "IOError", "OSError", "RuntimeError", "str", "bool", "float", "hex", "find", "from_bytes", "unpack",
}
MODELLED_NODES = {
    "Add", "Assign", "Attribute", "AugAssign", "BinOp", "BitAnd", "BoolOp", "Break", "Call", "Compare", "Constant", "Eq", "Expr", "FloorDiv", "For", "FunctionDef",
    "Gt", "GtE", "If", "IfExp", "LShift", "List", "ListComp", "Load", "Lt", "LtE", "Mod", "Mult", "Name", "Not", "NotEq", "Or", "Pass", "RShift", "Raise", "Return", "Slice",
    "Store", "Sub", "Subscript", "USub", "UnaryOp", "While", "arg", "arguments", "comprehension", "Tuple", "And", "BitOr", "BitXor", "Div", "JoinedStr", "FormattedValue",
    "Invert", "UAdd", "Is", "IsNot", "In", "NotIn", "keyword", "AnnAssign", "Assert", "Del", "Delete",
}


def _unmodelled(fn: ast.FunctionDef) -> List[str]:
    closures = {n.name for n in ast.walk(fn) if isinstance(n, ast.FunctionDef)}
    out: List[str] = []
    for n in ast.walk(fn):
        k = type(n).__name__
        if k not in MODELLED_NODES:
            out.append(f"{k} (line {getattr(n, 'lineno', '?')})")
        elif isinstance(n, ast.Call):
            cn = call_name(n)
            if cn not in MODELLED_CALLS and cn not in closures:
                out.append(f"call of {cn}() (line {n.lineno})")
    return sorted(set(out))[:6]


def _need_modelled(ctx: Ctx, rid: str, dec: str, fn: ast.FunctionDef):
    bad = _unmodelled(fn)
    if bad:
        raise AnalysisError(rid, dec, "the decoder uses constructs this rule does not model: " + ", ".join(bad))


# option validators: what they guarantee about the value
VALIDATOR_FACTS = {"check_positive": "> 0", "check_zero_or_positive": ">= 0"}


@rule("D4", "SAMPLE-COUNT: the number of samples written equals what the header announces, for every admitted option value", ["C18", "C19", "C16"], floor=5, default_props=["C18", "C19"])
def d4(ctx: Ctx):
    D = decoderfacts(ctx)
    for dec in ("hrstoppm", "maxtoppm", "pixtopgm", "mgetoppm", "cm3toppm", "rattoppm"):
        rel = DECODERS[dec]
        fn = D.fn(dec, "convert")
        try:
            _need_modelled(ctx, "D4", dec, fn)
        except AnalysisError as e_:
            ctx.errors.append(e_)
            continue
        hw = _header_write(fn)
        ctx.need(hw is not None, f"{dec}.header", "PPM/PGM header write not found")
        call, fmt, args = hw
        bps = 3 if fmt.startswith("P6") else 1
        # statements before the header only feed the environment
        before, after = [], []
        for st in fn.body:
            (before if st.lineno < call.lineno and not any(c is call for c in ast.walk(st)) else after).append(st)
        okfmt = re.fullmatch(r"P[56]\n(\{\}|\d+) (\{\}|\d+)\n255\n", fmt) is not None
        ctx.ob(f"{dec}:header-format", okfmt, "" if okfmt else f"header text {fmt!r} is not `P6/P5\\n<w> <h>\\n255\\n`", file=rel, line=call.lineno)
        if args and len(args) == 2:
            # width first, height second: the outermost payload loop runs over the rows
            pass
        paths = _paths(before)
        ctx.need(paths, dec, "no path reaches the header write")
        reported = False
        all_ok = True
        last_facts = None
        for conds_path, stmts in paths:
            cnt = _Count(dec, fn, D.nested(fn))
            feasible = True

            def _again(forced, stmts=stmts):
                """announced / written bytes of this path with some header bytes fixed (case split)."""
                c2 = _Count(dec, fn, D.nested(fn))
                c2.forced = forced
                for st in stmts:
                    if isinstance(st, tuple):
                        v = _const_test(st[1], c2.env)
                        if v is not None and v != st[2]:
                            return None
                        continue
                    if isinstance(st, ast.Assign):
                        c2.track_assign(st)
                    elif isinstance(st, ast.FunctionDef):
                        c2.nested = dict(c2.nested)
                        c2.nested[st.name] = st
                if not args:
                    return None
                a2 = poly_eval(args[0], c2.env) * poly_eval(args[1], c2.env) * Poly.const(bps)
                w2 = c2.count([s_ for s_ in after if not any(c is call for c in ast.walk(s_))])
                return a2.normalise()[0], w2.normalise()[0]

            for st in stmts:
                if isinstance(st, tuple):
                    v = _const_test(st[1], cnt.env)
                    if v is not None and v != st[2]:
                        feasible = False
                        break
                    continue
                if isinstance(st, ast.Assign):
                    cnt.track_assign(st)
                elif isinstance(st, ast.FunctionDef):
                    cnt.nested = dict(cnt.nested)
                    cnt.nested[st.name] = st
            if not feasible:
                continue
            nums = re.findall(r"\d+", fmt.split("\n")[1]) if not args else []
            if args:
                w, h = poly_eval(args[0], cnt.env), poly_eval(args[1], cnt.env)
                wn, hn = unparse(args[0]), unparse(args[1])
            else:
                ctx.need(len(nums) == 2, f"{dec}.header", f"cannot read width/height from {fmt!r}")
                w, h = Poly.const(int(nums[0])), Poly.const(int(nums[1]))
                wn, hn = nums
            announced = w * h * Poly.const(bps)
            written = cnt.count([s_ for s_ in after if not any(c is call for c in ast.walk(s_))])
            wr_n, conds = written.normalise()
            an_n, _ = announced.normalise()
            facts = {"path": conds_path, "announced_bytes": repr(announced), "written_bytes": repr(written), "side_conditions": conds}
            last_facts = facts
            if any(a.startswith("<while") for k in written.terms for a in k):
                ctx.info(f"{dec}:payload", f"payload loop at line {cnt.data_driven} is driven by file data (count decided by rule D6)", file=rel, line=cnt.data_driven[0])
                all_ok = None
                break
            for ln, reps in cnt.branch_disagree:
                if not reported:
                    ctx.ob(f"{dec}:branches@{ln - fn.lineno}", False, f"alternative branches write different amounts per input byte: {reps}", file=rel, line=ln)
                    reported = True
                    all_ok = False
            equal = wr_n == an_n
            unmet = conds if equal else []
            if equal and not unmet:
                continue
            all_ok = False
            if reported:
                continue
            reported = True
            where = (" on the path [" + ", ".join(conds_path) + "]") if conds_path else ""
            if not equal:
                msg = f"header announces {wn} x {hn} = {announced!r} bytes of samples, the loops write {written!r}{where}"
                fb = [a for k in wr_n.terms for a in k if a.startswith("<file byte")]
                if fb:
                    msg += f" (the count depends on the unvalidated file field {fb[0]})"
            else:
                msg = f"header announces {wn} x {hn}, the loops write {written!r}{where}: equal only if {' and '.join(unmet)}, which the option validator (check_positive) does not ensure"
                fb = []
            key = dec if not fb else f"{dec}.file-field"
            if equal and unmet:
                # the parked defect is "an option value the validator admits breaks divisibility"; any other
                # disagreement of the same decoder keeps the plain key and is reported separately
                key = f"{dec}.divisible-by-" + "-".join(sorted(re.match(r"\d+", u).group(0) if re.match(r"\d+", u) else "x" for u in unmet))
            if fb:
                # the field is unvalidated (a finding of its own); independently of that, a well-formed file -
                # one whose field has its nominal value - must get exactly the announced count
                def _subst(p_: Poly, atom: str, c: int) -> Poly:
                    out = Poly()
                    for k, co in p_.terms.items():
                        rest = tuple(a for a in k if a != atom)
                        out = out + Poly({rest: co * (c ** (len(k) - len(rest)))})
                    return out

                nominal = [c for c in range(1, 1025) if _subst(wr_n, fb[0], c) == an_n]
                if not nominal:
                    # case split over the values of one header byte (both sides are functions of it)
                    hdr = sorted(n_ for n_, p_ in cnt.env.items() if p_ == Poly.atom(f"<file byte {n_}>"))
                    for hb in hdr:
                        cands = None
                        for v_ in range(256):
                            r_ = _again({hb: v_})
                            if r_ is None:
                                continue
                            fbs = [a for k in r_[1].terms for a in k if a.startswith("<file byte ")] or [fb[0]]
                            good = {c for c in range(1, 1025) if _subst(r_[1], fbs[0], c) == r_[0]}
                            cands = good if cands is None else cands & good
                            if not cands:
                                break
                        if cands:
                            nominal = sorted(cands)
                            break
                okn = len(nominal) == 1
                ctx.ob(
                    f"{dec}:nominal",
                    okn,
                    "" if okn else f"no value of the file field {fb[0]} makes the {written!r} bytes written equal the announced {announced!r}: header and payload loops disagree even for a well-formed file",
                    file=rel,
                    line=call.lineno,
                    facts={"nominal_value": nominal[:3]},
                    props=["C18", "C16", "C19"],  # also C19: a well-formed (or one-bit damaged) header then yields a short payload and success
                )
            ctx.ob(key, False, msg, file=rel, line=call.lineno, facts=facts, witness=("an option value violating: " + ", ".join(unmet)) if unmet else "", props=["C18"] if unmet else (["C19"] if fb or not _only_options(fn, wr_n, an_n) else ["C18", "C19", "C16"]))
        if all_ok:
            ctx.ob(dec, True, file=rel, line=call.lineno, facts=last_facts)


def _only_options(fn: ast.FunctionDef, *polys) -> bool:
    """The two sample counts disagree for some *well-formed* input: both are functions of the decoder's parameters (the
    option values) and of single header flag bits (`getbit(x, k)`, both values legal) alone, and they differ for at
    least one value of the flags.  A count that depends on the file's own size or on a count byte is about damaged
    input (C19 only)."""
    import itertools

    params = {a.arg for a in fn.args.args + fn.args.kwonlyargs}
    flags: List[str] = []
    for p_ in polys:
        for k in p_.terms:
            for a in k:
                if re.fullmatch(r"getbit\(\w+, *\d+\)", a):
                    if a not in flags:
                        flags.append(a)
                    continue
                ids = set(re.findall(r"[A-Za-z_][A-Za-z_0-9.]*", a))
                if not ids <= params | {"min", "max", "floordiv", "int", "abs", "mod"}:
                    return False
    if not flags:
        return True

    def subst(p_: Poly, env: Dict[str, int]) -> Poly:
        out = Poly()
        for k, co in p_.terms.items():
            c2 = co
            rest = []
            for a in k:
                if a in env:
                    c2 *= env[a]
                else:
                    rest.append(a)
            if c2:
                out = out + Poly({tuple(rest): c2})
        return out

    for vals in itertools.product((0, 1), repeat=len(flags)):
        env = dict(zip(flags, vals))
        if not (subst(polys[0], env) == subst(polys[1], env)):
            return True
    return False


def _const_test(t: ast.AST, env: Dict[str, Poly]) -> Optional[bool]:
    """Truth value of a comparison between constants of the tracked environment (None if not decidable)."""
    if isinstance(t, ast.Compare) and len(t.ops) == 1:
        a, b = poly_eval(t.left, env).is_const(), poly_eval(t.comparators[0], env).is_const()
        if isinstance(t.left, ast.Name) and t.left.id not in env:
            return None
        if a is None or b is None:
            return None
        op = t.ops[0]
        return {ast.Eq: a == b, ast.NotEq: a != b, ast.Lt: a < b, ast.LtE: a <= b, ast.Gt: a > b, ast.GtE: a >= b}.get(type(op))
    return None


def _paths(stmts: List[ast.stmt], limit: int = 64) -> List[Tuple[List[str], List[ast.stmt]]]:
    """Enumerate the paths through the top-level if-statements of a statement list (returns cut a path)."""
    paths: List[Tuple[List[str], List[ast.stmt], bool]] = [([], [], True)]
    for st in stmts:
        nxt = []
        for conds, acc, alive in paths:
            if not alive:
                nxt.append((conds, acc, alive))
                continue
            if isinstance(st, ast.If):
                t = unparse(st.test)
                for pol, cond, body in ((True, t, st.body), (False, f"not ({t})", st.orelse)):
                    for c2, a2 in _paths(body, limit):
                        ends = any(isinstance(x, (ast.Return, ast.Raise)) or (isinstance(x, ast.Expr) and isinstance(x.value, ast.Call) and call_name(x.value) == "exit") for x in a2)
                        nxt.append((conds + [cond] + c2, acc + [("cond", st.test, pol)] + a2, not ends))
            elif isinstance(st, (ast.Return, ast.Raise)):
                nxt.append((conds, acc + [st], False))
            else:
                nxt.append((conds, acc + [st], True))
        paths = nxt[:limit]
    return [(c, a) for c, a, alive in paths if alive]


@rule("D4b", "DERIVED-HEIGHT: MAX derives its height as floor(8 * length / width) and refuses a length that is not a whole number of rows", ["C18", "C16", "C19"], floor=2, default_props=["C18", "C16"])
def d4b(ctx: Ctx):
    D = decoderfacts(ctx)
    fn = D.fn("maxtoppm", "convert")
    rel = DECODERS["maxtoppm"]
    # size = hi * 256 + lo from header bytes 1 and 2 (names of locals are free; cols / rows are parameters)
    from .pyast import ast_match, _pat

    cols_p, rows_p = fn.args.args[4].arg, fn.args.args[5].arg
    sz = None
    for n in ast.walk(fn):
        if isinstance(n, ast.Assign) and isinstance(n.targets[0], ast.Name):
            for pat in ("ord($h[1]) * 256 + ord($h[2])", "ord($h[2]) + ord($h[1]) * 256", "(ord($h[1]) << 8) + ord($h[2])", "ord($h[1]) << 8 | ord($h[2])"):
                if ast_match(_pat(pat), n.value, {}):
                    sz = n
    lenvar = None
    cand = [n for n in ast.walk(fn) if isinstance(n, ast.Assign) and isinstance(n.targets[0], ast.Name) and n.targets[0].id == rows_p and isinstance(n.value, ast.BinOp)]
    rw = next((n for n in cand if any(isinstance(x, ast.Name) and x.id == cols_p for x in ast.walk(n.value))), None)
    height_names = {rows_p}
    if rw is None:
        # through a local: `hrows = 8 * size // cols` ... `rows = hrows`
        for n in ast.walk(fn):
            if isinstance(n, ast.Assign) and isinstance(n.targets[0], ast.Name) and n.targets[0].id == rows_p and isinstance(n.value, ast.Name):
                d_ = next((a for a in ast.walk(fn) if isinstance(a, ast.Assign) and isinstance(a.targets[0], ast.Name) and a.targets[0].id == n.value.id and isinstance(a.value, ast.BinOp) and any(isinstance(x, ast.Name) and x.id == cols_p for x in ast.walk(a.value))), None)
                if d_ is not None:
                    rw = d_
                    height_names.add(n.value.id)
    if rw is None:
        # the width enters through a once-bound local (`row_bytes = cols >> 3; rows = size // row_bytes`): substitute it
        class _Sub(ast.NodeTransformer):
            def visit_Name(self, n_):
                r_ = resolve_alias(fn, n_)
                if r_ is not n_ and isinstance(n_.ctx, ast.Load) and any(isinstance(x, ast.Name) and x.id == cols_p for x in ast.walk(r_)):
                    return copy.deepcopy(r_)
                return n_

        for n in cand:
            v_ = _Sub().visit(copy.deepcopy(n.value))
            if any(isinstance(x, ast.Name) and x.id == cols_p for x in ast.walk(v_)):
                rw = ast.copy_location(ast.Assign(targets=n.targets, value=ast.fix_missing_locations(v_)), n)
                break
    ctx.need(rw is not None, "maxtoppm.rows", "derivation of the height from the length field not found")
    others = sorted(names_loaded(rw.value) - {cols_p})
    ctx.need(len(others) == 1, "maxtoppm.rows", f"height is derived from {others}")
    lenvar = others[0]
    ldef = next((n for n in ast.walk(fn) if isinstance(n, ast.Assign) and isinstance(n.targets[0], ast.Name) and n.targets[0].id == lenvar), None)
    ctx.need(ldef is not None, "maxtoppm.length", "definition of the length value not found")
    oks = sz is not None and sz is ldef
    ctx.ob("maxtoppm:length-field", oks, "" if oks else f"the data length is read as `{unparse(ldef.value)}`, not big-endian from header bytes 1 and 2", file=rel, line=ldef.lineno)
    v = rw.value
    ok = False
    if isinstance(v, ast.BinOp) and isinstance(v.op, ast.FloorDiv):
        num = poly_eval(v.left, {})
        den = poly_eval(v.right, {})
        ok = num == Poly.atom(lenvar) * Poly.const(8) and den == Poly.atom(cols_p)
    ctx.ob(
        "maxtoppm:rows=8*size//cols",
        ok,
        "" if ok else f"rows are derived as `{unparse(v)}`; the file holds `{lenvar}` bytes of `{cols_p}/8` bytes per row, so the height is floor(8*{lenvar}/{cols_p}): heights that are not a multiple of 8 come out wrong (and the consistency test then rejects a good file)",
        file=rel,
        line=rw.lineno,
        witness="" if ok else ("-w 100: a width that is not a multiple of 8" if any(isinstance(x, (ast.RShift, ast.FloorDiv)) for x in ast.walk(v.right if isinstance(v, ast.BinOp) else v)) else "a 256x100 MAX file (3200 data bytes)"),
    )
    def _test_names(t_: ast.AST) -> Set[str]:
        # names the test reads, looking through single-assignment locals (`actual = cols * rows // 8; if actual != size`)
        out_ = set(names_loaded(t_))
        for nm_ in [x_ for x_ in ast.walk(t_) if isinstance(x_, ast.Name)]:
            r_ = resolve_alias(fn, nm_)
            if r_ is not nm_:
                out_ |= names_loaded(r_)
        return out_

    chk = next((n for n in ast.walk(fn) if isinstance(n, ast.If) and lenvar in _test_names(n.test) and height_names & _test_names(n.test)), None)
    okc = False
    if chk is not None and isinstance(chk.test, ast.Compare) and isinstance(chk.test.ops[0], ast.NotEq):
        a, b = chk.test.left, chk.test.comparators[0]
        for x, y in ((a, b), (b, a)):
            x = resolve_alias(fn, x) if not (isinstance(x, ast.Name) and x.id == lenvar) else x
            if isinstance(y, ast.Name) and y.id == lenvar and isinstance(x, ast.BinOp) and isinstance(x.op, ast.FloorDiv):
                okc = any(poly_eval(x.left, {}) == Poly.atom(cols_p) * Poly.atom(h_) for h_ in height_names) and poly_eval(x.right, {}).is_const() == 8
    # (the refusal of a length field that does not fit the width is also how a damaged header is reported: C19)
    ctx.ob("maxtoppm:length-consistency", okc, "" if okc else "the test that the derived height reproduces the length field is gone or changed", file=rel, line=chk.lineno if chk else fn.lineno, props=["C18", "C16", "C19"])
    # the length field only matters when the height is derived from it: with a height given by -r the refusal must not fire
    if chk is not None and any(isinstance(x, ast.Return) for x in ast.walk(chk)):
        par_ = {id(c): p_ for p_ in ast.walk(fn) for c in ast.iter_child_nodes(p_)}
        g_, under = par_.get(id(chk)), False
        while g_ is not None and g_ is not fn:
            if isinstance(g_, ast.If) and rows_p in names_loaded(g_.test) and lenvar not in names_loaded(g_.test):
                under = True
            g_ = par_.get(id(g_))
        ctx.ob("maxtoppm:length-check-when-derived", under, "" if under else f"the refusal `if {unparse(chk.test)}: ... return` is not limited to the case where `{rows_p}` is derived from the length field: with an explicit height (-r) and a width that does not divide the stored length the picture is refused and the output removed, although the options dictate its size", file=rel, line=chk.lineno, props=["C18"])
    # newsroom header: cols = byte0 * 8, rows = byte1
    news_p = fn.args.args[3].arg
    nr = [n for n in ast.walk(fn) if isinstance(n, ast.If) and unparse(n.test) == news_p]
    ctx.need(nr, "maxtoppm.newsroom", "newsroom branch not found")
    from .pyast import ast_contains as _ac

    okn = any(ast_match(_pat(f"{cols_p} = ord($h[0]) * 8"), st, {}) for st in nr[0].body) and any(ast_match(_pat(f"{rows_p} = ord($h[1])"), st, {}) for st in nr[0].body)
    ctx.ob("maxtoppm:newsroom-header", okn, "" if okn else "Newsroom header is no longer read as width/8 and height bytes", file=rel, line=nr[0].lineno)


# ---------------------------------------------------------------------------
# D5 READ-DISCIPLINE


def _defaulted_read(call: ast.Call, parents) -> Optional[ast.AST]:
    """`f.read(n) or <default>` / `x if x else <default>` around a read (through the string converters): the expression, else None."""
    p, child = parents.get(id(call)), call
    hops = 0
    while p is not None and hops < 4:
        if isinstance(p, ast.BoolOp) and isinstance(p.op, ast.Or) and p.values and p.values[0] is child and len(p.values) > 1:
            return p
        if isinstance(p, ast.Call) and call_name(p) in ("iotostr", "iotobytes", "bytearray", "bytes"):
            p, child = parents.get(id(p)), p
            hops += 1
            continue
        break
    return None


def _is_strict_read(call: ast.Call, parents) -> bool:
    """ord(iotostr(f.read(1))) / ord(f.read(1)): raises at end of file."""
    p = parents.get(id(call))
    hops = 0
    while p is not None and hops < 3:
        if isinstance(p, ast.Call) and call_name(p) == "ord":
            return True
        if isinstance(p, ast.Call) and call_name(p) in ("iotostr", "iotobytes", "bytearray"):
            p = parents.get(id(p))
            hops += 1
            continue
        break
    return False


@rule("D5", "READ-DISCIPLINE: data that produces output is read strictly (a short read fails) or its length is checked", ["C19"], floor=20)
def d5(ctx: Ctx):
    D = decoderfacts(ctx)
    for dec in ("hrstoppm", "maxtoppm", "pixtopgm", "mgetoppm", "cm3toppm", "rattoppm"):
        rel = DECODERS[dec]
        fn = D.fn(dec, "convert")
        try:
            _need_modelled(ctx, "D5", dec, fn)
        except AnalysisError as e_:
            ctx.errors.append(e_)
            continue
        parents: Dict[int, ast.AST] = {}
        for n in ast.walk(fn):
            for c in ast.iter_child_nodes(n):
                parents[id(c)] = n
        nested = D.nested(fn)
        writers = {name for name, f in nested.items() if any(isinstance(c, ast.Call) and call_name(c) == "write" for c in ast.walk(f))}
        n_reads = 0
        for n in ast.walk(fn):
            if not (isinstance(n, ast.Call) and call_name(n) == "read" and isinstance(n.func, ast.Attribute)):
                continue
            n_reads += 1
            size = unparse(n.args[0]) if n.args else "<all>"
            key = f"{dec}.read({size})@{_ordinal_read(fn, n)}"
            dflt = _defaulted_read(n, parents)
            if dflt is not None:
                ctx.ob(key, False, f"`{unparse(dflt)}` replaces the empty result of a read at end of file by a value: a truncated file is decoded as if it contained that byte (a terminator, a zero count) and the short picture is reported as success", file=rel, line=n.lineno, witness="a file cut at this read")
                continue
            if _is_strict_read(n, parents):
                ctx.ob(key, True, file=rel, line=n.lineno, facts={"kind": "strict"})
                continue
            # where does the value go?
            st = parents.get(id(n))
            while st is not None and not isinstance(st, ast.stmt):
                st = parents.get(id(st))
            if isinstance(st, ast.Expr):
                ctx.ob(key, True, file=rel, line=n.lineno, facts={"kind": "discarded (skip)"})
                continue
            if isinstance(st, ast.While) or (isinstance(st, ast.stmt) and any(isinstance(p_, ast.Compare) and n in list(ast.walk(p_)) for p_ in ast.walk(st))):
                ctx.ob(key, True, file=rel, line=n.lineno, facts={"kind": "compared with the empty string (end-of-file probe)"})
                continue
            target = st.targets[0].id if isinstance(st, ast.Assign) and isinstance(st.targets[0], ast.Name) else None
            # iterated with output in the loop body -> tolerant read feeding the image
            feeds_output = False
            length_checked = False
            indexed_const = False
            if target:
                for x in ast.walk(fn):
                    if isinstance(x, ast.For) and isinstance(x.iter, ast.Name) and x.iter.id == target:
                        if any(isinstance(c, ast.Call) and (call_name(c) == "write" or call_name(c) in writers) for c in ast.walk(x)):
                            feeds_output = True
                    if isinstance(x, ast.Call) and call_name(x) == "len" and x.args and isinstance(x.args[0], ast.Name) and x.args[0].id == target:
                        if isinstance(parents.get(id(x)), ast.Compare):
                            length_checked = True
                    if isinstance(x, ast.Subscript) and isinstance(x.value, ast.Name) and x.value.id == target and isinstance(x.slice, ast.Constant):
                        indexed_const = True
            if feeds_output and not length_checked:
                ctx.ob(
                    key,
                    False,
                    f"`{unparse(st)}` returns whatever is left at end of file and the loop over `{target}` writes pixels for just those bytes: a truncated file gives a short image and success",
                    file=rel,
                    line=n.lineno,
                    witness="a file cut in the middle of a row",
                )
            else:
                # header-area read: must be followed by a strict read later in the function
                later_strict = any(
                    isinstance(c, ast.Call) and call_name(c) == "read" and c.lineno > n.lineno and _is_strict_read(c, parents) for c in ast.walk(fn)
                )
                ok = later_strict or indexed_const or length_checked
                ctx.ob(
                    key,
                    ok,
                    "" if ok else f"`{unparse(st)}` tolerates a short read and nothing later fails at end of file",
                    file=rel,
                    line=n.lineno,
                    facts={"kind": "header-area read" + (", indexed with constants" if indexed_const else "") + (", followed by strict reads" if later_strict else "")},
                )
        ctx.need(n_reads > 0, dec, "no read() call found in convert()")


def _ordinal_read(fn: ast.FunctionDef, call: ast.Call) -> int:
    reads = sorted([n for n in ast.walk(fn) if isinstance(n, ast.Call) and call_name(n) == "read" and isinstance(n.func, ast.Attribute)], key=lambda n: (n.lineno, n.col_offset))
    same = [r for r in reads if (unparse(r.args[0]) if r.args else "") == (unparse(call.args[0]) if call.args else "")]
    return same.index(call) + 1


# ---------------------------------------------------------------------------
# D6 COUNTER-GUARD


def _count_down_form(fn: ast.FunctionDef) -> ast.FunctionDef:
    """A counter that counts *up* to a total (`done = 0` ... `done += 1` ... `if done >= total`) is rewritten into the
    counter of what is left (`left = total` ... `left -= 1` ... `if left <= 0`): left == total - done everywhere, so the
    two programs make the same decisions.  Only when the counter is used in nothing but these three forms."""
    fn = copy.deepcopy(fn)
    cands = [a.targets[0].id for a in ast.walk(fn) if isinstance(a, ast.Assign) and len(a.targets) == 1 and isinstance(a.targets[0], ast.Name) and isinstance(a.value, ast.Constant) and a.value.value == 0 and not isinstance(a.value.value, bool)]
    for u in cands:
        uses = [x for x in ast.walk(fn) if isinstance(x, ast.Name) and x.id == u]
        inits = [a for a in ast.walk(fn) if isinstance(a, ast.Assign) and len(a.targets) == 1 and isinstance(a.targets[0], ast.Name) and a.targets[0].id == u and isinstance(a.value, ast.Constant) and a.value.value == 0]
        incs = [a for a in ast.walk(fn) if (isinstance(a, ast.AugAssign) and isinstance(a.op, ast.Add) and isinstance(a.target, ast.Name) and a.target.id == u and isinstance(a.value, ast.Constant) and a.value.value == 1) or (isinstance(a, ast.Assign) and len(a.targets) == 1 and isinstance(a.targets[0], ast.Name) and a.targets[0].id == u and isinstance(a.value, ast.BinOp) and isinstance(a.value.op, ast.Add) and isinstance(a.value.left, ast.Name) and a.value.left.id == u and isinstance(a.value.right, ast.Constant) and a.value.right.value == 1)]
        tests = [c for c in ast.walk(fn) if isinstance(c, ast.Compare) and len(c.ops) == 1 and isinstance(c.left, ast.Name) and c.left.id == u and isinstance(c.comparators[0], ast.Name)]
        totals = {c.comparators[0].id for c in tests}
        n_uses = len(inits) + sum(1 if isinstance(a, ast.AugAssign) else 2 for a in incs) + len(tests)
        if len(inits) != 1 or not incs or not tests or len(totals) != 1 or n_uses != len(uses):
            continue
        total = next(iter(totals))
        if sum(1 for x in ast.walk(fn) if isinstance(x, ast.Name) and x.id == total and isinstance(x.ctx, ast.Store)) != 1:
            continue
        inits[0].value = ast.copy_location(ast.Name(id=total, ctx=ast.Load()), inits[0].value)
        for a in incs:
            if isinstance(a, ast.AugAssign):
                a.op = ast.Sub()
            else:
                a.value.op = ast.Sub()
        flip = {ast.GtE: ast.LtE, ast.Gt: ast.Lt, ast.Lt: ast.Gt, ast.LtE: ast.GtE, ast.Eq: ast.Eq, ast.NotEq: ast.NotEq}
        for c in tests:
            c.ops = [flip[type(c.ops[0])]()]
            c.comparators = [ast.copy_location(ast.Constant(value=0), c.comparators[0])]
    ast.fix_missing_locations(fn)
    return fn


@rule("D6", "COUNTER-GUARD: a remaining-sample counter cannot be overshot, and a data-driven stop while it is positive fails", ["C19", "C18", "C17"], floor=2, default_props=["C19"])
def d6(ctx: Ctx):
    D = decoderfacts(ctx)
    found = 0
    for dec in ("rattoppm", "mgetoppm", "cm3toppm", "hrstoppm", "maxtoppm", "pixtopgm"):
        rel = DECODERS[dec]
        fn = _count_down_form(D.fn(dec, "convert"))
        try:
            _need_modelled(ctx, "D6", dec, fn)
        except AnalysisError as e_:
            ctx.errors.append(e_)
            continue
        parents: Dict[int, ast.AST] = {}
        for n in ast.walk(fn):
            for c in ast.iter_child_nodes(n):
                parents[id(c)] = n
        for wl in [n for n in ast.walk(fn) if isinstance(n, ast.While)]:
            # counters decremented inside a for-loop nested in this while
            for fl in [n for n in ast.walk(wl) if isinstance(n, ast.For)]:
                for st in ast.walk(fl):
                    ctr = _decrement_target(st)
                    if ctr is None:
                        continue
                    writes_in_for = any(isinstance(c, ast.Call) and call_name(c) not in ("range", "ord", "iotostr") and c is not st for c in ast.walk(fl))
                    if not writes_in_for:
                        continue
                    found += 1
                    # (b) the repeat loop cannot cross zero: a test of the counter inside the for that leaves it
                    guard = None
                    for i_ in ast.walk(fl):
                        if isinstance(i_, ast.If) and ctr in names_loaded(i_.test) and any(isinstance(b, ast.Break) for b in i_.body):
                            guard = i_
                    # (a) leaving the for on exhaustion must also end the while
                    while_tests_ctr = ctr in names_loaded(wl.test)
                    outer_break = any(
                        isinstance(i_, ast.If) and ctr in names_loaded(i_.test) and any(isinstance(b, ast.Break) for b in i_.body) and parents.get(id(i_)) is wl
                        for i_ in ast.walk(wl)
                    )
                    ok_b = guard is not None
                    if guard is not None:
                        # the counter counts down by one from a positive number: the guard must fire when it reaches 0
                        fires_at_zero = _test_at(guard.test, ctr, 0)
                        fires_at_one = _test_at(guard.test, ctr, 1)
                        okp = fires_at_zero is True and fires_at_one is False
                        ctx.ob(
                            f"{dec}.repeat-guard:exact",
                            okp,
                            "" if okp else f"the guard `if {unparse(guard.test)}: break` does not fire exactly when `{ctr}` reaches 0 (at 0: {fires_at_zero}, at 1: {fires_at_one}): a run that crosses the end of the picture writes one byte more (or less) than the header announces",
                            file=rel,
                            line=guard.lineno,
                            props=["C19", "C17", "C18"],  # a run that covers the last bytes of the picture is a valid encoding (C17) of a complete image (C18)
                        )
                    if guard is not None:
                        # the sample of this iteration is written before the counter that accounts for it is tested
                        body = fl.body
                        idx_w = next((k_ for k_, b_ in enumerate(body) if isinstance(b_, ast.Expr) and isinstance(b_.value, ast.Call) and b_ is not st and _decrement_target(b_) is None), None)
                        idx_d = next((k_ for k_, b_ in enumerate(body) if any(x is st for x in ast.walk(b_))), None)
                        idx_g = next((k_ for k_, b_ in enumerate(body) if b_ is guard), None)
                        if idx_w is not None and idx_d is not None and idx_g is not None:
                            oko = idx_w < idx_g and idx_d < idx_g
                            ctx.ob(
                                f"{dec}.repeat-guard:order",
                                oko,
                                "" if oko else f"the test `if {unparse(guard.test)}: break` runs before the sample of the same iteration is written: the byte that completes the picture is counted but never written, the image is short of what the header announces",
                                file=rel,
                                line=guard.lineno,
                                props=["C18", "C19"],
                            )
                    ctx.ob(
                        f"{dec}.repeat-guard",
                        ok_b,
                        "" if ok_b else f"the repeat loop decrements `{ctr}` without testing it: a run longer than the samples left writes past the announced image size",
                        file=rel,
                        line=fl.lineno,
                        witness="" if ok_b else "a repeat count larger than the remaining pixel count",
                        rule="D6",
                    ) if dec == "rattoppm" or not ok_b else None
                    if guard is not None:
                        ok_a = while_tests_ctr or outer_break
                        ctx.ob(
                            f"{dec}.break",
                            ok_a,
                            "" if ok_a else f"`break` on `{ctr}` exhausted leaves only the inner for-loop; the enclosing `while {unparse(wl.test)}` goes on reading runs and writing pixels past the announced size",
                            file=rel,
                            line=guard.lineno,
                        )
                    # (c) data-driven terminator of the while: must fail if the counter is still positive
                    for i_ in wl.body:
                        if isinstance(i_, ast.If) and ctr not in names_loaded(i_.test) and any(isinstance(b, ast.Break) for b in i_.body):
                            fails_inside = any(isinstance(x, ast.Raise) or (isinstance(x, ast.Call) and call_name(x) == "exit") for b in i_.body for x in ast.walk(b))
                            after_check = False
                            par = parents.get(id(wl))
                            seq = getattr(par, "body", [])
                            if wl in seq:
                                for later in seq[seq.index(wl) + 1 :]:
                                    if isinstance(later, ast.If) and ctr in names_loaded(later.test) and any(isinstance(x, ast.Raise) or (isinstance(x, ast.Call) and call_name(x) == "exit") for x in ast.walk(later)):
                                        after_check = True
                            # also look after the enclosing if/else that holds the while
                            gp = parents.get(id(par)) if par is not None else None
                            ok_c = fails_inside or after_check
                            tv = sorted(names_loaded(i_.test))
                            z = _test_at(i_.test, tv[0], 0) if len(tv) == 1 else None
                            o1 = _test_at(i_.test, tv[0], 1) if len(tv) == 1 else None
                            okz = z is True and o1 is False
                            ctx.ob(
                                f"{dec}.terminator:on-zero",
                                okz,
                                "" if okz else f"the run loop ends on `{unparse(i_.test)}`: the stream terminator is a zero count (true at 0: {z}, at 1: {o1}), so either the first run already ends the picture or a zero count is decoded as a run",
                                file=rel,
                                line=i_.lineno,
                                props=["C17", "C19"],
                            )
                            ctx.ob(
                                f"{dec}.terminator",
                                ok_c,
                                "" if ok_c else f"`if {unparse(i_.test)}: break` ends the stream while `{ctr}` may still be positive and nothing reports it: a short stream yields a short image and success",
                                file=rel,
                                line=i_.lineno,
                            )
            # a test that weighs a run length against the samples left and gives up (break / raise): a run that ends exactly
            # with the picture (length == samples left) is a valid last run - the test must let it through
            from .decoders import IntEvalError as _IEE6, int_eval as _ie6

            ctrs_ = {_decrement_target(x) for fl in ast.walk(wl) if isinstance(fl, ast.For) for x in ast.walk(fl)} - {None}
            runs_ = {fl.iter.args[0].id for fl in ast.walk(wl) if isinstance(fl, ast.For) and isinstance(fl.iter, ast.Call) and call_name(fl.iter) == "range" and len(fl.iter.args) == 1 and isinstance(fl.iter.args[0], ast.Name)}
            for i_ in ast.walk(wl):
                if not (isinstance(i_, ast.If) and any(isinstance(b, (ast.Break, ast.Raise)) or (isinstance(b, ast.Return)) for x_ in i_.body for b in ast.walk(x_))):
                    continue
                nm_ = names_loaded(i_.test)
                c_, r_ = nm_ & ctrs_, nm_ & runs_
                if len(c_) != 1 or len(r_) != 1 or nm_ - c_ - r_:
                    continue
                cv, rv = next(iter(c_)), next(iter(r_))
                try:
                    at_fit = bool(_ie6(i_.test, {cv: 5, rv: 5}))
                    at_less = bool(_ie6(i_.test, {cv: 5, rv: 3}))
                except _IEE6:
                    continue
                okx = not at_fit and not at_less
                found += 0
                ctx.ob(
                    f"{dec}.run-fits:{rv}",
                    okx,
                    "" if okx else f"`if {unparse(i_.test)}` gives up on a run of {rv} = {'5' if at_fit else '3'} samples when {cv} = 5 are left: a run that " + ("ends exactly with the picture" if at_fit and not at_less else "fits into the picture") + " is a valid encoding, its samples are dropped and the image is short",
                    file=rel,
                    line=i_.lineno,
                    props=["C17", "C18", "C19"],
                    witness="" if okx else "a picture whose last run is escape-coded",
                )
            # a clamp `r = min(r, f(ctr))` keeps a run of exactly `ctr` samples whole
            for a_ in ast.walk(wl):
                if isinstance(a_, ast.Assign) and len(a_.targets) == 1 and isinstance(a_.targets[0], ast.Name) and a_.targets[0].id in runs_ and isinstance(a_.value, ast.Call) and call_name(a_.value) == "min":
                    rv = a_.targets[0].id
                    cs_ = names_loaded(a_.value) & ctrs_
                    if len(cs_) != 1 or names_loaded(a_.value) - cs_ - {rv, "min", "max"}:
                        continue
                    cv = next(iter(cs_))
                    try:
                        vals_ = [_ie6(x_, {cv: 5, rv: 5}) for x_ in a_.value.args]
                    except _IEE6:
                        continue
                    okc_ = min(vals_) == 5
                    ctx.ob(
                        f"{dec}.run-clamp:{rv}",
                        okc_,
                        "" if okc_ else f"`{unparse(a_)}` cuts a run of {rv} = 5 samples down to {min(vals_)} when exactly {cv} = 5 are left: the sample that completes the picture is never written by a final run",
                        file=rel,
                        line=a_.lineno,
                        props=["C17", "C18", "C19"],
                    )
            # the same accounting written per run: `for _ in range(n): write ...` and `counter -= n` (before or after it) in the while body.
            # Nothing can stop the repeat at the end of the picture in this form: it is the unguarded repeat loop.
            for k_, st in enumerate(wl.body):
                # (counting down to zero or up to the total: the same accounting)
                if isinstance(st, ast.AugAssign) and isinstance(st.op, (ast.Sub, ast.Add)) and isinstance(st.target, ast.Name) and isinstance(st.value, ast.Name):
                    reps = [f_ for f_ in wl.body if isinstance(f_, ast.For) and isinstance(f_.iter, ast.Call) and call_name(f_.iter) == "range" and len(f_.iter.args) == 1 and isinstance(f_.iter.args[0], ast.Name) and f_.iter.args[0].id == st.value.id and any(isinstance(c, ast.Call) and call_name(c) not in ("range", "ord", "iotostr") for c in ast.walk(f_))]
                    if reps and st.target.id in names_loaded(wl.test) and not any(_decrement_target(x) == st.target.id for f_ in reps for x in ast.walk(f_)):
                        found += 1
                        clamped = any(isinstance(a_, ast.Assign) and isinstance(a_.targets[0], ast.Name) and a_.targets[0].id == st.value.id and isinstance(a_.value, ast.Call) and call_name(a_.value) == "min" and st.target.id in names_loaded(a_.value) for a_ in wl.body[:k_])
                        ctx.ob(
                            f"{dec}.repeat-guard",
                            clamped,
                            "" if clamped else f"the repeat loop writes `{st.value.id}` samples and only then takes them off `{st.target.id}`: a run longer than the samples left writes past the announced image size",
                            file=rel,
                            line=reps[0].lineno,
                            witness="" if clamped else "a repeat count larger than the remaining pixel count",
                            rule="D6",
                        )
    ctx.need(found >= 2, "counters", f"only {found} remaining-sample counters found (expected RAT and MGE)")


def _test_at(test: ast.AST, var: str, val: int) -> Optional[bool]:
    if isinstance(test, ast.Compare) and len(test.ops) == 1 and isinstance(test.left, ast.Name) and test.left.id == var and isinstance(test.comparators[0], ast.Constant):
        k = test.comparators[0].value
        op = type(test.ops[0])
        return {ast.Lt: val < k, ast.LtE: val <= k, ast.Gt: val > k, ast.GtE: val >= k, ast.Eq: val == k, ast.NotEq: val != k}.get(op)
    if isinstance(test, ast.UnaryOp) and isinstance(test.op, ast.Not) and isinstance(test.operand, ast.Name) and test.operand.id == var:
        return val == 0
    return None


def _decrement_target(st: ast.AST) -> Optional[str]:
    if isinstance(st, ast.AugAssign) and isinstance(st.op, ast.Sub) and isinstance(st.target, ast.Name):
        return st.target.id
    if isinstance(st, ast.Assign) and isinstance(st.targets[0], ast.Name) and isinstance(st.value, ast.BinOp) and isinstance(st.value.op, ast.Sub):
        if isinstance(st.value.left, ast.Name) and st.value.left.id == st.targets[0].id and isinstance(st.value.right, ast.Constant):
            return st.targets[0].id
    return None


# ---------------------------------------------------------------------------
# D7 HEADER-GATE, D8 LOOP-PROGRESS, D9 STREAM-ARGS


@rule("D7", "HEADER-GATE: every format refusal precedes the first output write; MAX removes the output on failure", ["C19"], floor=4)
def d7(ctx: Ctx):
    D = decoderfacts(ctx)
    unmodelled_dec = set()
    for dec in ("maxtoppm", "mgetoppm", "rattoppm", "cm3toppm", "hrstoppm", "pixtopgm"):
        rel = DECODERS[dec]
        fn = D.fn(dec, "convert")
        try:
            _need_modelled(ctx, "D7", dec, fn)
        except AnalysisError as e_:
            ctx.errors.append(e_)
            unmodelled_dec.add(dec)
            continue
        first_write = None
        for st in fn.body:
            if isinstance(st, ast.FunctionDef):
                continue
            for c in ast.walk(st):
                if _is_out_write(c, _out_names(fn)):
                    first_write = first_write or c.lineno
        ctx.need(first_write is not None, dec, "no output write found")
        refusals = []
        for st in fn.body:
            if isinstance(st, ast.FunctionDef):
                continue
            for c in ast.walk(st):
                if isinstance(c, ast.Raise):
                    refusals.append((c.lineno, "raise"))
                elif isinstance(c, ast.Call) and call_name(c) == "exit":
                    refusals.append((c.lineno, "sys.exit"))
                elif isinstance(c, ast.Return) and isinstance(c.value, ast.Constant) and c.value.value is False:
                    refusals.append((c.lineno, "return False"))
        for ln, kind in refusals:
            ok = ln < first_write
            ctx.ob(f"{dec}:{kind}@{refusals.index((ln, kind)) + 1}", ok, "" if ok else f"`{kind}` at line {ln} comes after the first output write (line {first_write}): a rejected file leaves a partial image behind", file=rel, line=ln)
        if not refusals:
            ctx.info(f"{dec}:no-format-check", "decoder has no format field to validate", file=rel, line=fn.lineno)
    # the format gates that exist today must keep existing: an `if` on a value read from the header whose body refuses
    for dec, want in (("mgetoppm", 1), ("rattoppm", 1), ("maxtoppm", 2)):
        if dec in unmodelled_dec:
            continue
        fn = D.fn(dec, "convert")
        gates = 0
        for n in ast.walk(fn):
            # (the test may be named first: `bad = ord(head[0]) != 0; if bad:`)
            if not isinstance(n, ast.If):
                continue
            t_ = resolve_alias(fn, n.test)
            # (`if packed == 0:` may be spelled `if not packed:`: a truth test of a value that was read from the stream)
            read_locals = {a.targets[0].id for a in ast.walk(fn) if isinstance(a, ast.Assign) and len(a.targets) == 1 and isinstance(a.targets[0], ast.Name) and any(isinstance(c_, ast.Call) and call_name(c_) == "read" for c_ in ast.walk(a.value))}
            truth_of_read = isinstance(t_, (ast.UnaryOp, ast.Name)) and bool(names_loaded(t_) & read_locals) and not any(isinstance(c_, ast.Call) for c_ in ast.walk(t_))
            if isinstance(n, ast.If) and (isinstance(t_, ast.Compare) or truth_of_read):
                refuses = any(isinstance(x, ast.Raise) or (isinstance(x, ast.Call) and call_name(x) == "exit") or (isinstance(x, ast.Return) and isinstance(x.value, ast.Constant) and x.value.value is False) for b in n.body for x in ast.walk(b))
                if refuses:
                    gates += 1
        ctx.ob(f"{dec}:format-check", gates >= want, "" if gates >= want else f"{dec} has {gates} header checks that refuse the file, {want} expected: files of another format are decoded to garbage", file=DECODERS[dec], line=fn.lineno)
    # a header field is validated where it is read: no option decides whether the check runs
    for dec in ("mgetoppm", "rattoppm", "maxtoppm", "cm3toppm"):
        if dec in unmodelled_dec:
            continue
        fn = D.fn(dec, "convert")
        rel = DECODERS[dec]
        blocks: Dict[int, List[ast.stmt]] = {}

        def index(stmts):
            for st in stmts:
                blocks[id(st)] = stmts
                for fld in ("body", "orelse", "finalbody"):
                    sub = getattr(st, fld, None)
                    if isinstance(sub, list) and sub and isinstance(sub[0], ast.stmt) and not isinstance(st, ast.FunctionDef):
                        index(sub)

        index(fn.body)
        k = 0
        par_stmt: Dict[int, ast.stmt] = {}
        for st in ast.walk(fn):
            for fld in ("body", "orelse", "finalbody"):
                sub = getattr(st, fld, None)
                if isinstance(sub, list):
                    for c_ in sub:
                        if isinstance(c_, ast.stmt):
                            par_stmt[id(c_)] = st

        def enclosing_blocks(st):
            out = []
            x = st
            while id(x) in blocks:
                out.append(blocks[id(x)])
                x = par_stmt.get(id(x))
                if x is None or x is fn:
                    break
            return out

        for g in [n for n in ast.walk(fn) if isinstance(n, ast.If) and id(n) in blocks and isinstance(n.test, ast.Compare)]:
            refuses = any(isinstance(x, ast.Raise) or (isinstance(x, ast.Call) and call_name(x) == "exit") or (isinstance(x, ast.Return) and isinstance(x.value, ast.Constant) and x.value.value is False) for b in g.body for x in ast.walk(b))
            if not refuses:
                continue
            blk = blocks[id(g)]
            for nm in sorted(names_loaded(g.test)):
                # nearest assignment of nm from file data that precedes the gate
                defs = [a for a in ast.walk(fn) if isinstance(a, ast.Assign) and id(a) in blocks and a.lineno < g.lineno and any(isinstance(t, ast.Name) and t.id == nm for t in a.targets) and (_read_call(a.value) is not None or any(isinstance(x, ast.Subscript) and isinstance(x.value, ast.Name) and x.value.id != nm and any(isinstance(a2, ast.Assign) and _read_call(a2.value) is not None and any(isinstance(t2, ast.Name) and t2.id == x.value.id for t2 in a2.targets) for a2 in ast.walk(fn)) for x in ast.walk(a.value)))]
                encl = enclosing_blocks(g)
                defs = [a for a in defs if any(blocks[id(a)] is b_ for b_ in encl)]  # definitions that reach the gate
                if not defs:
                    continue
                d = max(defs, key=lambda a: a.lineno)
                k += 1
                same = blocks[id(d)] is blk
                ctx.ob(
                    f"{dec}:check-where-read#{k}",
                    same,
                    "" if same else f"the refusal `if {unparse(g.test)}` tests header data read at line {d.lineno} but sits inside a further condition (line {g.lineno}): for the other option values the damaged header is accepted silently and the decoder reports success",
                    file=rel,
                    line=g.lineno,
                )
    # veftopng: type check before anything is written
    st = D.fn("veftopng", "start")
    exits = [n.lineno for n in ast.walk(st) if isinstance(n, ast.Call) and call_name(n) == "exit"]
    opens_w = [n.lineno for n in ast.walk(st) if isinstance(n, ast.Call) and call_name(n) == "open" and len(n.args) > 1 and isinstance(n.args[1], ast.Constant) and "w" in str(n.args[1].value)]
    ctx.need(exits and opens_w, "veftopng", "format refusals / output open not found")
    ok = max(exits) < min(opens_w)
    ctx.ob("veftopng:refusals-before-output", ok, "" if ok else "a refusal follows the opening of the output file", file=DECODERS["veftopng"], line=min(opens_w))
    # MAX: start() removes the output when convert() returned a false value
    ms = D.fn("maxtoppm", "start")
    src = unparse(ms)
    m = re.search(r"(\w+) = convert\(", src)
    ctx.need(m is not None, "maxtoppm.start", "result of convert() is not kept")
    rv = m.group(1)
    removes = [c for c in ast.walk(ms) if isinstance(c, ast.Call) and unparse(c.func) == "os.remove"]
    okr = re.search(rf"if not {rv}:\s+os\.remove\(", src) is not None
    if not okr and removes:
        # `if ok: return` (or the success path ending earlier) followed by the removal
        for i_, st_ in enumerate(ms.body):
            if isinstance(st_, ast.If) and unparse(st_.test) == rv and st_.body and isinstance(st_.body[-1], ast.Return) and not st_.orelse:
                okr = any(any(x is removes[0] for x in ast.walk(later)) for later in ms.body[i_ + 1 :])
    ctx.idiom("maxtoppm:remove-on-failure", bool(removes) or okr, okr, "" if okr else "start() no longer removes the output file when convert() reports failure", file=DECODERS["maxtoppm"], line=ms.lineno)
    # ... and convert() returns True at its end, False only under `not ignore_header_errors`
    cf = D.fn("maxtoppm", "convert")
    if "maxtoppm" in unmodelled_dec:
        return
    last = cf.body[-1]
    okt = isinstance(last, ast.Return) and isinstance(last.value, ast.Constant) and last.value.value is True
    ctx.ob("maxtoppm:returns-true", okt, "" if okt else "convert() does not end with `return True`: a good conversion would be deleted", file=DECODERS["maxtoppm"], line=last.lineno)
    for n in ast.walk(cf):
        if isinstance(n, ast.Return) and isinstance(n.value, ast.Constant) and n.value.value is False:
            tests = []
            x = n
            par = {id(c): p for p in ast.walk(cf) for c in ast.iter_child_nodes(p)}
            p = par.get(id(x))
            while p is not None:
                if isinstance(p, ast.If):
                    tests.append(unparse(p.test))
                p = par.get(id(p))
            okg = tests and tests[0] == "not ignore_header_errors"
            ctx.ob(f"maxtoppm:return-false@{n.lineno - cf.lineno}", bool(okg), "" if okg else f"`return False` is guarded by {tests[:1]}, not by `not ignore_header_errors`", file=DECODERS["maxtoppm"], line=n.lineno)


VEF_TYPES = {0: (320, 200, 16, 80, 8), 1: (640, 200, 4, 80, 7), 3: (320, 200, 4, 40, 6), 4: (640, 200, 2, 40, 5)}


@rule("D12", "VEF-TYPES: the VEF type byte selects the documented geometry; squashed records use the 128 threshold", ["C16", "C17", "C18", "C19"], floor=5, default_props=["C16", "C17", "C18"])
def d12(ctx: Ctx):
    D = decoderfacts(ctx)
    st = D.fn("veftopng", "start")
    rel = DECODERS["veftopng"]
    found: Dict[int, Tuple] = {}
    named: Dict[int, Dict[str, int]] = {}
    for n in ast.walk(st):
        # (the type byte may be named first: `layout = data[1]; if layout == 0:`)
        if isinstance(n, ast.If) and isinstance(n.test, ast.Compare) and len(n.test.ops) == 1 and isinstance(n.test.left, ast.Name) and isinstance(resolve_alias(st, n.test.left), ast.Subscript):
            n.test.left = copy.deepcopy(resolve_alias(st, n.test.left))
        if isinstance(n, ast.If) and isinstance(n.test, ast.Compare) and len(n.test.ops) == 1 and isinstance(n.test.left, ast.Subscript) and isinstance(n.test.left.slice, ast.Constant) and n.test.left.slice.value == 1 and isinstance(n.test.comparators[0], ast.Constant):
            k = n.test.comparators[0].value
            vals = {}
            for s_ in n.body:
                if isinstance(s_, ast.Assign) and isinstance(s_.targets[0], ast.Name) and isinstance(s_.value, ast.Constant):
                    vals[s_.targets[0].id] = s_.value.value
            if len([v for v in vals.values() if isinstance(v, int)]) == 4:
                # a fifth quantity computed once after the branches from the four that are assigned in them
                # (`orig_len = width // 8`): evaluated with this type's own values
                from .decoders import IntEvalError as _IEE, int_eval as _ie

                env4 = {a: b for a, b in vals.items() if isinstance(b, int)}
                for d_ in st.body:
                    if isinstance(d_, ast.Assign) and len(d_.targets) == 1 and isinstance(d_.targets[0], ast.Name) and d_.targets[0].id not in env4 and not isinstance(d_.value, ast.Constant) and names_loaded(d_.value) and names_loaded(d_.value) <= set(env4):
                        try:
                            vals[d_.targets[0].id] = int(_ie(d_.value, env4))
                        except _IEE:
                            pass
            ints = tuple(v for v in vals.values() if isinstance(v, int))
            if len(ints) == 5:
                eq = isinstance(n.test.ops[0], ast.Eq)
                found[k] = (ints, eq, n.lineno)
                named[k] = {a: b for a, b in vals.items() if isinstance(b, int)}
    if not found:
        # table form: {type byte: (five integers)} looked up with data[1], unpacked into five names
        for n in ast.walk(D.mods["veftopng"].tree):
            if isinstance(n, ast.Dict) and len(n.keys) >= 2 and all(isinstance(k_, ast.Constant) and isinstance(k_.value, int) for k_ in n.keys) and all(isinstance(v_, ast.Tuple) and len(v_.elts) == 5 and all(isinstance(x, ast.Constant) and isinstance(x.value, int) for x in v_.elts) for v_ in n.values):
                names5 = None
                for a_ in ast.walk(st):
                    if isinstance(a_, ast.Assign) and isinstance(a_.targets[0], ast.Tuple) and len(a_.targets[0].elts) == 5 and all(isinstance(x, ast.Name) for x in a_.targets[0].elts):
                        names5 = [x.id for x in a_.targets[0].elts]
                keyed_by_type = any(isinstance(c, ast.Call) and isinstance(c.func, ast.Attribute) and c.func.attr == "get" and c.args and isinstance(c.args[0], ast.Subscript) and isinstance(c.args[0].slice, ast.Constant) and c.args[0].slice.value == 1 for c in ast.walk(st)) or any(
                    isinstance(c, ast.Subscript) and isinstance(c.slice, ast.Subscript) and isinstance(c.slice.slice, ast.Constant) and c.slice.slice.value == 1 for c in ast.walk(st)
                )
                if keyed_by_type:
                    for k_, v_ in zip(n.keys, n.values):
                        ints = tuple(x.value for x in v_.elts)
                        found[k_.value] = (ints, True, v_.lineno)
                        named[k_.value] = dict(zip(names5 or [f"#{i}" for i in range(5)], ints))
                    break
    ctx.need(len(found) >= 2, "veftopng.types", f"only {len(found)} type entries recognised (neither `if data[1] == k` branches nor a table keyed by data[1])")
    for k, want in VEF_TYPES.items():
        got = found.get(k)
        ok = got is not None and got[1] and sorted(got[0]) == sorted(want)
        ctx.ob(f"veftopng.type{k}", ok, "" if ok else f"VEF type byte {k} selects {got[0] if got else None} (test is equality: {got[1] if got else None}); documented: width/height/colours/record length/screen type = {want}", file=rel, line=got[2] if got else st.lineno, props=["C16", "C18", "C17", "C19"])
    # column-wise: each variable takes the documented value for each type (which variable is which follows from its column)
    ks = sorted(VEF_TYPES)
    if all(k in named for k in ks) and len({tuple(sorted(named[k])) for k in ks}) == 1:
        cols = {v: tuple(named[k][v] for k in ks) for v in named[ks[0]]}
        want_cols = sorted(tuple(VEF_TYPES[k][i] for k in ks) for i in range(5))
        okc = sorted(cols.values()) == want_cols
        ctx.ob("veftopng.type-columns", okc, "" if okc else f"across the type bytes {ks} the assigned values are {sorted(cols.values())}; documented columns (width, height, colours, record length, screen type): {want_cols}", file=rel, line=st.lineno, props=["C16", "C18", "C17", "C19"])
        # the pixel unpacking is selected by the screen type: 16-colour types unpack 2 pixels per byte, 4-colour types 4
        want_type_col = tuple(VEF_TYPES[k][4] for k in ks)
        tvar = next((v for v, c in cols.items() if c == want_type_col), None)
        colours = {VEF_TYPES[k][4]: VEF_TYPES[k][2] for k in ks}
        # the unpacking may live in a module-level helper that is handed the screen type (`pixel_slots(byte, veftype)`): there
        # a branch `return (a, b, ...)` yields one pixel per element
        scopes: List[Tuple[ast.AST, str]] = [(st, tvar)] if tvar is not None else []
        if tvar is not None:
            for c_ in ast.walk(st):
                if isinstance(c_, ast.Call) and isinstance(c_.func, ast.Name) and c_.func.id in D.mods["veftopng"].functions and c_.func.id != st.name:
                    hf = D.mods["veftopng"].functions[c_.func.id]
                    for i_, a_ in enumerate(c_.args):
                        if isinstance(a_, ast.Name) and a_.id == tvar and i_ < len(hf.args.args):
                            scopes.append((hf, hf.args.args[i_].arg))
        if tvar is not None and any(isinstance(n, ast.If) and tv_ in names_loaded(n.test) and any(isinstance(c, (ast.Call, ast.AugAssign, ast.Return)) for b in n.body for c in ast.walk(b)) for sc_, tv_ in scopes for n in ast.walk(sc_) if not (sc_ is st and False)):
            covered: Dict[int, int] = {}
            for n, tvar_ in [(n_, tv_) for sc_, tv_ in scopes for n_ in ast.walk(sc_)]:
                if isinstance(n, ast.If) and tvar_ in names_loaded(n.test) and any(isinstance(c, ast.Return) and isinstance(c.value, (ast.Tuple, ast.List)) for b in n.body for c in ast.walk(b)):
                    tks = [c.comparators[0].value for c in ast.walk(n.test) if isinstance(c, ast.Compare) and isinstance(c.left, ast.Name) and c.left.id == tvar_ and isinstance(c.ops[0], ast.Eq) and isinstance(c.comparators[0], ast.Constant)]
                    tks += [x.value for c in ast.walk(n.test) if isinstance(c, ast.Compare) and isinstance(c.left, ast.Name) and c.left.id == tvar_ and isinstance(c.ops[0], ast.In) and isinstance(c.comparators[0], (ast.Tuple, ast.List, ast.Set)) for x in c.comparators[0].elts if isinstance(x, ast.Constant)]
                    rets_ = [c for b in n.body for c in ast.walk(b) if isinstance(c, ast.Return) and isinstance(c.value, (ast.Tuple, ast.List))]
                    for tk in tks:
                        covered[tk] = len(rets_[0].value.elts)
                    continue
                tvar = tvar_
                if isinstance(n, ast.If) and tvar in names_loaded(n.test) and any((isinstance(c, ast.Call) and call_name(c) in ("append", "extend")) or (isinstance(c, ast.AugAssign) and isinstance(c.op, ast.Add)) for b in n.body for c in ast.walk(b)):
                    tks = [c.comparators[0].value for c in ast.walk(n.test) if isinstance(c, ast.Compare) and isinstance(c.left, ast.Name) and c.left.id == tvar and isinstance(c.ops[0], ast.Eq) and isinstance(c.comparators[0], ast.Constant)]
                    tks += [x.value for c in ast.walk(n.test) if isinstance(c, ast.Compare) and isinstance(c.left, ast.Name) and c.left.id == tvar and isinstance(c.ops[0], ast.In) and isinstance(c.comparators[0], (ast.Tuple, ast.List, ast.Set)) for x in c.comparators[0].elts if isinstance(x, ast.Constant)]
                    n_app = 0
                    for b in n.body:
                        for c in ast.walk(b):
                            # `bitmap += (a, b, ...)` / `bitmap.extend((a, b))` add one pixel per element
                            grow = None
                            if isinstance(c, ast.AugAssign) and isinstance(c.op, ast.Add) and isinstance(c.value, (ast.Tuple, ast.List)):
                                grow = len(c.value.elts)
                            elif isinstance(c, ast.Call) and call_name(c) == "extend" and c.args and isinstance(c.args[0], (ast.Tuple, ast.List)):
                                grow = len(c.args[0].elts)
                            elif isinstance(c, ast.Call) and call_name(c) == "extend" and c.args and isinstance(c.args[0], (ast.GeneratorExp, ast.ListComp)) and len(c.args[0].generators) == 1 and isinstance(c.args[0].generators[0].iter, (ast.Tuple, ast.List)) and not c.args[0].generators[0].ifs:
                                grow = len(c.args[0].generators[0].iter.elts)
                            if grow is not None:
                                mult = 1
                                for lp in ast.walk(b):
                                    if isinstance(lp, ast.For) and any(x is c for x in ast.walk(lp)) and isinstance(lp.iter, (ast.Tuple, ast.List)):
                                        mult *= len(lp.iter.elts)
                                n_app += grow * mult
                            if isinstance(c, ast.Call) and call_name(c) == "append":
                                mult = 1
                                for lp in ast.walk(b):
                                    if isinstance(lp, ast.For) and any(x is c for x in ast.walk(lp)) and isinstance(lp.iter, (ast.Tuple, ast.List)):
                                        mult *= len(lp.iter.elts)
                                n_app += mult
                    for tk in tks:
                        covered[tk] = n_app
            for tk, ncol in sorted(colours.items()):
                if ncol not in (16, 4):
                    continue
                per_byte = 2 if ncol == 16 else 4
                okd = covered.get(tk) == per_byte
                ctx.ob(f"veftopng.unpack:type{tk}", okd, "" if okd else f"screen type {tk} ({ncol} colours) needs {per_byte} pixels unpacked from every byte; the unpacking branch selected for it appends {covered.get(tk)}: pictures of that type come out empty or with the wrong pixel count", file=rel, line=st.lineno, props=["C16", "C18"])
    # per type: the post-write resize and the number of squashed records, evaluated with that type's own values
    if all(k in named for k in ks) and len({tuple(sorted(named[k])) for k in ks}) == 1:
        from .decoders import IntEvalError, int_eval

        cols = {v: tuple(named[k][v] for k in ks) for v in named[ks[0]]}
        by_col = {i: next((v for v, c in cols.items() if c == tuple(VEF_TYPES[k][i] for k in ks)), None) for i in range(5)}
        wv, hv, cv, lv = by_col[0], by_col[1], by_col[2], by_col[3]
        rz = [n for n in ast.walk(st) if isinstance(n, ast.Call) and isinstance(n.func, ast.Attribute) and n.func.attr == "resize" and n.args and isinstance(n.args[0], ast.Tuple) and len(n.args[0].elts) == 2]
        if wv and hv and len(rz) == 1:
            guards = [n.test for n in ast.walk(st) if isinstance(n, ast.If) and any(x is rz[0] for b in n.body for x in ast.walk(b))]
            for k in ks:
                env = dict(named[k])
                try:
                    on = all(bool(int_eval(g_, env)) for g_ in guards)
                    size = tuple(int_eval(e_, env) for e_ in rz[0].args[0].elts) if on else None
                except IntEvalError as ex:
                    ctx.undecided(f"veftopng.resize:type{k}", f"the resize step is not evaluable for this type ({ex})", file=rel, line=rz[0].lineno, props=["C18", "C16"])
                    continue
                w_, h_ = env[wv], env[hv]
                okz = size is None or (w_ == 640 and size == (w_, 2 * h_))
                ctx.ob(f"veftopng.resize:type{k}", okz, "" if okz else f"a type-{k} picture ({w_}x{h_}) is resized to {size} after it was written: only the 640-wide modes are stretched (to 640x{2 * h_}, the aspect correction); every pixel of this one lands elsewhere and the file no longer has the announced size", file=rel, line=rz[0].lineno, props=["C18", "C16"])
        elif rz:
            ctx.undecided("veftopng.resize", "more than one resize step / geometry names not recognised", file=rel, line=rz[0].lineno, props=["C18", "C16"])
        # the stretch doubles rows of the *palette* image: Pillow resamples mode-P images with NEAREST, any other mode (after
        # `.convert(..)`) or an explicit filter blends neighbouring rows into colours no palette entry denotes
        for r_ in rz:
            recv = r_.func.value
            seen_ = 0
            while isinstance(recv, ast.Name) and seen_ < 4:
                binds_ = [a_.value for a_ in ast.walk(st) if isinstance(a_, ast.Assign) and len(a_.targets) == 1 and isinstance(a_.targets[0], ast.Name) and a_.targets[0].id == recv.id and a_.lineno < r_.lineno and not any(x is r_ for x in ast.walk(a_))]
                if not binds_:
                    break
                recv = binds_[-1]
                seen_ += 1
            conv = [c for c in ast.walk(recv) if isinstance(c, ast.Call) and isinstance(c.func, ast.Attribute) and c.func.attr in ("convert", "quantize", "filter", "point")]
            rs = (r_.args[1] if len(r_.args) > 1 else None) or next((k_.value for k_ in r_.keywords if k_.arg == "resample"), None)
            rs_ok = rs is None or (isinstance(rs, ast.Constant) and rs.value == 0) or unparse(rs).endswith("NEAREST")
            okm = not conv and rs_ok
            ctx.ob(
                "veftopng.resize:nearest",
                okm,
                "" if okm else (f"the picture is stretched after `{unparse(conv[0])[:60]}`" if conv else f"the picture is stretched with `resample={unparse(rs)}`") + ": rows are no longer doubled but blended, the PNG contains colours that no palette entry denotes (and is no longer a palette image)",
                file=rel,
                line=r_.lineno,
                props=["C16", "C18"],
            )
        # the record walk: a length byte taken from the data advances the position by exactly its value (+1 for itself);
        # clamped / masked, the next record is read from the middle of this one
        for lp_ in [n for n in ast.walk(st) if isinstance(n, (ast.While, ast.For))]:
            for a_ in [x for x in ast.walk(lp_) if isinstance(x, (ast.Assign, ast.AugAssign))]:
                tgt_ = (a_.targets[0] if isinstance(a_, ast.Assign) and len(a_.targets) == 1 else getattr(a_, "target", None))
                if not isinstance(tgt_, ast.Name):
                    continue
                pos_ = tgt_.id
                # position variable: also used as an index into a byte sequence inside the same loop
                idx_ = [s_ for s_ in ast.walk(lp_) if isinstance(s_, ast.Subscript) and isinstance(s_.slice, ast.Name) and s_.slice.id == pos_ and isinstance(s_.value, ast.Name)]
                if not idx_:
                    continue
                rhs_ = a_.value if isinstance(a_, ast.AugAssign) else a_.value
                if isinstance(a_, ast.Assign) and pos_ not in names_loaded(rhs_):
                    continue
                if isinstance(a_, ast.AugAssign) and not isinstance(a_.op, ast.Add):
                    continue
                steps_ = [x for x in ast.walk(rhs_) if isinstance(x, ast.Name) and x.id != pos_]
                for nm_ in steps_:
                    binds_ = [b_.value for b_ in ast.walk(lp_) if isinstance(b_, ast.Assign) and len(b_.targets) == 1 and isinstance(b_.targets[0], ast.Name) and b_.targets[0].id == nm_.id]
                    if len(binds_) != 1:
                        continue
                    reads_ = [s_ for s_ in ast.walk(binds_[0]) if isinstance(s_, ast.Subscript) and isinstance(s_.slice, ast.Name) and s_.slice.id == pos_]
                    if not reads_:
                        continue
                    exact = isinstance(binds_[0], ast.Subscript) or (isinstance(binds_[0], ast.Call) and call_name(binds_[0]) in ("ord", "int") and len(binds_[0].args) == 1 and isinstance(binds_[0].args[0], ast.Subscript))
                    ctx.ob(
                        f"veftopng.records:advance:{nm_.id}",
                        exact,
                        "" if exact else f"the record length that advances `{pos_}` is `{unparse(binds_[0])}`, not the length byte as it stands in the file: a record longer than the assumed bound (a valid, if wasteful, encoding: literals split into several groups) is cut short and every later record is read from the wrong offset",
                        file=rel,
                        line=binds_[0].lineno,
                        props=["C17", "C19"],
                    )
        # the record handed to unsquash ends where the next one begins: an open-ended slice lets a damaged group read on
        # into the following records instead of failing
        for c_ in [x for x in ast.walk(st) if isinstance(x, ast.Call) and call_name(x) == "unsquash" and x.args]:
            a0 = resolve_alias(st, c_.args[0])
            if isinstance(a0, ast.Subscript) and isinstance(a0.slice, ast.Slice):
                okb_ = a0.slice.lower is not None and a0.slice.upper is not None
                ctx.ob(
                    "veftopng.records:slice",
                    okb_,
                    "" if okb_ else f"unsquash is handed `{unparse(a0)}`: the record has no end, a group whose length byte is damaged takes its bytes from the following records and the conversion `succeeds` with a garbled or short picture",
                    file=rel,
                    line=c_.lineno,
                    props=["C19", "C17"],
                )
        # squashed files: one record per `record length` bytes of the picture, whatever the type
        sq = [n for n in ast.walk(st) if isinstance(n, (ast.While, ast.For)) and any(isinstance(c, ast.Call) and call_name(c) == "unsquash" for b in n.body for c in ast.walk(b))]
        if wv and hv and cv and lv and len(sq) == 1:
            lp = sq[0]
            bound = None
            if isinstance(lp, ast.While) and isinstance(lp.test, ast.Compare) and len(lp.test.ops) == 1 and isinstance(lp.test.ops[0], ast.Lt) and isinstance(lp.test.left, ast.Name):
                iv = lp.test.left.id
                steps = [n for n in ast.walk(lp) if isinstance(n, ast.AugAssign) and isinstance(n.target, ast.Name) and n.target.id == iv]
                inits = [n for n in ast.walk(st) if isinstance(n, ast.Assign) and len(n.targets) == 1 and isinstance(n.targets[0], ast.Name) and n.targets[0].id == iv and n.lineno < lp.lineno]
                if len(steps) == 1 and isinstance(steps[0].op, ast.Add) and isinstance(steps[0].value, ast.Constant) and steps[0].value.value == 1 and inits and isinstance(inits[-1].value, ast.Constant) and inits[-1].value.value == 0:
                    bound = lp.test.comparators[0]
            elif isinstance(lp, ast.For) and isinstance(lp.iter, ast.Call) and call_name(lp.iter) == "range" and len(lp.iter.args) == 1:
                bound = lp.iter.args[0]
            if bound is None and isinstance(lp, ast.While) and isinstance(lp.test, ast.BoolOp) and isinstance(lp.test.op, ast.And) and any(isinstance(x, ast.Call) and call_name(x) == "len" for v_ in lp.test.values for x in ast.walk(v_)):
                ctx.ob("veftopng.records:no-silent-stop", False, f"the record loop also ends when `{unparse(lp.test)}` runs out of data: a squashed file cut at a record boundary is converted `successfully` with fewer samples than the PNG announces (reading the missing count byte used to fail)", file=rel, line=lp.lineno, props=["C19"])
            elif bound is None:
                ctx.undecided("veftopng.records", "the loop over the squashed records is not a plain counting loop", file=rel, line=lp.lineno, props=["C17"])
            else:
                # names assigned once before the loop from the type's values may appear in the bound
                for k in ks:
                    env = dict(named[k])
                    for a_ in ast.walk(st):
                        if isinstance(a_, ast.Assign) and len(a_.targets) == 1 and isinstance(a_.targets[0], ast.Name) and a_.targets[0].id not in env and a_.lineno < lp.lineno:
                            try:
                                env[a_.targets[0].id] = int_eval(a_.value, env)
                            except IntEvalError:
                                pass
                    try:
                        nrec = int_eval(bound, env)
                    except IntEvalError as ex:
                        ctx.undecided(f"veftopng.records:type{k}", f"the record count is not evaluable ({ex})", file=rel, line=lp.lineno, props=["C17"])
                        continue
                    bits = {2: 1, 4: 2, 16: 4}.get(env[cv])
                    if bits is None or env[lv] <= 0:
                        continue
                    want_n = env[wv] * env[hv] * bits // 8 // env[lv]
                    okn = nrec == want_n
                    ctx.ob(f"veftopng.records:type{k}", okn, "" if okn else f"a squashed type-{k} picture ({env[wv]}x{env[hv]}, {env[cv]} colours, records of {env[lv]} bytes) consists of {want_n} records; the loop reads {nrec}", file=rel, line=lp.lineno, props=["C17", "C19"])
    # palette = bytes 2..17, image data from byte 18
    from .pyast import ast_contains as _ac

    okp = _ac(st, "$d[2:18]") and _ac(st, "$d[18:]")
    ctx.ob("veftopng.layout", okp, "" if okp else "palette / pixel data are no longer taken from bytes 2..17 / 18..", file=rel, line=st.lineno, props=["C16"])
    okq = _ac(st, "$d[0] == 128")
    ctx.ob("veftopng.squash-flag", okq, "" if okq else "the squashed flag is no longer `data[0] == 128`", file=rel, line=st.lineno, props=["C17"])
    un = D.fn("veftopng", "unsquash")
    ifs = [n for n in ast.walk(un) if isinstance(n, ast.If) and isinstance(n.test, ast.Compare) and isinstance(n.test.comparators[0], ast.Constant)]
    ctx.need(ifs, "unsquash", "repeat/literal split not found")
    # slots: the split test, what is taken off the count, how often the loops run - in whatever form they are written
    split = next((n for n in ifs if len(n.test.ops) == 1 and isinstance(n.test.comparators[0].value, int) and n.test.comparators[0].value in (127, 128, 129)), None)
    if split is None:
        ctx.undecided("unsquash.threshold", "no test of the count byte against the repeat threshold recognised", file=rel, line=un.lineno, props=["C17"])
    else:
        t = split.test
        k_ = t.comparators[0].value
        # repeat iff count > 128 (equivalently >= 129); literal iff count <= 128 (< 129)
        okt = (isinstance(t.ops[0], ast.Gt) and k_ == 128) or (isinstance(t.ops[0], ast.GtE) and k_ == 129) or (isinstance(t.ops[0], ast.LtE) and k_ == 128) or (isinstance(t.ops[0], ast.Lt) and k_ == 129)
        ctx.ob("unsquash.threshold", okt, "" if okt else f"repeat groups are recognised by `{unparse(t)}`; the format uses count > 128 for a repeat (count - 128 copies) and count <= 128 for literals", file=rel, line=split.lineno, props=["C17"])
        cvar = t.left.id if isinstance(t.left, ast.Name) else None
        offs = [n.value.value for n in ast.walk(un) if isinstance(n, ast.AugAssign) and isinstance(n.op, ast.Sub) and isinstance(n.target, ast.Name) and n.target.id == cvar and isinstance(n.value, ast.Constant) and isinstance(n.value.value, int) and n.value.value > 1]
        offs += [n.right.value for n in ast.walk(un) if isinstance(n, ast.BinOp) and isinstance(n.op, ast.Sub) and isinstance(n.left, ast.Name) and n.left.id == cvar and isinstance(n.right, ast.Constant) and isinstance(n.right.value, int) and n.right.value > 1]
        offs += [0x7F for n in ast.walk(un) if isinstance(n, ast.BinOp) and isinstance(n.op, ast.BitAnd) and isinstance(n.left, ast.Name) and n.left.id == cvar and isinstance(n.right, ast.Constant) and n.right.value == 0x7F]
        okm = bool(offs) and all(o in (128, 0x7F) for o in offs)
        ctx.idiom("unsquash.minus128", bool(offs), okm, "" if okm else f"the repeat count is the count byte minus {offs}; the format stores count + 128", file=rel, line=split.lineno, props=["C17"])
        # loops: `while c > 0: ...; c -= 1`, `while j < c`, `for _ in range(c)`, `[x] * c`
        whiles = [n for n in ast.walk(un) if isinstance(n, ast.While) and n is not next((w for w in un.body if isinstance(w, ast.While)), None)]
        bad_w = []
        for w in whiles:
            tt = w.test
            if isinstance(tt, ast.Compare) and isinstance(tt.comparators[0], ast.Constant) and tt.comparators[0].value == 0 and not isinstance(tt.ops[0], ast.Gt):
                bad_w.append(unparse(tt))
            elif isinstance(tt, ast.Compare) and isinstance(tt.comparators[0], ast.Name) and not isinstance(tt.ops[0], ast.Lt):
                bad_w.append(unparse(tt))
        ranged = [n for n in ast.walk(un) if isinstance(n, ast.For) and isinstance(n.iter, ast.Call) and call_name(n.iter) == "range"]
        # (`range(count - 128)` / `range(count & 0x7F)`: the offset itself is judged by `minus128` above)
        def _count_expr(a_):
            return isinstance(a_, ast.Name) or (isinstance(a_, ast.BinOp) and isinstance(a_.op, (ast.Sub, ast.BitAnd)) and isinstance(a_.left, ast.Name) and a_.left.id == cvar and isinstance(a_.right, ast.Constant))

        bad_r = [unparse(n.iter) for n in ranged if not (len(n.iter.args) == 1 and _count_expr(n.iter.args[0]))]
        seen_loops = bool(whiles) or bool(ranged)
        okw = not bad_w and not bad_r
        ctx.idiom("unsquash.loop-bounds", seen_loops, okw, "" if okw else f"the repeat / literal loops no longer run exactly `count` times ({bad_w + bad_r})", file=rel, line=un.lineno, props=["C17"])
    lenp = un.args.args[-1].arg if un.args.args else "?"
    outer = next((n for n in un.body if isinstance(n, ast.While)), None)
    cntp = un.args.args[1].arg if len(un.args.args) > 2 else "?"
    okb = outer is not None and isinstance(outer.test, ast.Compare) and isinstance(outer.test.ops[0], ast.Lt) and isinstance(outer.test.comparators[0], ast.Name) and outer.test.comparators[0].id == cntp
    ctx.ob("unsquash.record-bound", okb, "" if okb else f"the record loop runs on `{unparse(outer.test) if outer is not None else None}`, not up to the length `{cntp}` the record's count byte announces: a truncated last record is decoded from whatever bytes are left and the short picture is reported as success", file=rel, line=outer.lineno if outer is not None else un.lineno, props=["C19", "C17"])
    # the record bytes are taken one by one (an index past the end fails): a slice of the input would quietly yield less
    datap = un.args.args[0].arg if un.args.args else "?"
    lenient = [n for n in ast.walk(un) if isinstance(n, ast.Subscript) and isinstance(n.slice, ast.Slice) and isinstance(n.value, ast.Name) and n.value.id == datap]
    checked = any(isinstance(c, ast.Compare) and any(isinstance(x, ast.Call) and call_name(x) == "len" for x in ast.walk(c)) for c in ast.walk(un))
    oks_ = not lenient or checked
    ctx.ob("unsquash.strict-input", oks_, "" if oks_ else f"`{unparse(lenient[0])}` takes a slice of the record: when the file ends inside a literal group the slice is simply shorter, the record decodes short and the picture is written with fewer samples than announced, as a success", file=rel, line=lenient[0].lineno if lenient else un.lineno, props=["C19"])
    trunc = _ac(un, f"$d[0:{lenp}]") or _ac(un, f"$d[:{lenp}]")
    ctx.ob("unsquash.truncate", trunc, "" if trunc else "records are no longer truncated to the nominal record length", file=rel, line=un.lineno, props=["C17"])


@rule("D8", "LOOP-PROGRESS: every while loop progresses or contains a read that fails at end of file", ["C19", "C15"], floor=4)
def d8(ctx: Ctx):
    D = decoderfacts(ctx)
    for dec, rel in DECODERS.items():
        m = D.mods[dec]
        parents: Dict[int, ast.AST] = {}
        for n in ast.walk(m.tree):
            for c in ast.iter_child_nodes(n):
                parents[id(c)] = n
        whiles = sorted([n for n in ast.walk(m.tree) if isinstance(n, ast.While)], key=lambda n: n.lineno)
        for i, wl in enumerate(whiles):
            reason = None
            # condition probes the stream itself
            if any(isinstance(c, ast.Call) and call_name(c) == "read" for c in ast.walk(wl.test)):
                reason = "condition reads from the stream (ends at end of file)"
            # strict read in the body, executed on every iteration (directly in the body)
            if reason is None:
                for st in wl.body:
                    if isinstance(st, (ast.If, ast.For, ast.While)):
                        continue
                    for c in ast.walk(st):
                        if isinstance(c, ast.Call) and call_name(c) == "read" and _is_strict_read(c, parents):
                            reason = "strict read on every iteration (raises at end of file)"
            # monotone counter in the condition
            if reason is None:
                cvars = names_loaded(wl.test)
                for st in wl.body:
                    tgt = None
                    if isinstance(st, ast.AugAssign) and isinstance(st.target, ast.Name) and isinstance(st.op, (ast.Add, ast.Sub)):
                        tgt = st.target.id
                    if isinstance(st, ast.Assign) and isinstance(st.targets[0], ast.Name) and isinstance(st.value, ast.BinOp) and isinstance(st.value.op, (ast.Add, ast.Sub)) and isinstance(st.value.left, ast.Name) and st.value.left.id == st.targets[0].id:
                        tgt = st.targets[0].id
                    if tgt in cvars:
                        reason = f"`{tgt}` moves on every iteration"
                # counter moved on every path of an if/else
                if reason is None:
                    for v in cvars:
                        if _moves_on_all_paths(wl.body, v):
                            reason = f"`{v}` moves on every path of the body"
            ctx.ob(f"{dec}.while#{i + 1}", reason is not None, "" if reason else f"`while {unparse(wl.test)}` has no progressing counter and no failing read: it can spin forever on a damaged file", file=rel, line=wl.lineno, facts={"progress": reason})


def _moves_on_all_paths(body: List[ast.stmt], v: str) -> bool:
    for st in body:
        if isinstance(st, ast.AugAssign) and isinstance(st.target, ast.Name) and st.target.id == v:
            return True
        if isinstance(st, ast.Assign) and isinstance(st.targets[0], ast.Name) and st.targets[0].id == v and isinstance(st.value, ast.BinOp) and v in names_loaded(st.value):
            return True
        if isinstance(st, ast.If) and st.orelse and _moves_on_all_paths(st.body, v) and _moves_on_all_paths(st.orelse, v):
            return True
    return False


@rule("D9", "STREAM-ARGS: file arguments default to the binary standard streams; skip is consumed before the first header read", ["C18", "C12"], floor=8, default_props=["C18"])
def d9(ctx: Ctx):
    D = decoderfacts(ctx)
    for dec in ("hrstoppm", "maxtoppm", "pixtopgm", "mgetoppm", "cm3toppm", "rattoppm"):
        rel = DECODERS[dec]
        st = D.fn(dec, "start")
        for n in ast.walk(st):
            if isinstance(n, ast.Call) and call_name(n) == "add_argument" and n.args and isinstance(n.args[0], ast.Constant) and not str(n.args[0].value).startswith("-"):
                kw = {k.arg: k.value for k in n.keywords}
                t = kw.get("type")
                if not (isinstance(t, ast.Call) and call_name(t) == "FileType"):
                    continue
                mode = t.args[0].value if t.args and isinstance(t.args[0], ast.Constant) else ""
                name = n.args[0].value
                okm = mode in ("rb", "wb")
                appends = isinstance(mode, str) and "a" in mode
                ctx.ob(
                    f"{dec}.{name}:binary-mode",
                    okm,
                    "" if okm else (f"`{name}` is opened in mode {mode!r}: the picture is appended to whatever the output file already holds - the same input gives different files depending on what was decoded there before" if appends else f"`{name}` is opened in mode {mode!r}: bytes above 127 / line ends are translated"),
                    file=rel,
                    line=n.lineno,
                    props=["C18", "C12"] if appends else None,
                )
                d = kw.get("default")
                if d is not None:
                    want = "sys.stdin" if mode.startswith("r") else "sys.stdout"
                    okd = unparse(d) in (f"stdiotobuffer({want})", f"{want}.buffer")
                    ctx.ob(f"{dec}.{name}:default-stream", okd, "" if okd else f"default of `{name}` is `{unparse(d)}`, not the binary {want}", file=rel, line=n.lineno)
                    oko = isinstance(kw.get("nargs"), ast.Constant) and kw["nargs"].value == "?"
                    ctx.ob(f"{dec}.{name}:optional", oko, "" if oko else f"`{name}` has a default but is not optional (nargs='?')", file=rel, line=n.lineno)
        # convert() receives the parsed values in its parameter order
        cf = D.fn(dec, "convert")
        call = next((c for c in ast.walk(st) if isinstance(c, ast.Call) and call_name(c) == "convert"), None)
        ctx.need(call is not None, f"{dec}.start", "call of convert() not found")
        params = [a.arg for a in cf.args.args]
        dests = _dests(st)
        # positional and keyword arguments alike: parameter -> expression
        bound = dict(zip(params, call.args))
        extra_kw = [k.arg for k in call.keywords if k.arg is not None and (k.arg not in params or k.arg in bound)]
        for k in call.keywords:
            if k.arg is not None and k.arg in params and k.arg not in bound:
                bound[k.arg] = k.value
        splat = any(isinstance(a, ast.Starred) for a in call.args) or any(k.arg is None for k in call.keywords)
        for p, a in bound.items():
            src = unparse(a)
            m = re.fullmatch(r"args\.(\w+)", src)
            if not m:
                continue
            want = {"input_image_stream": "input_image", "output_image_stream": "output_image", "cols": "width", "arte": "pixel_mode", "height": "rows"}.get(p, p)
            ok = m.group(1) == want
            ctx.ob(f"{dec}.convert({p})", ok, "" if ok else f"parameter `{p}` of convert() receives args.{m.group(1)}", file=rel, line=call.lineno)
        n_defaults = len(cf.args.defaults)
        required = params[: len(params) - n_defaults] if n_defaults else params
        oka = not extra_kw and len(call.args) <= len(params) and all(p in bound for p in required)
        ctx.idiom(f"{dec}.convert:arity", not splat, oka, "" if oka else f"convert() is called with arguments that do not match its parameters {params} (given: {len(call.args)} positional, keywords {[k.arg for k in call.keywords]})", file=rel, line=call.lineno)
        # option validators
        for n in ast.walk(st):
            if isinstance(n, ast.Call) and call_name(n) == "add_argument" and n.args and isinstance(n.args[0], ast.Constant) and n.args[0].value in ("-w", "-r", "-s"):
                kw = {k.arg: k.value for k in n.keywords}
                t = unparse(kw["type"]) if "type" in kw else None
                want = "check_zero_or_positive" if n.args[0].value == "-s" else "check_positive"
                ctx.ob(f"{dec}{n.args[0].value}:validator", t == want, "" if t == want else f"option {n.args[0].value} is parsed with `{t}`, expected `{want}`", file=rel, line=n.lineno)
    # skip: one discarded read of `skip` bytes before the first header read
    for dec in ("hrstoppm", "maxtoppm"):
        fn = D.fn(dec, "convert")
        reads = sorted([n for n in ast.walk(fn) if isinstance(n, ast.Call) and call_name(n) == "read"], key=lambda n: n.lineno)
        ctx.need(reads, dec, "no reads")
        first = reads[0]
        ok = first.args and unparse(first.args[0]) == "skip"
        par = {id(c): p for p in ast.walk(fn) for c in ast.iter_child_nodes(p)}
        st = par.get(id(first))
        while st is not None and not isinstance(st, ast.stmt):
            st = par.get(id(st))
        discarded = isinstance(st, ast.Expr)
        guard = par.get(id(st))
        guarded = isinstance(guard, ast.If) and unparse(guard.test) in ("skip", "skip > 0", "skip is not None", "skip != 0")
        ok = bool(ok and discarded and guarded)
        ctx.ob(f"{dec}:skip-first", ok, "" if ok else "the first read is not the discarded `f.read(skip)` under `if skip:`", file=DECODERS[dec], line=first.lineno)
        n_skip = len([r for r in reads if r.args and "skip" in names_loaded(r.args[0])])
        ctx.ob(f"{dec}:skip-once", n_skip == 1, "" if n_skip == 1 else f"`skip` is consumed by {n_skip} reads", file=DECODERS[dec], line=first.lineno)
    # util validators
    from .pyast import pyfacts

    from .decoders import IntEvalError, int_eval
    from .normalise import normalise_module

    um0 = pyfacts(ctx).mod("coco/util.py")
    ut = normalise_module(um0.tree)
    ufuncs = {n.name: n for n in ut.body if isinstance(n, ast.FunctionDef)}
    # decided on boundary values: the smallest admitted and the largest refused value
    for name, lowest in (("check_positive", 1), ("check_zero_or_positive", 0)):
        ctx.need(name in ufuncs, f"util.{name}", "not found")
        f = ufuncs[name]
        gates = [n for n in ast.walk(f) if isinstance(n, ast.If) and any(isinstance(x, ast.Raise) for b in n.body for x in ast.walk(b))]
        conv = [a.targets[0].id for a in ast.walk(f) if isinstance(a, ast.Assign) and isinstance(a.targets[0], ast.Name) and isinstance(a.value, ast.Call) and call_name(a.value) == "int"]
        if len(gates) != 1 or len(conv) != 1:
            ctx.undecided(f"util.{name}", "`ivalue = int(value)` followed by one refusing test not recognised", file="coco/util.py", line=f.lineno)
            continue
        try:
            refuses_low = bool(int_eval(gates[0].test, {conv[0]: lowest - 1}))
            refuses_ok = bool(int_eval(gates[0].test, {conv[0]: lowest}))
            refuses_big = bool(int_eval(gates[0].test, {conv[0]: 100000}))
        except IntEvalError as ex:
            ctx.undecided(f"util.{name}", f"refusing test `{unparse(gates[0].test)}` not evaluable: {ex}", file="coco/util.py", line=f.lineno)
            continue
        ok = refuses_low and not refuses_ok and not refuses_big
        ctx.ob(f"util.{name}", ok, "" if ok else f"`{name}` refuses on `{unparse(gates[0].test)}`: {lowest - 1} refused: {refuses_low}, {lowest} refused: {refuses_ok} (the validator has to admit exactly the values >= {lowest})", file="coco/util.py", line=f.lineno)
    gb = ufuncs.get("getbit")
    ctx.need(gb is not None, "util.getbit", "not found")
    ret = next((n for n in ast.walk(gb) if isinstance(n, ast.Return)), None)
    pn = [a.arg for a in gb.args.args]
    okg = None

    class _Ret(Exception):
        def __init__(self, v):
            self.v = v

    def _run_body(stmts, env):
        """Straight-line integer code with `if` / `return`: evaluated on values (the function is a pure expression of its arguments)."""
        for st_ in stmts:
            if isinstance(st_, ast.Expr) and isinstance(st_.value, ast.Constant):
                continue
            if isinstance(st_, ast.Assign) and len(st_.targets) == 1 and isinstance(st_.targets[0], ast.Name):
                env[st_.targets[0].id] = int_eval(st_.value, env)
            elif isinstance(st_, ast.If):
                _run_body(st_.body if int_eval(st_.test, env) else st_.orelse, env)
            elif isinstance(st_, ast.Return) and st_.value is not None:
                raise _Ret(int_eval(st_.value, env))
            else:
                raise IntEvalError(f"statement {type(st_).__name__}")

    def _call_gb(c_, k_):
        try:
            _run_body(gb.body, {pn[0]: c_, pn[1]: k_})
        except _Ret as r_:
            return int(r_.v)
        raise IntEvalError("no return")

    if ret is not None and ret.value is not None and len(pn) == 2:
        try:
            okg = all(_call_gb(c_, k_) == ((c_ >> k_) & 1) for c_ in (0, 1, 2, 0x55, 0xAA, 0x80, 0xFF, 0x1234) for k_ in range(8))
        except IntEvalError:
            okg = None
    ctx.idiom("util.getbit", okg is not None, bool(okg), "" if okg else f"getbit (`{unparse(ret.value) if ret else None}` ...) does not return bit ii of c", file="coco/util.py", line=gb.lineno, props=["C16", "C18"])


def _dests(st: ast.FunctionDef) -> Set[str]:
    out = set()
    for n in ast.walk(st):
        if isinstance(n, ast.Call) and call_name(n) == "add_argument":
            for k in n.keywords:
                if k.arg == "dest" and isinstance(k.value, ast.Constant):
                    out.add(k.value.value)
    return out


def _is_discarded_read(e: ast.AST) -> bool:
    """`f.read(n)` possibly wrapped in pure converters, as a statement of its own."""
    while isinstance(e, ast.Call) and call_name(e) in ("iotostr", "ord", "strtoio", "bytes", "bytearray", "len") and len(e.args) == 1:
        e = e.args[0]
    return isinstance(e, ast.Call) and call_name(e) == "read" and isinstance(e.func, ast.Attribute)


@rule("D14", "SKIP-ONCE: bytes that are read and thrown away (header filler, the -s prefix, an unused header field) are consumed once per file, before the payload loops", ["C16", "C18"], floor=4)
def d14(ctx: Ctx):
    D = decoderfacts(ctx)
    for dec in ("hrstoppm", "maxtoppm", "pixtopgm", "mgetoppm", "cm3toppm", "rattoppm"):
        rel = DECODERS[dec]
        fn = D.fn(dec, "convert")
        n = 0

        def walk(stmts, in_loop):
            nonlocal n
            for st in stmts:
                if isinstance(st, ast.Expr) and _is_discarded_read(st.value):
                    n += 1
                    ok = not in_loop
                    if dec == "cm3toppm":
                        rd = _read_call(st.value)
                        sz = rd.args[0].value if rd is not None and rd.args and isinstance(rd.args[0], ast.Constant) else None
                        oks = sz == 243
                        ctx.ob(f"{dec}.skip#{n}:size", oks, "" if oks else f"the CM3 pattern block is 243 bytes; `{unparse(st.value)}` skips {sz}: every byte after it is misaligned for files saved with patterns", file=rel, line=st.lineno)
                    ctx.ob(
                        f"{dec}.skip#{n}",
                        ok,
                        "" if ok else f"`{unparse(st.value)}` discards input inside a loop: a block that occurs once in the file (the pattern block, the skipped prefix) is skipped once per page / row, so every later byte of a multi-page picture is misaligned",
                        file=rel,
                        line=st.lineno,
                    )
                elif isinstance(st, (ast.For, ast.While)):
                    walk(st.body, True)
                    walk(st.orelse, in_loop)
                elif isinstance(st, ast.If):
                    walk(st.body, in_loop)
                    walk(st.orelse, in_loop)
                elif isinstance(st, (ast.With, ast.Try)):
                    walk(st.body, in_loop)

        walk(fn.body, False)


@rule("D16", "STDOUT-CLEAN: a decoder that can send the image to standard output writes nothing else there (diagnostics go to standard error)", ["C18"], floor=6)
def d16(ctx: Ctx):
    D = decoderfacts(ctx)
    for dec in ("hrstoppm", "maxtoppm", "pixtopgm", "mgetoppm", "cm3toppm", "rattoppm"):
        rel = DECODERS[dec]
        m = D.mods[dec]
        bad = []
        for c in ast.walk(m.tree):
            if isinstance(c, ast.Call) and isinstance(c.func, ast.Name) and c.func.id == "print":
                f = next((k.value for k in c.keywords if k.arg == "file"), None)
                if f is None or unparse(f) in ("sys.stdout", "sys.__stdout__"):
                    bad.append(c)
            if isinstance(c, ast.Call) and isinstance(c.func, ast.Attribute) and c.func.attr in ("write", "writelines") and unparse(c.func.value) in ("sys.stdout", "sys.stdout.buffer", "sys.__stdout__"):
                bad.append(c)
        ok = not bad
        ctx.ob(
            dec,
            ok,
            "" if ok else f"`{unparse(bad[0])[:80]}` writes to standard output, which carries the picture when no output file is named: the piped image gets extra bytes and differs from the file written for the same input",
            file=rel,
            line=bad[0].lineno if bad else 1,
        )


RAT_LAYOUT = {"escape": 0, "packed": 1, "palette": 3}  # RAT header: escape code, packed flag, border colour, 16 palette bytes


@rule("D15b", "HEADER-LAYOUT (RAT): the escape code, the packed flag and the palette are taken from header offsets 0, 1 and 3..18 (offset 2, the border colour, belongs to no picture datum)", ["C18", "C16", "C19"], floor=3, default_props=["C18", "C16"])
def d15b(ctx: Ctx):
    D = decoderfacts(ctx)
    fn = D.fn("rattoppm", "convert")
    rel = DECODERS["rattoppm"]
    outs = _out_names(fn)
    off = 0
    offsets: Dict[str, Tuple[int, int, int]] = {}  # name -> (offset, size, line)
    for st in fn.body:
        if isinstance(st, ast.FunctionDef):
            continue
        if any(_is_out_write(c, outs) for c in ast.walk(st)):
            break
        reads = [c for c in ast.walk(st if not isinstance(st, ast.If) else st.test) if isinstance(c, ast.Call) and call_name(c) == "read" and isinstance(c.func, ast.Attribute)]
        if isinstance(st, ast.If) and any(isinstance(c, ast.Call) and call_name(c) == "read" and isinstance(c.func, ast.Attribute) for b in st.body + st.orelse for c in ast.walk(b)):
            raise AnalysisError("D15b", "rattoppm.header", f"conditional header read at line {st.lineno}: cannot lay out the header")
        if not reads:
            continue
        ctx.need(len(reads) == 1 and not isinstance(st, (ast.For, ast.While)), "rattoppm.header", f"header read at line {st.lineno} is not a plain statement (cannot lay out the header)")
        size = reads[0].args[0].value if reads[0].args and isinstance(reads[0].args[0], ast.Constant) else None
        ctx.need(isinstance(size, int), "rattoppm.header", f"read size at line {st.lineno} is not a constant")
        if isinstance(st, ast.Assign) and len(st.targets) == 1 and isinstance(st.targets[0], ast.Name):
            offsets[st.targets[0].id] = (off, size, st.lineno)
        off += size
    roles: Dict[str, str] = {}
    # packed: tested by a gate that gives up on the file
    for n in fn.body:
        if isinstance(n, ast.If) and any(isinstance(x, ast.Raise) or (isinstance(x, ast.Return) and isinstance(x.value, ast.Constant) and x.value.value is False) or (isinstance(x, ast.Call) and call_name(x) == "exit") for b in n.body for x in ast.walk(b)):
            tv = [x for x in names_loaded(resolve_alias(fn, n.test) if isinstance(n.test, ast.Name) else n.test) if x in offsets]
            if len(tv) == 1:
                roles.setdefault("packed", tv[0])
    # escape: compared with a byte of the stream inside the decoding loop
    for wl in [n for n in ast.walk(fn) if isinstance(n, ast.While)]:
        for c in ast.walk(wl):
            if isinstance(c, ast.Compare) and len(c.ops) == 1 and isinstance(c.ops[0], (ast.Eq, ast.NotEq)):
                for x in (c.left, c.comparators[0]):
                    if isinstance(x, ast.Name) and x.id in offsets and offsets[x.id][1] == 1:
                        roles.setdefault("escape", x.id)
    for nm, (o_, sz_, _) in offsets.items():
        if sz_ == 16:
            roles.setdefault("palette", nm)
    for role, want in RAT_LAYOUT.items():
        rv = roles.get(role)
        if rv is None:
            ctx.undecided(f"rattoppm.{role}", "the header field with this role was not recognised", file=rel, line=fn.lineno, props=["C18", "C16"])
            continue
        got = offsets[rv][0]
        ok = got == want
        ctx.ob(
            f"rattoppm.{role}@{want}",
            ok,
            "" if ok else f"`{rv}` ({role}) is read from header offset {got}; the RAT header keeps it at offset {want}" + (": the border colour decides whether the file is accepted" if role == "packed" and got == 2 else ""),
            file=rel,
            line=offsets[rv][2],
            props=["C18", "C16", "C19"],
        )


MGE_LAYOUT = {"palette-kind": 17, "compression": 18}  # ColorMax 3 MGE header: type, 16 palette bytes, RGB/CMP flag, compression flag, 30 title bytes ...


@rule("D15", "HEADER-LAYOUT: the MGE header fields are read from the offsets the format assigns to them (palette kind at 17, compression flag at 18)", ["C16", "C17", "C18"], floor=2, default_props=["C16", "C17"])
def d15(ctx: Ctx):
    D = decoderfacts(ctx)
    fn = D.fn("mgetoppm", "convert")
    rel = DECODERS["mgetoppm"]
    outs = _out_names(fn)
    # header reads in statement order, with their sizes
    off = 0
    offsets: Dict[str, int] = {}
    for st in fn.body:
        if isinstance(st, ast.FunctionDef) or (isinstance(st, ast.If) and all(isinstance(b, ast.FunctionDef) for b in st.body + st.orelse)):
            continue
        if any(_is_out_write(c, outs) for c in ast.walk(st)):
            break
        scope_ = st.test if isinstance(st, ast.If) else st
        reads = [c for c in ast.walk(scope_) if isinstance(c, ast.Call) and call_name(c) == "read" and isinstance(c.func, ast.Attribute)]
        if isinstance(st, ast.If):
            # reads inside the branches of a header test are only tolerated when the branch gives up on the file
            for br in (st.body, st.orelse):
                if any(isinstance(c, ast.Call) and call_name(c) == "read" and isinstance(c.func, ast.Attribute) for b in br for c in ast.walk(b)):
                    ctx.need(any(isinstance(x, (ast.Raise, ast.Return)) or (isinstance(x, ast.Call) and call_name(x) == "exit") for b in br for x in ast.walk(b)), "mgetoppm.header", f"conditional header read at line {st.lineno} (cannot lay out the header)")
        if not reads:
            continue
        ctx.need(len(reads) == 1 and not isinstance(st, (ast.For, ast.While)), "mgetoppm.header", f"header read at line {st.lineno} is not a plain statement (cannot lay out the header)")
        rd = reads[0]
        size = rd.args[0].value if rd.args and isinstance(rd.args[0], ast.Constant) else None
        ctx.need(isinstance(size, int), "mgetoppm.header", f"read size at line {st.lineno} is not a constant")
        mult = 1
        for c in ast.walk(st):
            if isinstance(c, ast.ListComp) and any(x is rd for x in ast.walk(c)):
                it = c.generators[0].iter
                ctx.need(isinstance(it, ast.Call) and call_name(it) == "range" and len(it.args) == 1 and isinstance(it.args[0], ast.Constant), "mgetoppm.header", "list comprehension over reads without a constant range")
                mult = it.args[0].value
        if isinstance(st, ast.Assign) and isinstance(st.targets[0], ast.Name) and mult == 1 and size == 1:
            offsets[st.targets[0].id] = off  # the latest single-byte read a name holds
        if isinstance(st, ast.If) and mult == 1 and size == 1:
            offsets[f"<test@{id(st)}>"] = off  # a flag byte tested where it is read
        off += size * mult
    # roles
    tables64 = {t.targets[0].id for t in ast.walk(fn) if isinstance(t, ast.Assign) and isinstance(t.targets[0], ast.Name) and isinstance(t.value, ast.List) and len(t.value.elts) == 64}
    role_var: Dict[str, str] = {}
    for n in ast.walk(fn):
        if not isinstance(n, ast.If):
            continue
        tv = [x for x in names_loaded(n.test) if x in offsets]
        if f"<test@{id(n)}>" in offsets:
            tv = [f"<test@{id(n)}>"]
        if len(tv) != 1:
            continue
        if any(isinstance(s_, ast.Subscript) and isinstance(s_.value, ast.Name) and s_.value.id in tables64 for b in n.body + n.orelse for s_ in ast.walk(b)):
            role_var.setdefault("palette-kind", tv[0])
        if any(isinstance(s_, ast.While) for b in n.body + n.orelse for s_ in ast.walk(b)) and any(isinstance(s_, ast.For) for b in n.body + n.orelse for s_ in ast.walk(b)):
            role_var.setdefault("compression", tv[0])
    # a flag byte means `zero` / `not zero`: whatever is derived from it separates 0 from every other value, and nothing else
    import copy as _copy

    from .decoders import IntEvalError as _IEE5, int_eval as _ie5

    class _ByteVar(ast.NodeTransformer):
        def visit_Call(self, n_):
            if call_name(n_) == "ord" and any(isinstance(c_, ast.Call) and call_name(c_) == "read" for c_ in ast.walk(n_)):
                return ast.copy_location(ast.Name(id="byte__", ctx=ast.Load()), n_)
            self.generic_visit(n_)
            return n_

    for role, rv in sorted(role_var.items()):
        expr = None
        if rv.startswith("<test@"):
            expr = next((n.test for n in ast.walk(fn) if isinstance(n, ast.If) and f"<test@{id(n)}>" == rv), None)
        else:
            d_ = [a for a in ast.walk(fn) if isinstance(a, ast.Assign) and isinstance(a.targets[0], ast.Name) and a.targets[0].id == rv and any(isinstance(c_, ast.Call) and call_name(c_) == "read" for c_ in ast.walk(a.value))]
            expr = d_[-1].value if d_ else None
        if expr is None:
            continue
        e2 = _ByteVar().visit(_copy.deepcopy(expr))
        try:
            tv = [bool(_ie5(e2, {"byte__": v_})) for v_ in range(256)]
        except _IEE5:
            # the flag compared as text: the character of the byte against a string constant
            class _CharVar(ast.NodeTransformer):
                def visit_Call(self, n_):
                    if call_name(n_) in ("iotostr",) and any(isinstance(c_, ast.Call) and call_name(c_) == "read" for c_ in ast.walk(n_)):
                        return ast.copy_location(ast.Name(id="char__", ctx=ast.Load()), n_)
                    self.generic_visit(n_)
                    return n_

            from .rules_tmpl import _PredUnknown, _str_pred

            e3 = _CharVar().visit(_copy.deepcopy(expr))
            try:
                tv = [bool(_str_pred(e3, {"char__": chr(v_)}, {})) for v_ in range(256)]
            except _PredUnknown:
                continue  # the flag is kept as a number and tested elsewhere
        okf = tv[0] != tv[1] and len(set(tv[1:])) == 1
        odd = next((v_ for v_ in range(2, 256) if tv[v_] != tv[1]), None)
        ctx.ob(f"mgetoppm.{role}:zero-test", okf, "" if okf else f"the {role} flag is derived as `{unparse(expr)}`: the format distinguishes zero from non-zero, but this treats {odd if odd is not None else 1} like {'0' if (odd is not None and tv[odd] == tv[0]) or odd is None else 'a different case'} - files whose flag byte has that value are decoded the other way", file=rel, line=getattr(expr, "lineno", fn.lineno), props=["C16", "C17", "C18"])
    for role, want in MGE_LAYOUT.items():
        ctx.need(role in role_var, f"mgetoppm.{role}", "the header flag with this role was not recognised")
        got = offsets[role_var[role]]
        ok = got == want
        ctx.ob(
            f"mgetoppm.{role}",
            ok,
            "" if ok else f"the {role} flag is read from header offset {got}; the MGE format has it at offset {want}: RGB pictures are pushed through the composite table and/or raw pictures are decoded as run-length data whenever the two flag bytes differ",
            file=rel,
            line=fn.lineno,
        )


@rule("D17", "BYTE-READS / ENTRY: every value converted with ord() comes from a one-byte read; every console entry point hands the arguments after the program name to start(); a remaining-sample counter goes down by one per sample", ["C16", "C17", "C18", "C11"], floor=20, default_props=["C16", "C17"])
def d17(ctx: Ctx):
    from .pyast import pyfacts

    py = pyfacts(ctx)
    D = decoderfacts(ctx)
    for dec, rel in sorted(DECODERS.items()):
        m = D.mods[dec]
        k = 0
        for c in ast.walk(m.tree):
            if isinstance(c, ast.Call) and isinstance(c.func, ast.Name) and c.func.id == "ord" and len(c.args) == 1:
                a = c.args[0]
                while isinstance(a, ast.Call) and call_name(a) in ("iotostr", "bytes", "chr") and len(a.args) == 1:
                    a = a.args[0]
                if isinstance(a, ast.Call) and call_name(a) == "read" and isinstance(a.func, ast.Attribute):
                    k += 1
                    ok = len(a.args) == 1 and isinstance(a.args[0], ast.Constant) and a.args[0].value == 1
                    ctx.ob(f"{dec}:ord(read)#{k}", ok, "" if ok else f"`{unparse(c)}`: ord() needs exactly one byte; with this read size every file that reaches the statement fails (or a byte of the stream is skipped)", file=rel, line=c.lineno)
        # counters: `n = n - 1` / `n -= 1` next to a sample write
        for fn in [x for x in ast.walk(m.tree) if isinstance(x, ast.FunctionDef)]:
            for st in ast.walk(fn):
                tgt = _decrement_target(st)
                if tgt is None:
                    continue
                step = st.value if isinstance(st, ast.AugAssign) else st.value.right
                if not isinstance(step, ast.Constant):
                    continue
                # the innermost loop around the decrement is governed by the counter
                loops = [l for l in ast.walk(fn) if isinstance(l, (ast.For, ast.While)) and any(x is st for x in ast.walk(l))]
                if not loops:
                    continue
                inner = min(loops, key=lambda l: sum(1 for _ in ast.walk(l)))
                used_as_guard = (isinstance(inner, ast.While) and tgt in names_loaded(inner.test)) or any(isinstance(i_, ast.If) and tgt in names_loaded(i_.test) and any(isinstance(b, ast.Break) for b in i_.body) for i_ in ast.walk(inner))
                if not used_as_guard:
                    continue
                ok = step.value == 1
                nstep = len([o for o in ctx.obligations.get("D17", []) if o.construct.startswith(f"{dec}.{fn.name}:step")]) + 1
                ctx.ob(f"{dec}.{fn.name}:step#{nstep}", ok, "" if ok else f"`{unparse(st)}`: the counter `{tgt}` stands for the samples / repetitions left and is tested against 0; a step of {step.value} makes the loop run too long or never end", file=rel, line=st.lineno, props=["C17", "C18"])
    # console entry points
    for rel, m in sorted(py.modules.items()):
        mains = [f for f in m.tree.body if isinstance(f, ast.FunctionDef) and f.name == "main"]
        for f in mains:
            calls = [c for c in ast.walk(f) if isinstance(c, ast.Call) and call_name(c) == "start"]
            if not calls:
                continue
            a = calls[0].args[0] if calls[0].args else None
            ok = a is not None and unparse(a).replace(" ", "") == "sys.argv[1:]"
            ctx.ob(f"{rel.split('/')[-1]}:main", ok, "" if ok else f"main() calls `{unparse(calls[0])}`: the command line handed to the option parser is not `sys.argv[1:]` (the program name is parsed as an argument, or the first argument is dropped)", file=rel, line=f.lineno, props=["C11"] if rel.endswith("decb_to_b09.py") else ["C18"])


# ---------------------------------------------------------------------------
# D18 GROUP-READS


def _fallthrough_read_totals(stmts: List[ast.stmt]) -> Optional[Set[int]]:
    """Bytes read from the stream along every path that falls through the statements (None: not countable)."""
    totals: Set[int] = {0}
    for st in stmts:
        if isinstance(st, (ast.Break, ast.Continue, ast.Return, ast.Raise)):
            return set()
        if isinstance(st, ast.If):
            here = 0
            for c in ast.walk(st.test):
                if isinstance(c, ast.Call) and call_name(c) == "read":
                    return None
            a = _fallthrough_read_totals(st.body)
            b = _fallthrough_read_totals(st.orelse) if st.orelse else {0}
            if a is None or b is None:
                return None
            nxt = a | b
            totals = {t + k for t in totals for k in nxt}
            if not totals:
                return set()
            continue
        if isinstance(st, (ast.For, ast.While, ast.With, ast.Try, ast.FunctionDef)):
            if any(isinstance(c, ast.Call) and call_name(c) == "read" for c in ast.walk(st)):
                return None
            continue
        k = 0
        for c in ast.walk(st):
            if isinstance(c, ast.Call) and call_name(c) == "read" and isinstance(c.func, ast.Attribute):
                if len(c.args) == 1 and isinstance(c.args[0], ast.Constant) and isinstance(c.args[0].value, int):
                    k += c.args[0].value
                else:
                    return None
        totals = {t + k for t in totals}
    return totals


@rule("D18", "GROUP-READS: inside a run-length decoding loop, the branch that handles one kind of group consumes the same number of stream bytes on every path that goes on to the repeat", ["C17"], floor=1)
def d18(ctx: Ctx):
    D = decoderfacts(ctx)
    n_sites = 0
    for dec in ("rattoppm", "mgetoppm"):
        fn = D.fn(dec, "convert")
        rel = DECODERS[dec]
        for lp in [n for n in ast.walk(fn) if isinstance(n, ast.While)]:
            # a decoding round: reads a byte, later repeats an output `for .. in range(<read value>)`
            has_repeat = any(isinstance(x, ast.For) and isinstance(x.iter, ast.Call) and call_name(x.iter) == "range" and any(isinstance(c, ast.Call) and call_name(c) not in ("range",) for b in x.body for c in ast.walk(b)) for x in lp.body)
            if not has_repeat or not any(isinstance(c, ast.Call) and call_name(c) == "read" for c in ast.walk(lp)):
                continue
            for st in lp.body:
                if not isinstance(st, ast.If):
                    continue
                # a test between the current byte and a header byte decides literal / group: it is an equality of the two
                # bytes and of nothing else (escape value 0 is as good as any other)
                tn = sorted(names_loaded(st.test))
                if len(tn) == 2 and any(isinstance(c, ast.Call) and call_name(c) == "read" for s_ in st.body + st.orelse for c in ast.walk(s_)):
                    from .decoders import IntEvalError as _IEE8, int_eval as _ie8

                    try:
                        pairs = [(a_, b_) for a_ in (0, 1, 5, 140, 255) for b_ in (0, 1, 5, 140, 255)]
                        tv = [bool(_ie8(st.test, {tn[0]: a_, tn[1]: b_})) for a_, b_ in pairs]
                        eq = [a_ == b_ for a_, b_ in pairs]
                        okq = tv == eq or tv == [not x for x in eq]
                        odd = next(((a_, b_) for (a_, b_), t_, e_ in zip(pairs, tv, eq) if (t_ == e_) != (tv[1] == eq[1])), None)
                        n_sites += 1
                        ctx.ob(f"{dec}.convert:`{unparse(st.test)}`:equality", okq, "" if okq else f"`{unparse(st.test)}` is not simply `{tn[0]} equals {tn[1]}`: for the values {odd} it decides the other way, so a file whose escape byte has that value is decoded with literals taken for groups (or the reverse)", file=rel, line=st.lineno)
                    except _IEE8:
                        pass
                for arm_name, arm in (("then", st.body), ("else", st.orelse)):
                    if not arm or not any(isinstance(c, ast.Call) and call_name(c) == "read" for s_ in arm for c in ast.walk(s_)):
                        continue
                    n_sites += 1
                    tot = _fallthrough_read_totals(arm)
                    key = f"{dec}.convert:`{unparse(st.test)}`:{arm_name}"
                    if tot is None:
                        ctx.undecided(key, "the bytes read in this branch cannot be counted path by path", file=rel, line=st.lineno)
                        continue
                    ok = len(tot) <= 1
                    ctx.ob(key, ok, "" if ok else f"the branch taken when `{unparse(st.test)}` is {'true' if arm_name == 'then' else 'false'} consumes {sorted(tot)} bytes depending on the data before it reaches the repeat: a group of this kind has one fixed layout (count byte, value byte); the shorter path re-reads part of the group as the next group", file=rel, line=st.lineno)
    ctx.need(n_sites >= 1, "decoders", "no run-length branch that reads group bytes found (expected RAT's escape branch)")


# ---------------------------------------------------------------------------
# D19 FLAG-BITS


@rule("D19", "FLAG-BITS: a header byte from which single bits are extracted is a set of independent flags; it is never compared as a whole with a non-zero constant (the other flags would have to be clear for the test to hold)", ["C16", "C18", "C19"], floor=1)
def d19(ctx: Ctx):
    D = decoderfacts(ctx)
    n = 0
    for dec in ("cm3toppm", "mgetoppm", "maxtoppm", "hrstoppm", "rattoppm", "pixtopgm"):
        fn = D.fn(dec, "convert")
        rel = DECODERS[dec]
        own = [x for x in walk_no_nested(fn)]
        assigns: Dict[str, List[ast.Assign]] = {}
        for a in own:
            if isinstance(a, ast.Assign) and len(a.targets) == 1 and isinstance(a.targets[0], ast.Name):
                assigns.setdefault(a.targets[0].id, []).append(a)
        for name, defs in sorted(assigns.items()):
            if len(defs) != 1 or not any(isinstance(c, ast.Call) and call_name(c) == "read" for c in ast.walk(defs[0].value)):
                continue
            bits = sorted({c.args[1].value for c in ast.walk(fn) if isinstance(c, ast.Call) and call_name(c) == "getbit" and len(c.args) == 2 and isinstance(c.args[0], ast.Name) and c.args[0].id == name and isinstance(c.args[1], ast.Constant)})
            if not bits:
                continue
            n += 1
            whole = [c for c in ast.walk(fn) if isinstance(c, ast.Compare) and len(c.ops) == 1 and isinstance(c.ops[0], (ast.Eq, ast.NotEq)) and isinstance(c.left, ast.Name) and c.left.id == name and isinstance(c.comparators[0], ast.Constant) and isinstance(c.comparators[0].value, int) and c.comparators[0].value != 0]
            ok = not whole
            ctx.ob(f"{dec}.{name}", ok, "" if ok else f"`{unparse(whole[0])}` compares the whole flag byte `{name}` although its bits {bits} are independent flags (read with getbit elsewhere): the test fails as soon as another flag is set - e.g. a two-page picture is then taken to have / not to have the optional block, and the decoder loses its place in the file", file=rel, line=whole[0].lineno if whole else defs[0].lineno)
    ctx.need(n >= 1, "decoders", "no header byte with single-bit flags found (expected CM3's picture-type byte)")


# ---------------------------------------------------------------------------
# D20 PAGE-HEADER


@rule("D20", "PAGE-HEADER: a picture stored as one or two pages (a header bit selects) carries a line count in front of every page: the count that bounds the line loop is read inside the page loop", ["C17", "C16", "C18"], floor=1)
def d20(ctx: Ctx):
    D = decoderfacts(ctx)
    fn = D.fn("cm3toppm", "convert")
    rel = DECODERS["cm3toppm"]
    pages = [n for n in walk_no_nested(fn) if isinstance(n, ast.For) and isinstance(n.iter, ast.Call) and call_name(n.iter) == "range" and any(isinstance(c, ast.Call) and call_name(c) == "getbit" for a in n.iter.args for c in ast.walk(a))]
    if not pages:
        # the page count may sit in a local: `pages = getbit(pictyp, 7) + 1`
        for n in walk_no_nested(fn):
            if isinstance(n, ast.For) and isinstance(n.iter, ast.Call) and call_name(n.iter) == "range" and len(n.iter.args) == 1 and isinstance(n.iter.args[0], ast.Name):
                d_ = [a for a in walk_no_nested(fn) if isinstance(a, ast.Assign) and isinstance(a.targets[0], ast.Name) and a.targets[0].id == n.iter.args[0].id]
                if len(d_) == 1 and any(isinstance(c, ast.Call) and call_name(c) == "getbit" for c in ast.walk(d_[0].value)):
                    pages.append(n)
    if len(pages) != 1:
        ctx.undecided("cm3toppm.page-loop", f"{len(pages)} loops over a header-bit page count found", file=rel, line=fn.lineno)
        return
    pl = pages[0]
    inner = [n for n in ast.walk(pl) if isinstance(n, ast.For) and n is not pl and isinstance(n.iter, ast.Call) and call_name(n.iter) == "range" and len(n.iter.args) == 1 and isinstance(n.iter.args[0], ast.Name)]
    bounded = []
    for il in inner:
        nm = il.iter.args[0].id
        defs = [a for a in walk_no_nested(fn) if isinstance(a, ast.Assign) and isinstance(a.targets[0], ast.Name) and a.targets[0].id == nm and any(isinstance(c, ast.Call) and call_name(c) == "read" for c in ast.walk(a.value))]
        if defs:
            bounded.append((il, nm, defs))
    if not bounded:
        ctx.undecided("cm3toppm.page-loop", "no line loop bounded by a count read from the file found inside the page loop", file=rel, line=pl.lineno)
        return
    for il, nm, defs in bounded:
        inside = [d_ for d_ in defs if any(x is d_ for x in ast.walk(pl))]
        ok = bool(inside) and len(inside) == len(defs)
        ctx.ob(f"cm3toppm.page-loop:{nm}", ok, "" if ok else f"the line count `{nm}` that bounds the line loop (line {il.lineno}) is read at line {defs[0].lineno}, outside the page loop (line {pl.lineno}): the count byte of the second page stays in the stream and is decoded as a line control byte, every later byte is out of step", file=rel, line=defs[0].lineno)


# ---------------------------------------------------------------------------
# D21 TEXT-VS-NUMBER


@rule("D21", "TEXT-VS-NUMBER: a value a decoder holds as text (the characters of a read, not their codes) is never compared with a number - such a test can never hold, so the refusal or branch it guards is dead", ["C19", "C16"], floor=1, default_props=["C19"])
def d21(ctx: Ctx):
    D = decoderfacts(ctx)
    n = 0

    def is_text(e: ast.AST) -> Optional[bool]:
        """True: characters (iotostr(...) / a slice or element of it); False: a number (ord(...), arithmetic); None: unknown."""
        if isinstance(e, ast.Call):
            cn = call_name(e)
            if cn in ("ord", "len", "int", "getbit"):
                return False
            if cn == "iotostr":
                return True
            return None
        if isinstance(e, ast.Subscript):
            return is_text(e.value)
        if isinstance(e, (ast.BinOp, ast.Compare, ast.BoolOp, ast.UnaryOp)):
            return False
        if isinstance(e, ast.Constant):
            return isinstance(e.value, str)
        return None

    for dec in ("rattoppm", "mgetoppm", "cm3toppm", "hrstoppm", "maxtoppm", "pixtopgm"):
        fn = D.fn(dec, "convert")
        rel = DECODERS[dec]
        defs: Dict[str, List[ast.Assign]] = {}
        for a in walk_no_nested(fn):
            if isinstance(a, ast.Assign) and len(a.targets) == 1 and isinstance(a.targets[0], ast.Name):
                defs.setdefault(a.targets[0].id, []).append(a)
        for c in ast.walk(fn):
            if not (isinstance(c, ast.Compare) and len(c.ops) == 1 and isinstance(c.ops[0], (ast.Eq, ast.NotEq, ast.Lt, ast.LtE, ast.Gt, ast.GtE))):
                continue
            for a, b in ((c.left, c.comparators[0]), (c.comparators[0], c.left)):
                if not (isinstance(b, ast.Constant) and isinstance(b.value, int) and not isinstance(b.value, bool)):
                    continue
                kind = None
                if isinstance(a, ast.Name) and a.id in defs and len(defs[a.id]) == 1:
                    kind = is_text(defs[a.id][0].value)
                elif not isinstance(a, ast.Name):
                    kind = is_text(a)
                if kind is None:
                    continue
                n += 1
                ctx.ob(f"{dec}:`{unparse(c)}`", kind is False, "" if kind is False else f"`{unparse(c)}` compares text (the characters returned by iotostr(read ...)) with the number {b.value}: it is never true, so the header refusal / branch it guards never happens and a file with that field set is decoded as if it were well-formed", file=rel, line=c.lineno)
    ctx.need(n >= 3, "decoders", f"only {n} comparisons of header values with numbers found")


# ---------------------------------------------------------------------------
# D22 FLUSH-RESET / BUFFER-BOUNDS


@rule("D22", "BUFFERS: a buffer that is written out inside a loop is emptied inside that loop; a fixed-size buffer is never indexed by a counter whose range comes from the file and can exceed it", ["C16", "C17", "C18"], floor=1)
def d22(ctx: Ctx):
    from .decoders import IntEvalError, int_eval

    D = decoderfacts(ctx)
    n = 0
    for dec in ("cm3toppm", "mgetoppm", "rattoppm", "hrstoppm", "maxtoppm", "pixtopgm"):
        fn = D.fn(dec, "convert")
        rel = DECODERS[dec]
        parents: Dict[int, ast.AST] = {id(c): p for p in ast.walk(fn) for c in ast.iter_child_nodes(p)}

        def loops_of(x):
            out = []
            p = parents.get(id(x))
            while p is not None and p is not fn:
                if isinstance(p, (ast.For, ast.While)):
                    out.append(p)
                p = parents.get(id(p))
            return out

        # (1) accumulate-and-flush
        grown = {c.func.value.id for c in ast.walk(fn) if isinstance(c, ast.Call) and isinstance(c.func, ast.Attribute) and c.func.attr in ("append", "extend") and isinstance(c.func.value, ast.Name)}
        for w in [c for c in ast.walk(fn) if isinstance(c, ast.Call) and call_name(c) == "write" and isinstance(c.func, ast.Attribute)]:
            used = {x.id for a in w.args for x in ast.walk(a) if isinstance(x, ast.Name)} & grown
            for buf in sorted(used):
                lw = loops_of(w)
                if not lw:
                    continue
                n += 1
                outer = lw[-1]  # outermost loop around the write
                resets = [a for a in ast.walk(fn) if (isinstance(a, ast.Assign) and any(isinstance(t, ast.Name) and t.id == buf for t in a.targets)) or (isinstance(a, ast.Call) and isinstance(a.func, ast.Attribute) and a.func.attr == "clear" and isinstance(a.func.value, ast.Name) and a.func.value.id == buf) or (isinstance(a, ast.Delete) and any(isinstance(t, ast.Subscript) and isinstance(t.value, ast.Name) and t.value.id == buf for t in a.targets))]
                inside = [a for a in resets if any(x is a for x in ast.walk(lw[0]))]
                ok = bool(inside)
                ctx.ob(f"{dec}.flush:{buf}", ok, "" if ok else f"`{buf}` is filled with `.append(..)`, written out inside the loop at line {lw[0].lineno}, and never emptied inside that loop: every later round writes everything collected so far again (a two-page picture gets page one twice)", file=rel, line=w.lineno)
        # (2) fixed-size buffers indexed by a file-driven counter
        sizes: Dict[str, int] = {}
        # named sizes: module-level integer constants and locals bound once to a constant expression
        st_cnt: Dict[str, int] = {}
        for x in ast.walk(fn):
            if isinstance(x, ast.Name) and isinstance(x.ctx, ast.Store):
                st_cnt[x.id] = st_cnt.get(x.id, 0) + 1
        cenv: Dict[str, int] = {k_: v_ for k_, v_ in D.mod_ints(dec).items() if st_cnt.get(k_, 0) <= 1}
        for a in walk_no_nested(fn):
            if isinstance(a, ast.Assign) and len(a.targets) == 1 and isinstance(a.targets[0], ast.Name) and st_cnt.get(a.targets[0].id) == 1:
                try:
                    v_ = int_eval(a.value, cenv)
                except IntEvalError:
                    continue
                if isinstance(v_, int) and not isinstance(v_, bool):
                    cenv[a.targets[0].id] = v_
        for a in walk_no_nested(fn):
            if isinstance(a, ast.Assign) and len(a.targets) == 1 and isinstance(a.targets[0], ast.Name) and isinstance(a.value, ast.BinOp) and isinstance(a.value.op, ast.Mult):
                for lst, k in ((a.value.left, a.value.right), (a.value.right, a.value.left)):
                    if isinstance(lst, ast.List) and len(lst.elts) == 1:
                        try:
                            sizes[a.targets[0].id] = int_eval(k, cenv)
                        except IntEvalError:
                            pass
        for bname, bsize in sorted(sizes.items()):
            n += 1
            ctx.ob(f"{dec}.buffer:{bname}", True, file=rel, line=fn.lineno, facts={"elements": bsize})
        rebuilt = {a.targets[0].id for a in ast.walk(fn) if isinstance(a, ast.Assign) and isinstance(a.targets[0], ast.Name) and isinstance(a.value, (ast.List, ast.ListComp)) and a.targets[0].id in sizes and not (isinstance(a.value, ast.List) and False)}
        file_bytes = {a.targets[0].id for a in ast.walk(fn) if isinstance(a, ast.Assign) and isinstance(a.targets[0], ast.Name) and isinstance(a.value, ast.Call) and call_name(a.value) == "ord" and any(isinstance(c, ast.Call) and call_name(c) == "read" for c in ast.walk(a.value))}
        for lp in [x for x in ast.walk(fn) if isinstance(x, ast.For) and isinstance(x.target, ast.Name) and isinstance(x.iter, ast.Call) and call_name(x.iter) == "range" and len(x.iter.args) == 1 and isinstance(x.iter.args[0], ast.Name) and x.iter.args[0].id in file_bytes]:
            cnt = lp.iter.args[0].id
            # the largest value the enclosing guards allow for the count byte
            hi = 255
            p = parents.get(id(lp))
            child = lp
            while p is not None and p is not fn:
                if isinstance(p, ast.If) and names_loaded(p.test) == {cnt}:
                    try:
                        sat = [v for v in range(256) if bool(int_eval(p.test, {cnt: v}))]
                        allowed = sat if any(child is b or any(child is y for y in ast.walk(b)) for b in p.body) else [v for v in range(256) if v not in sat]
                        if allowed:
                            hi = min(hi, max(allowed))
                    except IntEvalError:
                        pass
                child = p
                p = parents.get(id(p))
            for s_ in ast.walk(lp):
                if isinstance(s_, ast.Subscript) and isinstance(s_.value, ast.Name) and s_.value.id in sizes and s_.value.id not in rebuilt and isinstance(s_.slice, ast.Name) and s_.slice.id == lp.target.id:
                    n += 1
                    ok = hi <= sizes[s_.value.id]
                    ctx.ob(f"{dec}.bounds:{s_.value.id}[{lp.target.id}<{cnt}]", ok, "" if ok else f"`{s_.value.id}` has {sizes[s_.value.id]} elements but is indexed by `{lp.target.id}` in `range({cnt})`, and the count byte `{cnt}` can be as large as {hi}: a valid line with a longer map ends in IndexError", file=rel, line=s_.lineno)
    ctx.need(n >= 1, "decoders", "no fixed-size buffer found in any decoder (expected CM3's line buffers)")
