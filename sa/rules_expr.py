"""Expression rules: G8 PRECEDENCE-LADDER, E9 OPERATOR-FORM (C01)."""

from __future__ import annotations

import re
from typing import Any, Dict, List, Optional, Set, Tuple

from .absint import Const, Obj, Operand, Tmpl, Union, V, alts_of, interp
from .core import AnalysisError, Ctx, rule
from .peg import GRAMMAR_REL, peg
from .pyast import pyfacts

RELATIONAL = {"<=", ">=", "<>", "<", ">", "=>", "=<", "="}
# Color BASIC, loosest first (Extended Color BASIC manual: ^, unary -, * /, + -, relational, NOT, AND, OR)
CB_INFIX = [("OR", {"OR"}), ("AND", {"AND"}), ("relational", RELATIONAL), ("sum", {"+", "-"}), ("product", {"*", "/"}), ("power", {"^"})]


def _resolve_quant(p, m, depth=0):
    """Follow named rules until a Quantifier is found; returns (quant expr, member) or None."""
    if depth > 4:
        return None
    k = p.kind(m)
    if k == "quant":
        return m, m.members[0]
    if m.name and m.name in p.rules and p.rules[m.name] is not m:
        return _resolve_quant(p, p.rules[m.name], depth + 1)
    if k == "seq" and len(m.members) == 1:
        return _resolve_quant(p, m.members[0], depth + 1)
    return None


def infix_level(p, rname: str) -> Optional[Dict[str, Any]]:
    e = p.rules.get(rname)
    if e is None or p.kind(e) != "seq":
        return None
    ms = [m for m in e.members if not p.blank_only()[id(m)]]
    if len(ms) != 2 or not ms[0].name:
        return None
    operand = ms[0].name
    q = _resolve_quant(p, ms[1])
    if q is None:
        return None
    quant, elem = q
    # element: Sequence( ops, space*, operand, space* ) possibly wrapped in a named rule
    while elem.name and p.kind(elem) not in ("seq",) and elem.name in p.rules and p.kind(p.rules[elem.name]) == "seq":
        elem = p.rules[elem.name]
    if p.kind(elem) != "seq":
        return None
    ems = [m for m in elem.members if not p.blank_only()[id(m)]]
    if len(ems) != 2:
        return None
    ops = p.literal_set(ems[0])
    if ops is None or ems[1].name != operand:
        return None
    return {"rule": rname, "ops": set(ops), "operand": operand, "rep": "?" if (quant.min, quant.max) == (0, 1) else "*"}


def prefix_level(p, rname: str) -> Optional[Dict[str, Any]]:
    e = p.rules.get(rname)
    if e is None or p.kind(e) != "seq":
        return None
    ms = [m for m in e.members if not p.blank_only()[id(m)]]
    if len(ms) != 2:
        return None
    first = ms[0]
    opt = False
    if p.kind(first) == "quant" and (first.min, first.max) == (0, 1):
        opt = True
        first = first.members[0]
    ops = p.literal_set(first)
    if ops is None or not ms[1].name:
        return None
    return {"rule": rname, "ops": set(ops), "operand": ms[1].name, "optional": opt}


def ladder(p, top: str) -> Tuple[List[Dict[str, Any]], str]:
    """(levels loosest first, name of the atom rule)."""
    levels: List[Dict[str, Any]] = []
    cur = top
    seen = set()
    while cur not in seen:
        seen.add(cur)
        lv = prefix_level(p, cur)
        if lv is not None:
            lv["kind"] = "prefix"
            levels.append(lv)
            cur = lv["operand"]
            continue
        lv = infix_level(p, cur)
        if lv is not None:
            lv["kind"] = "infix"
            levels.append(lv)
            cur = lv["operand"]
            continue
        break
    return levels, cur


@rule("G8", "PRECEDENCE-LADDER: the PEG assigns every operator the Color BASIC binding level", ["C01"], floor=8)
def g8(ctx: Ctx):
    p = peg(ctx)
    levels, atom = ladder(p, "exp")
    infix = [l for l in levels if l["kind"] == "infix"]
    ctx.need(len(infix) >= 5, "exp", f"only {len(infix)} infix levels recognised below `exp` (idiom `level = operand space* (ops space* operand space*)*`)")
    for i, (nm, ops) in enumerate(CB_INFIX):
        if i >= len(infix):
            ctx.ob(f"level:{nm}", False, f"no grammar level for the {nm} operators {sorted(ops)}", file=GRAMMAR_REL, line=p.line("exp"))
            continue
        lv = infix[i]
        ok = lv["ops"] == ops
        ctx.ob(
            f"level:{nm}",
            ok,
            "" if ok else f"binding level {i + 1} (from loosest) is rule `{lv['rule']}` with operators {sorted(lv['ops'])}; Color BASIC has {sorted(ops)} there: expressions mixing them group differently from the source",
            file=GRAMMAR_REL,
            line=p.line(lv["rule"]),
            facts={"rule": lv["rule"], "operand": lv["operand"], "repeat": lv["rep"]},
        )
    if len(infix) > len(CB_INFIX):
        ctx.ob("level:extra", False, f"unexpected extra binding level(s): {[l['rule'] for l in infix[len(CB_INFIX):]]}", file=GRAMMAR_REL, line=p.line("exp"))
    # relational operators do not chain in Color BASIC expressions the tool supports: `?` or `*` both accepted
    # NOT: binds tighter than AND/OR, looser than the relational operators
    nots = [l for l in levels if l["kind"] == "prefix" and "NOT" in l["ops"]]
    ctx.need(nots, "NOT", "no prefix level for NOT found on the numeric ladder")
    rel_rule = next((l["rule"] for l in infix if l["ops"] == RELATIONAL), None)
    nl = nots[0]
    ok = nl["operand"] == rel_rule
    ctx.ob(
        "NOT-operand-level",
        ok,
        "" if ok else f"`NOT` takes a whole `{nl['operand']}` as operand (rule `{nl['rule']}`), i.e. it binds looser than AND/OR; in Color BASIC NOT binds tighter than AND and OR: `NOT B AND C` means (NOT B) AND C, the tool builds NOT (B AND C)",
        file=GRAMMAR_REL,
        line=p.line(nl["rule"]),
        witness="" if ok else "10 A = NOT B AND C  ->  LNOT(LAND(B, C))",
    )
    # unary sign: operand must not reach down past the power level
    un = p.rules.get("unop_exp")
    ctx.need(un is not None, "unop_exp", "rule not found")
    ul = prefix_level(p, "unop_exp")
    if ul is None:
        # unop is a named alternation rule
        ms = [m for m in un.members if not p.blank_only()[id(m)]]
        ops = p.literal_set(p.rules.get(ms[0].name, ms[0])) if ms and ms[0].name else None
        ctx.need(ops is not None and len(ms) == 2 and ms[1].name, "unop_exp", "shape `unop space* operand` not recognised")
        ul = {"rule": "unop_exp", "ops": set(ops), "operand": ms[1].name}
    okops = ul["ops"] == {"+", "-"}
    ctx.ob("unary-sign:operators", okops, "" if okops else f"prefix operators are {sorted(ul['ops'])}", file=GRAMMAR_REL, line=p.line("unop_exp"))
    pw_rule = next((l["rule"] for l in infix if l["ops"] == {"^"}), None)
    # the boolean ladder of IF conditions
    blevels, batom = ladder(p, "bool_exp")
    binfix = [l for l in blevels if l["kind"] == "infix"]
    want = [("OR", {"OR"}), ("AND", {"AND"})]
    for i, (nm, ops) in enumerate(want):
        ok = i < len(binfix) and binfix[i]["ops"] == ops
        ctx.ob(f"bool-level:{nm}", ok, "" if ok else f"boolean binding level {i + 1} is not {nm}", file=GRAMMAR_REL, line=p.line("bool_exp"))
    bn = [l for l in blevels if l["kind"] == "prefix" and "NOT" in l["ops"]]
    ctx.need(bn, "bool NOT", "no NOT level on the boolean ladder")
    and_operand = next((l["operand"] for l in binfix if l["ops"] == {"AND"}), None)
    okb = bn[0]["operand"] == and_operand
    ctx.ob(
        "bool-NOT-operand-level",
        okb,
        "" if okb else f"in IF conditions `NOT` takes a whole `{bn[0]['operand']}`: `IF NOT A=1 AND B=2` becomes NOT(A=1 AND B=2), Color BASIC means (NOT A=1) AND B=2",
        file=GRAMMAR_REL,
        line=p.line(bn[0]["rule"]),
        witness="" if okb else "10 IF NOT A=1 AND B=2 THEN 20",
    )
    # comparison operators of IF conditions are the relational set
    for r in ("bool_bin_exp", "bool_str_exp"):
        e = p.rules.get(r)
        ctx.need(e is not None, r, "rule not found")
        sets = [p.literal_set(m) for m in e.members if p.literal_set(m) is not None and not p.blank_only()[id(m)]]
        ok = bool(sets) and set(sets[0]) == RELATIONAL
        ctx.ob(f"{r}:operators", ok, "" if ok else f"`{r}` accepts {sorted(sets[0]) if sets else None}", file=GRAMMAR_REL, line=p.line(r))
    # ordered choice inside an operator alternation: a longer operator must come before its prefix (`<=` before `<`)
    for e in p.all_exprs():
        if p.kind(e) == "oneof":
            lits = [m.literal for m in e.members if p.kind(m) == "literal"]
            if len(lits) == len(e.members) and len(lits) > 1:
                bad = [(a, b) for i, a in enumerate(lits) for b in lits[i + 1 :] if b.startswith(a) and a != b]
                if set(lits) & RELATIONAL or bad:
                    ctx.ob(f"ordered-choice:{'/'.join(lits)[:40]}", not bad, "" if not bad else f"alternative {bad[0][0]!r} precedes {bad[0][1]!r}: PEG ordered choice never tries the longer one", file=GRAMMAR_REL, line=p.lineno)


def _mk_operand(name: str, i: int) -> Operand:
    return Operand(name, (i,), src=(i,))


def _render(t: V) -> Set[str]:
    from .rules_abs import _renderings

    outs: Set[str] = set()
    for a in alts_of(t):
        if isinstance(a, Const):
            outs.add(str(a.value))
        elif isinstance(a, Tmpl):
            for parts in _renderings(a):
                s = ""
                for part in parts:
                    if isinstance(part, str):
                        s += part
                    elif isinstance(part, Operand):
                        s += "{" + str(part.path[0]) + "}"
                    elif isinstance(part, Tmpl) and len(part.parts) == 1 and isinstance(part.parts[0], Operand):
                        s += "{" + str(part.parts[0].path[0]) + "}"
                    else:
                        s += "{?}"
                outs.add(s)
            continue
            s = ""
            for part in a.parts:
                if isinstance(part, str):
                    s += part
                elif isinstance(part, Operand):
                    s += "{" + str(part.path[0]) + "}"
                elif isinstance(part, Tmpl) and len(part.parts) == 1 and isinstance(part.parts[0], Operand):
                    s += "{" + str(part.parts[0].path[0]) + "}"
                else:
                    s += "{?}"
            outs.add(s)
        else:
            outs.add("{?}")
    return outs


@rule("E9", "OPERATOR-FORM: numeric AND/OR/NOT use LAND/LOR/LNOT, everything else is emitted infix in source order, parentheses are kept", ["C01", "C03"], floor=12, default_props=["C01"])
def e9(ctx: Ctx):
    I = interp(ctx)
    py = pyfacts(ctx)
    p = peg(ctx)

    def text(cls: str, args: List[V]) -> Set[str]:
        ctx.need(cls in py.classes, cls, "class not found")
        o = I.construct(cls, args, {}, 0, cls)
        rm = py.resolve_method(cls, "basic09_text")
        ctx.need(rm is not None, cls, "basic09_text not found")
        got_ = _render(I.call_function(rm[1], [o, Const(0)], self_obj=o, owner=rm[0].name))
        # a hole that is not one of the two probe operands: the text passes through code the interpreter does not model
        ctx.need(not any("{?}" in g_ for g_ in got_), cls, f"the emitted text of {cls} could not be derived completely: {sorted(got_)[:2]}")
        return got_

    A, B = _mk_operand("exp", 1), _mk_operand("exp", 2)
    infix_ops = ["+", "-", "*", "/", "^", "=", "<>", "<", ">", "<=", ">=", "=<", "=>"]
    for op in ["AND", "OR"] + infix_ops:
        got = text("BasicBinaryExp", [A, Const(op), B])
        want = {f"L{op}({{1}}, {{2}})"} if op in ("AND", "OR") else {f"{{1}} {op} {{2}}"}
        ctx.ob(f"BasicBinaryExp:{op}", got == want, "" if got == want else f"numeric `a {op} b` is emitted as {sorted(got)}, expected {sorted(want)}", file="coco/b09/elements.py", line=py.cls("BasicBinaryExp").node.lineno)
    for op in ["AND", "OR"] + infix_ops[5:]:
        got = text("BasicBooleanBinaryExp", [A, Const(op), B])
        want = {f"{{1}} {op} {{2}}"}
        ctx.ob(f"BasicBooleanBinaryExp:{op}", got == want, "" if got == want else f"boolean `a {op} b` is emitted as {sorted(got)}, expected {sorted(want)}", file="coco/b09/elements.py", line=py.cls("BasicBooleanBinaryExp").node.lineno)
    got = text("BasicOpExp", [Const("NOT"), A])
    ctx.ob("BasicOpExp:NOT", got == {"LNOT({1})"}, "" if got == {"LNOT({1})"} else f"numeric NOT is emitted as {sorted(got)}", file="coco/b09/elements.py", line=py.cls("BasicOpExp").node.lineno)
    got = text("BasicBooleanOpExp", [Const("NOT"), A])
    ctx.ob("BasicBooleanOpExp:NOT", got == {"NOT({1})"}, "" if got == {"NOT({1})"} else f"boolean NOT is emitted as {sorted(got)}", file="coco/b09/elements.py", line=py.cls("BasicBooleanOpExp").node.lineno)
    for cls in ("BasicParenExp", "BasicBooleanParenExp"):
        got = text(cls, [A])
        ctx.ob(f"{cls}", got == {"({1})"}, "" if got == {"({1})"} else f"parenthesised expression is emitted as {sorted(got)}: the source grouping is lost", file="coco/b09/elements.py", line=py.cls(cls).node.lineno)
    # prefix sign: BASIC09 gives unary minus a higher priority than ^ (Color BASIC: lower), so a sign whose operand
    # can contain ^ must be emitted with parentheses around the operand
    for sign in ("-", "+"):
        got = text("BasicOpExp", [Const(sign), A])
        flat = {f"{sign} {{1}}", f"{sign}{{1}}"}
        paren = {f"{sign}({{1}})", f"{sign} ({{1}})"}
        un = p.rules.get("unop_exp")
        ms = [m for m in un.members if not p.blank_only()[id(m)]]
        operand_rule = ms[1].name if len(ms) == 2 else None
        can_power = operand_rule is not None and _reaches(p, operand_rule, "num_power_sub_exp")
        if sign == "+":
            ctx.ob("BasicOpExp:+", bool(got & (flat | paren)) and got <= (flat | paren), "" if got <= (flat | paren) else f"prefix + is emitted as {sorted(got)}", file="coco/b09/elements.py", line=py.cls("BasicOpExp").node.lineno)
            continue
        ok = got <= paren or not can_power
        ctx.ob(
            "prefix-sign/power",
            ok,
            "" if ok else f"`-x` is emitted as {sorted(got)} and the operand of the prefix sign (rule `{operand_rule}`) can contain `^`: `-B^2` becomes `- B ^ 2.0`, which BASIC09 groups as (-B)^2 while Color BASIC means -(B^2)",
            file="coco/b09/elements.py",
            line=py.cls("BasicOpExp").node.lineno,
            witness="" if ok else "10 A=-B^2",
        )
    # function calls keep their argument list
    from .absint import Seq

    got = text("BasicFunctionCall", [Const("ABS"), I.construct("BasicExpressionList", [Seq([A])], {}, 0, "BasicExpressionList")])
    okf = "ABS({1})" in got and got <= {"ABS({1})", "ABS"}
    ctx.ob("BasicFunctionCall", okf, "" if okf else f"function call is emitted as {sorted(got)}", file="coco/b09/elements.py", line=py.cls("BasicFunctionCall").node.lineno)
    # a sign absorbed into a numeric literal sits below the power level as well
    nl = p.rules.get("num_literal")
    ctx.need(nl is not None and p.kind(nl) == "regex", "num_literal", "terminal not found")
    absorbs = nl.re.fullmatch("-1") is not None
    atom_of_power = _reaches(p, "num_power_exp", "num_literal")
    okl = not (absorbs and atom_of_power)
    ctx.ob(
        "literal-sign/power",
        okl,
        "" if okl else "the num_literal terminal absorbs a leading sign and is an operand of `^`: `-2^2` becomes `-2.0 ^ 2.0` = 4, Color BASIC computes -(2^2) = -4",
        file="coco/b09/grammar.py",
        line=p.line("num_literal"),
        witness="" if okl else "10 A=-2^2",
    )
    # hex literals: $hhhh below 0x8000, decimal above (BASIC09 integers are signed 16 bit)
    r = py.resolve_method("HexLiteral", "basic09_text")
    ctx.need(r is not None, "HexLiteral.basic09_text", "not found")
    # decided on the instantiated text of the four boundary objects, not on the way the comparison is written
    bad = []
    for digits, flt, want in (("7FFF", False, "$7FFF"), ("7FFF", True, "float($7FFF)"), ("8000", False, "32768"), ("8000", True, "32768.0"), ("0", False, "$0"), ("FFFF", True, "65535.0")):
        o = I.construct("HexLiteral", [Const(digits)], {"is_float": Const(flt)}, 0, "HexLiteral")
        got = _render(I.call_function(r[1], [o, Const(0)], self_obj=o, owner=r[0].name))
        ctx.need(all("{" not in g and "?" not in g for g in got) and got, "HexLiteral.basic09_text", f"text of HexLiteral({digits!r}, is_float={flt}) could not be computed: {sorted(got)}")
        if got != {want}:
            bad.append((digits, flt, sorted(got), want))
    okh = not bad
    ctx.ob("HexLiteral:threshold", okh, "" if okh else f"&H{bad[0][0]} ({'numeric context' if bad[0][1] else 'integer context'}) is emitted as {bad[0][2]}, expected {bad[0][3]!r}: BASIC09 hexadecimal constants are signed 16-bit integers and end at $7FFF, larger values have to be written in decimal", file="coco/b09/elements.py", line=r[1].lineno, props=["C01", "C03"])  # (hex DATA items go through the same text)


def _reaches(p, start: str, target: str) -> bool:
    seen: Set[str] = set()
    stack = [start]
    while stack:
        r = stack.pop()
        if r == target:
            return True
        if r in seen or r not in p.rules:
            continue
        seen.add(r)
        st2 = list(getattr(p.rules[r], "members", ()) or ())
        vis = set()
        while st2:
            m = st2.pop()
            if id(m) in vis:
                continue
            vis.add(id(m))
            if m.name:
                stack.append(m.name)
            else:
                st2.extend(getattr(m, "members", ()) or ())
    return False
